"""C18 - instance sizing is sufficient and minimal; components match the catalogue."""
import itertools
import json
import re

from core import LeanDriver, err_kind, canon
from gen import catalog

ID = "C18"
GENERATORS = [catalog.generate]
LEAN_MODULES = ["FimVerif.Proofs.C18"]
P = "FimVerif.C18."
THEOREMS = [P + t for t in (
    "le3_refl", "le3_trans", "le3_antisymm", "fits_iff", "sortHead_mem", "sortHead_minimal",
    "sizing_sufficient", "sizing_pareto_minimal", "sizing_fallback", "class_lemma", "name_caps_agree",
    "current_last_dominates", "current_names_agree",
    "sizing_sufficient_minimal", "unsatisfiable_iff_exceeds", "sizing_fallback_any_dimension", "satisfiable_of_within",
    "current_last", "current_fallback", "current_sizing_total",
    "lookup_finds_own_entry", "current_no_shadow", "current_wf", "generated_matches_entry", "generate_not_found",
    "generate_ok_shape", "generated_service", "generate_ok_of_consistent", "catalogued_model_generates",
    "current_models_generate", "current_type_rules", "portBw_spec",
    "units_spec", "enum_length", "enum_exact", "current_enum_members_resolve", "current_enum_nodup",
    "allocObjs_eq", "sessionObjs_bounds", "generated_objects_fresh",
    "generateT_typeTable", "current_member_path_rules", "current_member_entries", "member_path_eq", "current_members_generate",
    "current_consumer_ops_pure", "consumers_leave_catalogue", "consumer_answers_from_loaded_catalogue", "current_consumer_sessions")]
TRUSTED_BASE = [
    "gen/catalog.py + gen/symexec.py: the filter predicate is read off a symbolic execution of map_capacities_to_instance on a probe "
    "catalogue; the decision structure (catalogue order, sort head, first equal key, last key) is replayed on ~7.5k probe cases; the "
    "instance table is the one list_instances() returns; the per-type rules, separators, unit rule, lookup rule, enumeration names and "
    "object freshness of generate_component are probed on synthetic catalogue entries of every ComponentType",
    "CPython list.sort under Capacities.__lt__ (componentwise <=) is MODELLED by Catalog.sortHead (running head); validated on every run "
    "against the implementation on both ends of every threshold class of the current catalogue (complete by class_lemma)",
    "instance names are distinct because the catalogue is a JSON object loaded into a dict (translator rejects duplicates); not re-checked in the kernel (quadratic)",
    "Model/Catalog.lean generate mirrors generate_component after type/model resolution; uuid4 ids are modelled as 'library-generated' (none); "
    "object identity is modelled as an allocation counter (sessionObjs), compared with the identities of the real objects of a session",
]
ASSUMPTIONS = ["requests are non-negative integers in core/ram/disk; the other capacity fields of a request are 0 (the filter ignores them, the sort compares catalogue entries only)"]
RULE = ("sizing: off-grid requests (random, huge in one/two/three dimensions) and every request on the grid {0} ∪ {v, v+1 (quick) | v-1, v, v+1 (thorough)} per dimension over the catalogue's distinct values (both ends of every threshold class); "
        "components: every catalogue entry and alias × id/label/parent/ns-id argument combinations incl. wrong lengths and unknown models; "
        "sessions: every entry generated twice in a row (with and without caller labels) and mixed sequences, object identities numbered by first appearance, "
        "each session with a catalogue object per call and with ONE catalogue object; sizing sequences: request OBJECTS created, re-submitted, changed in "
        "place (attribute / _set_fields; grow, shrink, ignored fields) and re-submitted, interleaved with other objects, one InstanceCatalog object "
        "per sequence and one per call, every answer compared with the stateless model on the values at the time of the call; "
        "distinct by request / argument tuple; non-trivial = request fits at least one and not all entries, or component has interfaces")
EXHAUSTIVE = True


# ---------------------------------------------------------------- sizing

def _grid(thorough):
    from fim.slivers.instance_catalog import InstanceCatalog
    cat = InstanceCatalog().list_instances()
    dims = []
    for f in ("core", "ram", "disk"):
        vals = sorted({getattr(c, f) for c in cat.values()})
        pts = {0}
        for v in vals:
            pts |= {v, v + 1}
            if thorough:
                pts.add(max(v - 1, 0))
        dims.append(sorted(pts))
    return dims


def offgrid(rng, n):
    """requests that are NOT on the catalogue grid: random small/medium values and huge values in some dimensions"""
    out = [[10 ** 12, 0, 0], [0, 10 ** 12, 0], [0, 0, 10 ** 12], [10 ** 12, 10 ** 12, 0], [2 ** 64, 2 ** 64, 2 ** 64], [65, 1, 1], [1, 257, 1], [1, 1, 1001]]
    for _ in range(n):
        r = [rng.randrange(0, 70), rng.randrange(0, 300), rng.randrange(0, 1100)]
        k = rng.random()
        if k < 0.15:
            r[rng.randrange(3)] = rng.choice([10 ** 6, 2 ** 31, 2 ** 63, 10 ** 20])
        elif k < 0.3:
            r[rng.randrange(3)] = 0
        out.append(r)
    return out


def impl_pick(req):
    from fim.slivers.instance_catalog import InstanceCatalog
    from fim.slivers.capacities_labels import Capacities
    try:
        return ["ok", InstanceCatalog().map_capacities_to_instance(cap=Capacities(core=req[0], ram=req[1], disk=req[2]))]
    except Exception as e:
        return ["err", err_kind(e)]


def sizing_oracle(req, name, entries, res, ref=None):
    """The property itself: sufficient, Pareto-minimal, fallback = largest, name/capacities agree."""
    from fim.slivers.instance_catalog import InstanceCatalog
    from fim.slivers.capacities_labels import Capacities
    case = {"request": list(req)}
    caps = InstanceCatalog().get_instance_capacities(instance_type=name) if ref is None else (Capacities(**ref[name]) if name in ref else None)
    if caps is None:
        res.violation("C18:sizing:unknown-name", "returned name is not in the catalogue", case, observed=name)
        return
    got = (caps.core, caps.ram, caps.disk)
    sat = [e for e in entries if e[1][0] >= req[0] and e[1][1] >= req[1] and e[1][2] >= req[2]]
    m = re.fullmatch(r"fabric\.c(\d+)\.m(\d+)\.d(\d+)", name)
    if not m or tuple(int(x) for x in m.groups()) != got:
        res.violation("C18:sizing:name-caps-disagree", "size name and its capacities disagree", case, observed=[name, list(got)])
    if sat:
        if not (got[0] >= req[0] and got[1] >= req[1] and got[2] >= req[2]):
            res.violation("C18:sizing:insufficient", "a satisfying size exists but the returned one does not satisfy the request",
                          case, observed=[name, list(got)], expected="one of %d satisfying sizes, e.g. %s" % (len(sat), sat[0][0]))
        else:
            for n2, s2 in sat:
                if s2 != got and s2[0] <= got[0] and s2[1] <= got[1] and s2[2] <= got[2]:
                    res.violation("C18:sizing:not-minimal", "another satisfying size is smaller-or-equal in every dimension",
                                  case, observed=[name, list(got)], expected=[n2, list(s2)])
                    break
    else:
        big = entries[-1]
        if name != big[0]:
            res.violation("C18:sizing:fallback", "nothing satisfies the request but the last (largest) size was not returned", case, observed=name)
        if any(not (e[1][0] <= got[0] and e[1][1] <= got[1] and e[1][2] <= got[2]) for e in entries):
            res.violation("C18:sizing:fallback-not-largest", "the fallback size is not the largest", case, observed=[name, list(got)])



# ---------------------------------------------------------------- sizing: request objects re-used and changed in place

SEQ_MODES = ("shared-catalog", "fresh-catalog")


def seq_values(ops):
    """The (core, ram, disk) every pick of the sequence asks for - computed from the operations alone (what a stateless
    sizing function is handed), never from the implementation's objects."""
    cur, out = {}, []
    for op in ops:
        if op[0] == "new":
            cur[op[1]] = [op[2], op[3], op[4]]
        elif op[0] == "set":
            for f, v in op[3].items():
                if f in ("core", "ram", "disk"):
                    cur[op[1]][("core", "ram", "disk").index(f)] = v
        elif op[0] == "pick":
            out.append(list(cur[op[1]]))
    return out


def impl_pickseq(req):
    """req = ["pickseq", mode, ops]; ops: ["new", k, core, ram, disk] makes request object k, ["set", k, how, {field: value}]
    changes it IN PLACE (attribute assignment / _set_fields), ["pick", k] submits that very object again.  One InstanceCatalog
    object serves the whole sequence (mode shared-catalog) or a new one every call."""
    from fim.slivers.instance_catalog import InstanceCatalog
    from fim.slivers.capacities_labels import Capacities
    _, mode, ops = req
    objs, out = {}, []
    shared = InstanceCatalog()
    for op in ops:
        if op[0] == "new":
            objs[op[1]] = Capacities(core=op[2], ram=op[3], disk=op[4])
        elif op[0] == "set":
            c = objs[op[1]]
            if op[2] == "attr":
                for f, v in op[3].items():
                    setattr(c, f, v)
            else:
                c._set_fields(**op[3])
        else:
            c = objs[op[1]]
            before = (c.core, c.ram, c.disk, c.unit, c.bw)
            ic = shared if mode == "shared-catalog" else InstanceCatalog()
            try:
                r = ["ok", ic.map_capacities_to_instance(cap=c)]
            except Exception as e:
                r = ["err", err_kind(e)]
            if (c.core, c.ram, c.disk, c.unit, c.bw) != before:
                r = ["err", "request-object-changed-by-the-call"]
            out.append(r)
    return ["ok", out]


def pickseq_requests(rng, entries, n):
    """Deterministic sequences first (grow / shrink in place and re-submit, equal-but-distinct objects, other requests in
    between, fields the filter ignores), then random ones over catalogue values and their neighbours."""
    seqs = [
        # one object: map, grow in place, map again, grow other dimensions, shrink
        [["new", 0, 2, 8, 10], ["pick", 0], ["set", 0, "attr", {"disk": 500}], ["pick", 0],
         ["set", 0, "_set_fields", {"core": 16, "ram": 32}], ["pick", 0], ["set", 0, "_set_fields", {"core": 1, "ram": 2, "disk": 10}], ["pick", 0]],
        # the same with another request mapped in between, and the first object re-submitted unchanged
        [["new", 0, 2, 8, 10], ["new", 1, 4, 16, 100], ["pick", 0], ["pick", 1], ["set", 0, "attr", {"disk": 500}], ["pick", 0], ["pick", 0],
         ["pick", 1], ["set", 1, "attr", {"core": 1}], ["pick", 1], ["pick", 0]],
        # equal but distinct objects; one of them changes
        [["new", 0, 2, 8, 10], ["new", 1, 2, 8, 10], ["pick", 0], ["pick", 1], ["set", 0, "attr", {"ram": 9}], ["pick", 1], ["pick", 0],
         ["set", 1, "_set_fields", {"ram": 9}], ["pick", 1]],
        # satisfiable -> unsatisfiable -> satisfiable on one object (fallback must not stick, a real answer must not stick)
        [["new", 0, 1, 1, 1], ["pick", 0], ["set", 0, "attr", {"core": 10 ** 6}], ["pick", 0], ["set", 0, "attr", {"core": 3}], ["pick", 0],
         ["set", 0, "attr", {"disk": 10 ** 9}], ["pick", 0], ["set", 0, "attr", {"disk": 0, "core": 0, "ram": 0}], ["pick", 0]],
        # fields the sizing ignores change: the answer must stay
        [["new", 0, 8, 32, 100], ["pick", 0], ["set", 0, "attr", {"unit": 3}], ["pick", 0], ["set", 0, "_set_fields", {"bw": 100}], ["pick", 0],
         ["set", 0, "attr", {"unit": 0, "core": 9}], ["pick", 0]],
    ]
    vals = [sorted({e[1][d] for e in entries}) for d in range(3)]

    def pt(d):
        v = rng.choice(vals[d])
        return max(v + rng.choice([-1, 0, 0, 1]), 0)
    for _ in range(n):
        k = rng.randrange(1, 4)
        ops = [["new", j, pt(0), pt(1), pt(2)] for j in range(k)]
        for _ in range(rng.randrange(4, 14)):
            j = rng.randrange(k)
            r = rng.random()
            if r < 0.5:
                ops.append(["pick", j])
            elif r < 0.9:
                fs = rng.sample(["core", "ram", "disk"], rng.randrange(1, 4))
                ops.append(["set", j, rng.choice(["attr", "_set_fields"]), {f: pt(("core", "ram", "disk").index(f)) for f in fs}])
                ops.append(["pick", j])
            elif r < 0.95:
                ops.append(["set", j, "attr", {rng.choice(["unit", "bw"]): rng.randrange(0, 5)}])
            else:
                ops.append(["new", j, pt(0), pt(1), pt(2)])     # the name is bound to a new object
        ops.append(["pick", rng.randrange(k)])
        seqs.append(ops)
    return [["pickseq", m, ops] for ops in seqs for m in SEQ_MODES]


def pickseq_oracle(req, reply, entries, res):
    """every answer of the sequence is judged on the request as it is at the time of the call; equal requests get equal answers"""
    first = {}
    for k, (vals, r) in enumerate(zip(seq_values(req[2]), reply[1])):
        case = {"request": req, "call": k, "values": vals}
        if r[0] != "ok":
            res.violation("C18:sizing:sequence:raises:" + r[1], "map_capacities_to_instance raised / changed the request object on a re-submitted request", case)
            return
        sub = type(res)()
        sizing_oracle(tuple(vals), r[1], entries, sub)
        for v in sub.violations:
            res.violation(v["signature"].replace("C18:sizing:", "C18:sizing:sequence:"),
                          v["what"] + " (request object re-used / changed in place between calls)", case,
                          observed=v.get("observed"), expected=v.get("expected"))
            return
        if first.setdefault(tuple(vals), r[1]) != r[1]:
            res.violation("C18:sizing:sequence:answer-depends-on-history", "the same request is mapped to different sizes within one sequence",
                          case, observed=r[1], expected=first[tuple(vals)])
            return


# ---------------------------------------------------------------- components

BDF_SCALAR = "0000:41:00.0"


def _mk_label(spec):
    from fim.slivers.capacities_labels import Labels
    if spec is None:
        return None
    if spec[0] == "none":
        return Labels(mac="00:11:22:33:44:55")
    if spec[0] == "scalar":
        return Labels(bdf=BDF_SCALAR)
    return Labels(bdf=["0000:41:%02x.%d" % (i // 8, i % 8) for i in range(spec[1])], mac=["00:11:22:33:44:%02x" % i for i in range(spec[1])])


def impl_gen(req):
    """req = ["gen", name, model, type, nsId, ids, labels, parent] -> canonical component."""
    from fim.slivers.component_catalog import ComponentCatalog
    from fim.slivers.attached_components import ComponentType
    _, name, model, ctype, ns_id, ids, labels, parent = req
    labs = None if labels is None else [_mk_label(s) for s in labels]
    try:
        ct = ComponentType[ctype]
    except KeyError:
        return ["err", "bad-type"]
    try:
        cs = ComponentCatalog().generate_component(name=name, ctype=ct, model=model, ns_node_id=ns_id,
                                                   interface_node_ids=None if ids is None else list(ids),
                                                   interface_labels=labs, parent_name=parent)
    except Exception as e:
        return ["err", err_kind(e)]
    out = canon_comp(cs, ns_id, ids, labs)
    _poison(cs, labs)
    return ["ok", out]


def _poison(cs, labs):
    """A generated component belongs to its caller: after it has been read, every mutable object hanging off it that the
    library created (port capacities, library-made labels, the interface and service dictionaries) is changed in place.  If
    the library shares any of them between components (a cached Capacities, a mutable default, a catalogue entry handed out
    uncopied), a LATER generation in the same process no longer matches the catalogue and the comparison above reports it."""
    try:
        nsi = cs.network_service_info
        if nsi is None:
            return
        for ns in list(nsi.network_services.values()):
            for isl in list(ns.interface_info.interfaces.values()):
                cap = isl.get_capacities()
                if cap is not None:
                    cap.bw, cap.unit = 7, 0
                lab = isl.get_labels()
                if lab is not None and not any(l is lab for l in (labs or [])):
                    lab.local_name = "poisoned"
                isl.set_name("poisoned-" + isl.get_name()[:40])
            ns.interface_info.interfaces.clear()
        nsi.network_services.clear()
    except Exception:
        pass


def _library_objects(cs, labs):
    """the mutable objects the library made for this component, in a fixed order (cf. Model/Catalog.lean objCount)"""
    out = [cs]
    nsi = cs.network_service_info
    if nsi is None:
        return out
    nss = list(nsi.network_services.values())
    ns = nss[0]
    out += [nsi, ns, ns.interface_info]
    for isl in ns.interface_info.interfaces.values():
        out.append(isl)
        out.append(isl.get_capacities())
        lab = isl.get_labels()
        if not any(l is lab for l in (labs or [])):
            out.append(lab)
    return out


def impl_session(req):
    """req = ["session", [[model, type, ids, labels], ...]] -> per successfully generated component the identity numbers of
    its library-made objects (numbered by first appearance over the whole session; all fresh <=> consecutive numbers)"""
    from fim.slivers.component_catalog import ComponentCatalog
    from fim.slivers.attached_components import ComponentType
    seen, keep, out, made, info = {}, [], [], [], []
    one = ComponentCatalog() if len(req) > 2 and req[2] == "one-catalog-object" else None
    for model, ctype, ids, labels in req[1]:
        labs = None if labels is None else [_mk_label(x) for x in labels]
        try:
            cs = (one or ComponentCatalog()).generate_component(name="nm", ctype=ComponentType[ctype], model=model,
                                                       interface_node_ids=None if ids is None else list(ids), interface_labels=labs)
        except Exception:
            continue
        objs = _library_objects(cs, labs)
        keep.append((cs, labs, objs))
        out.append([seen.setdefault(id(o), len(seen)) for o in objs])
        made.append((cs, labs))
        info.append((ctype, model, [type(o).__name__ for o in objs]))
    for cs, labs in made:
        _poison(cs, labs)
    _SESSION_INFO[canon(req)] = info
    return ["ok", out]


_SESSION_INFO = {}


def session_oracle(req, reply, res):
    """objects the library makes for a component belong to that component alone: nothing is handed out twice"""
    info = _SESSION_INFO.get(canon(req), [])
    owner = {}
    for k, ids in enumerate(reply[1]):
        for pos, n in enumerate(ids):
            if n in owner:
                ctype, model, classes = info[k] if k < len(info) else ("?", "?", [])
                cls = classes[pos] if pos < len(classes) else "?"
                res.violation("C18:component:%s:shared-object:%s" % (ctype, cls),
                              "two generated components (or two ports of one) hold the very same mutable %s object: changing one changes the other" % cls,
                              {"request": req}, observed={"component": k, "position": pos, "first_owner": owner[n]})
                return
            owner[n] = (k, pos)


def session_requests(cat, rng):
    def args(c, with_labels):
        n = len(c.get("Interfaces", {}) or {})
        if not with_labels:
            return [c["Model"], c["Type"], None, None]
        return [c["Model"], c["Type"], ["id%d" % i for i in range(n)], [["list", 2] if i % 2 else ["none"] for i in range(n)]]
    twice = []
    for c in cat:
        twice += [args(c, False), args(c, False)]
    lab = []
    for c in cat:
        lab += [args(c, True), args(c, False), args(c, True)]
    mixed = [args(rng.choice(cat), rng.random() < 0.4) for _ in range(30)] + [["NoSuchModel", "GPU", None, None]]
    alias = [[a, c["Type"], None, None] for c in cat for a in (c.get("AlsoModels") or [])] * 2
    base = [["session", twice], ["session", lab], ["session", mixed], ["session", alias]]
    # the same sessions served by ONE ComponentCatalog object (state kept on the instance shows here)
    return base + [b + ["one-catalog-object"] for b in base]


def model_lines(r, cat=None, ref=None):
    """the request lines the (stateless) model gets for one harness request"""
    if r[0] == "pickseq":
        return [["pick"] + v for v in seq_values(r[2])]
    if r[0] == "topo":      # through the topology the node's name is the parent; the member path is the model's generateM
        return [["genm", "c1", r[1], "member", None, None, None, "n1"] if r[2] == "model_type" else
                genm_as_gen(cat, ["genm", "c1", r[1], "member", None, None, None, "n1"])]
    if r[0] == "session":
        return [r[:2]]
    return [r]


def _uuidish(s):
    return isinstance(s, str) and re.fullmatch(r"[0-9a-f]{8}-[0-9a-f]{4}-4[0-9a-f]{3}-[89ab][0-9a-f]{3}-[0-9a-f]{12}", s) is not None


def canon_comp(cs, ns_id, ids, labs):
    out = {"model": cs.get_model(), "type": str(cs.get_type()), "details": cs.get_details(),
           "nsName": None, "nsType": None, "nsId": None, "ifaces": []}
    nsi = cs.network_service_info
    if nsi is not None:
        nss = list(nsi.network_services.values())
        assert len(nss) == 1
        ns = nss[0]
        out["nsName"] = ns.get_name()
        out["nsType"] = str(ns.get_type())
        out["nsId"] = ns.node_id if ns_id is not None else (None if _uuidish(ns.node_id) else "NOT-A-UUID:" + str(ns.node_id))
        for isl in ns.interface_info.interfaces.values():
            lab = isl.get_labels()
            cap = isl.get_capacities()
            ln = lab.local_name if lab is not None else None
            idx = None
            if labs is not None:
                for k, l in enumerate(labs):
                    if l is lab:
                        idx = k
            out["ifaces"].append({
                "name": isl.get_name(), "kind": str(isl.get_type()) if isl.get_type() is not None else "",
                "bw": cap.bw, "units": cap.unit,
                "nodeId": isl.node_id if ids is not None else (None if _uuidish(isl.node_id) else "NOT-A-UUID:" + str(isl.node_id)),
                "localNames": list(ln) if isinstance(ln, list) else [ln], "localIsList": isinstance(ln, list), "labelIdx": idx})
    return out


def comp_requests(rng, thorough):
    import os
    import fim.slivers.component_catalog as ccm
    with open(os.path.join(os.path.dirname(ccm.__file__), "data", "component_catalog.json")) as f:
        cat = json.load(f)
    reqs = []
    for c in cat:
        n = len(c.get("Interfaces", {}) or {})
        models = [c["Model"]] + list(c.get("AlsoModels") or [])
        for model in models:
            for parent in (None, "par"):
                for ns_id in (None, "ns-1"):
                    id_opts = [None, ["id%d" % i for i in range(n)]]
                    if thorough or model == c["Model"]:
                        id_opts += [["x"] * (n + 1), ["x"] * max(n - 1, 0)]
                    for ids in id_opts:
                        lab_opts = [None]
                        shapes = [["none"], ["scalar", len(BDF_SCALAR)], ["list", 1], ["list", 3], ["list", 0]]
                        lab_opts.append([shapes[(i + 1) % 5] for i in range(n)])
                        lab_opts.append([shapes[(i + 3) % 5] for i in range(n)])
                        lab_opts.append([rng.choice(shapes) for i in range(n)])
                        if thorough or parent is None:
                            lab_opts.append([["list", 2]] * (n + 1))
                            lab_opts.append([["scalar", len(BDF_SCALAR)]] * max(n - 1, 0))
                        for labels in lab_opts:
                            reqs.append(["gen", "c-" + str(len(reqs) % 7), model, c["Type"], ns_id, ids, labels, parent])
    # unknown models / wrong type
    for c in cat[:6]:
        other = [t for t in ("GPU", "SmartNIC", "SharedNIC", "FPGA", "NVME", "Storage") if t != c["Type"]][0]
        reqs.append(["gen", "uu", c["Model"], other, None, None, None, None])
    reqs.append(["gen", "uu", "NoSuchModel", "GPU", None, None, None, None])
    reqs.append(["gen", "uu", "", "GPU", None, None, None, None])
    return cat, reqs


def comp_oracle(cat, req, reply, res, case=None, path=""):
    """The property: type, details, exactly the catalogued interfaces with speeds / kinds / unit counts; ids and labels positional."""
    _, name, model, ctype, ns_id, ids, labels, parent = req
    case = case or {"request": req}
    entry = None
    for c in cat:
        if c["Type"] == ctype and (c["Model"] == model or model in (c.get("AlsoModels") or [])):
            entry = c
            break
    if entry is None:
        if reply[0] == "ok":
            res.violation("C18:component:unknown-model-accepted", "a model that is not catalogued under this type was generated", case, observed=reply[1]["model"])
        return
    ifs = entry.get("Interfaces")
    n = len(ifs or {})
    if reply[0] == "err":
        bad_args = ifs is not None and ((ids is not None and (len(ids) != n or labels is None or len(labels) != n)) or
                                        (ids is None and labels is not None and len(labels) < n))
        if not bad_args:
            res.violation("C18:component:%s:valid-arguments-rejected" % ctype, "a catalogued model with consistent arguments was rejected (%s)" % reply[1], case)
        return
    g = reply[1]
    sig = "C18:component:%s:" % ctype

    def bad(kind, what, **kw):
        res.violation(sig + kind + path, what + (" (model named through the combined type-model enumeration)" if path else ""), case, **kw)
    if g["model"] != entry["Model"] or g["type"] != entry["Type"]:
        bad("type-model", "generated component has another type/model than its catalogue entry", observed=[g["type"], g["model"]])
    if g["details"] != entry["Details"]:
        bad("details", "details differ from the catalogue", observed=g["details"])
    if ifs is None:
        if g["ifaces"] or g["nsName"] is not None:
            bad("spurious-interfaces", "an entry without interfaces produced interfaces/service")
        return
    if [i["name"] for i in g["ifaces"]] != [name + "-" + p for p in ifs]:
        bad("interface-names", "interfaces are not exactly the catalogued ports", observed=[i["name"] for i in g["ifaces"]])
        return
    want_kind = "DedicatedPort" if ctype in ("SmartNIC", "FPGA") else ("SharedPort" if ctype == "SharedNIC" else "")
    for k, (p, i) in enumerate(zip(ifs, g["ifaces"])):
        want_bw = 0 if ctype == "SharedNIC" else int(ifs[p])
        if i["bw"] != want_bw:
            bad("speed", "interface speed differs from the catalogue", observed=i["bw"], expected=want_bw)
        if i["kind"] != want_kind:
            bad("kind", "interface kind is wrong for this component type", observed=i["kind"], expected=want_kind)
        spec = labels[k] if labels is not None and k < len(labels) else ["none"]   # (too few labels: nothing is demanded of that port)
        want_units = spec[1] if spec[0] == "list" else 1
        if i["units"] != want_units:
            bad("units-from-%s-bdf" % spec[0], "unit count is not the number of devices behind the interface (1 unless the bdf label is a list)",
                observed=i["units"], expected=want_units)
        if ids is not None and i["nodeId"] != ids[k]:
            bad("ids-positional", "caller-supplied id landed on the wrong interface", observed=i["nodeId"], expected=ids[k])
        if ids is None and i["nodeId"] is not None:
            bad("ids-generated", "library-generated interface id is not a uuid4", observed=i["nodeId"])
        if labels is not None and k < len(labels) and i["labelIdx"] != k:
            bad("labels-positional", "caller-supplied labels landed on the wrong interface", observed=i["labelIdx"], expected=k)
        want_ln = [p] * spec[1] if spec[0] == "list" else [p]
        if i["localNames"] != want_ln or i["localIsList"] != (spec[0] == "list"):
            bad("local-name", "local_name label is not the catalogued port name", observed=i["localNames"], expected=want_ln)
    suffix = "-l2p4" if ctype == "FPGA" else "-l2ovs"
    if g["nsName"] != ((parent + "-") if parent else "") + name + suffix:
        bad("service-name", "network-service name", observed=g["nsName"])
    if ns_id is not None and g["nsId"] != ns_id:
        bad("service-id", "caller-supplied service id not used", observed=g["nsId"])
    if ns_id is None and g["nsId"] is not None:
        bad("service-id-generated", "library-generated service id is not a uuid4", observed=g["nsId"])


def enum_oracle(cat, res):
    import fim.slivers.component_catalog as cc
    from fim.slivers.component_catalog import ComponentCatalog
    members = list(cc.ComponentModelType)
    want = [re.sub(r"[ -]", "_", c["Type"]) + "_" + re.sub(r"[ -]", "_", c["Model"]) for c in cat]
    got = [m.name for m in members]
    if got != want or len(set(got)) != len(cat):
        res.violation("C18:enum:members", "combined type-model enumeration does not list exactly the catalogue entries", {"enum": got}, expected=want)
    for m, c in zip(members, cat):
        ent = cc.ComponentModelTypeMap.get(m)
        if ent is None or ent["Model"] != c["Model"] or ent["Type"] != c["Type"]:
            res.violation("C18:enum:map", "enumeration member maps to another entry", {"member": m.name})
            continue
        try:
            cs = ComponentCatalog().generate_component(name="en", model_type=m)
            if cs.get_model() != c["Model"] or str(cs.get_type()) != c["Type"] or cs.get_details() != c["Details"]:
                res.violation("C18:enum:generate", "generation by enumeration member gives another entry", {"member": m.name})
        except Exception as e:
            res.violation("C18:enum:generate-raises", "generation by enumeration member raises %s" % err_kind(e), {"member": m.name})
    return got


# ---------------------------------------------------------------- the catalogue as the resource file says (independent reference)

def ref_instances():
    """name -> {field: value} in FILE order, read from the resource file next to the module under test (never from the
    implementation's objects: a catalogue damaged in this process must not become the oracle's yardstick)"""
    import os
    import fim.slivers.instance_catalog as icm
    with open(os.path.join(os.path.dirname(icm.__file__), "data", "instance_sizes.json")) as f:
        return json.load(f)


def _full(c):
    return None if c is None else tuple(sorted((k, v) for k, v in c.__dict__.items()))


def catalogue_damage(ref):
    """names whose capacities, as the implementation serves them NOW (by name and in the listing), are not the file's"""
    from fim.slivers.instance_catalog import InstanceCatalog
    from fim.slivers.capacities_labels import Capacities
    ic = InstanceCatalog()
    listed = ic.list_instances()
    bad = []
    if set(listed.keys()) != set(ref.keys()):
        bad.append("<names>")
    want = _REF_FULL.get(id(ref))
    if want is None or want[0] is not ref:
        want = _REF_FULL[id(ref)] = (ref, {n: _full(Capacities(**v)) for n, v in ref.items()})
    for n, w in want[1].items():
        if _full(listed.get(n)) != w or _full(ic.get_instance_capacities(instance_type=n)) != w:
            bad.append(n)
    return bad


_REF_FULL = {}


def repair_catalogue(ref):
    """put the file's values back into whatever objects the implementation serves, and drop class-level caches"""
    from fim.slivers.instance_catalog import InstanceCatalog
    from fim.slivers.capacities_labels import Capacities
    for n, v in vars(InstanceCatalog).copy().items():
        if isinstance(v, dict) and v and all(isinstance(x, Capacities) for x in v.values()):
            setattr(InstanceCatalog, n, None)
    try:
        if catalogue_damage(ref):
            for n, c in InstanceCatalog().list_instances().items():
                if n in ref:
                    c.__dict__.update(Capacities(**ref[n]).__dict__)
    except Exception:
        pass


# ---------------------------------------------------------------- consumers of catalogue objects (C18-r6-1 class)
#
# The catalogue hands out Capacities objects (get_instance_capacities, list_instances()[name]).  Consumers total them up,
# subtract them, compare and print them - with the operators and methods that, by their contract, do not modify an operand
# (`+`, `-`, `+=`, `-=` on a class with value semantics, `<`, `>`, `==`, str / repr / to_json / to_dict, positive_fields,
# negative_fields, Capacities.update "DOES NOT UPDATE IN PLACE", FreeCapacity).  Whatever a consumer computes from catalogue
# objects, every later answer of the catalogue must still be the file's: name and capacities agree, requests are mapped to a
# sufficient minimal size.  Objects the consumer OWNS (results of + / - / update) are scribbled on afterwards, so a result
# that is secretly the catalogue's object (e.g. `x + zero` returning x) shows as well.

AUG = ("iadd", "isub")
BIN = ("add", "sub", "update")
USE = ("lt", "gt", "eq", "str", "repr", "to_json", "to_dict", "positive_fields", "negative_fields", "free", "list_fields")


def capsess_values(ops, ref):
    """pure value semantics of a consumer session: handle -> (core, ram, disk), and per op what the catalogue is asked"""
    val, out = {}, []
    for op in ops:
        k = op[0]
        if k == "get":
            val[op[1]] = [ref[op[2]][f] for f in ("core", "ram", "disk")]
        elif k == "fresh":
            val[op[1]] = list(op[2:5])
        elif k == "aug":
            a, b = val[op[2]], val[op[3]]
            val[op[2]] = [x + y for x, y in zip(a, b)] if op[1] == "iadd" else [x - y for x, y in zip(a, b)]
        elif k == "bin":
            a, b = val[op[3]], val[op[4]]
            val[op[2]] = [x + y for x, y in zip(a, b)] if op[1] == "add" else [x - y for x, y in zip(a, b)] if op[1] == "sub" else list(a)
        elif k == "scribble":
            val[op[1]] = [7, 7, 7]
        elif k == "query":
            out.append(["caps", op[1]])
        elif k == "pick":
            out.append(["pick"] + list(op[1:4]))
        elif k == "pickh":
            out.append(["pick"] + [max(v, 0) for v in val[op[1]]])
    return out


def impl_capsess(req):
    """req = ["capsess", mode, ops]: one consumer session.  Reply: the catalogue's answers in order, and after which operation (if
    any) the catalogue stopped being the file's."""
    from fim.slivers.instance_catalog import InstanceCatalog
    from fim.slivers.capacities_labels import Capacities, FreeCapacity
    _, mode, ops = req
    ref = ref_instances()
    repair_catalogue(ref) if catalogue_damage(ref) else None
    shared = InstanceCatalog()
    h, owned, out, damaged = {}, set(), [], None

    def ic():
        return shared if mode == "shared-catalog" else InstanceCatalog()
    try:
        for idx, op in enumerate(ops):
            k = op[0]
            if k == "get":
                h[op[1]] = ic().get_instance_capacities(instance_type=op[2]) if op[3] == "by-name" else ic().list_instances()[op[2]]
                owned.discard(op[1])
            elif k == "fresh":
                h[op[1]] = Capacities(core=op[2], ram=op[3], disk=op[4])
                owned.add(op[1])
            elif k == "aug":
                x = h[op[2]]
                if op[1] == "iadd":
                    x += h[op[3]]
                else:
                    x -= h[op[3]]
                h[op[2]] = x
                owned.discard(op[2])        # `+=` may legitimately have worked in place on a consumer's own object; it is not scribbled
            elif k == "bin":
                a, b = h[op[3]], h[op[4]]
                h[op[2]] = a + b if op[1] == "add" else a - b if op[1] == "sub" else Capacities.update(a)
                owned.add(op[2])
            elif k == "scribble":
                if op[1] in owned:
                    c = h[op[1]]
                    c.core, c.ram, c.disk, c.unit = 7, 7, 7, 7
            elif k == "use":
                a, b = h[op[2]], h[op[3]]
                u = op[1]
                if u == "lt":
                    a < b
                elif u == "gt":
                    a > b
                elif u == "eq":
                    a == b
                elif u == "free":
                    f = FreeCapacity(total=a, allocated=b)
                    str(f), f.core
                elif u == "positive_fields":
                    a.positive_fields(["core", "ram", "disk"])
                elif u == "str":
                    str(a)
                elif u == "repr":
                    repr(a)
                else:
                    getattr(a, u)()
            elif k == "query":
                c = ic().get_instance_capacities(instance_type=op[1])
                c2 = ic().list_instances().get(op[1])
                if _full(c) != _full(c2):
                    out.append(["ok", "by-name-and-listing-differ"])
                else:
                    out.append(["ok", None if c is None else [c.core, c.ram, c.disk]])
            elif k in ("pick", "pickh"):
                c = Capacities(core=op[1], ram=op[2], disk=op[3]) if k == "pick" else h[op[1]]
                if k == "pickh" and min(c.core, c.ram, c.disk) < 0:
                    c = Capacities(core=max(c.core, 0), ram=max(c.ram, 0), disk=max(c.disk, 0))
                out.append(["ok", ic().map_capacities_to_instance(cap=c)])
            if damaged is None and k in ("aug", "bin", "use", "scribble", "pickh", "pick"):
                bad = catalogue_damage(ref)
                if bad:
                    damaged = {"after": idx, "op": k + ":" + str(op[1]) if k in ("aug", "bin", "use") else k, "names": bad[:3]}
    except Exception as e:
        out.append(["err", err_kind(e)])
    finally:
        if damaged is None:
            bad = catalogue_damage(ref)
            if bad:
                damaged = {"after": len(ops), "op": "end", "names": bad[:3]}
        if damaged is not None:
            repair_catalogue(ref)
    return ["ok", {"out": out, "damaged": damaged}]


def capsess_requests(rng, ref, n):
    names = list(ref)
    seqs = []
    # deterministic: total up three sizes, what is left of a worker, zero terms, the listing path, compare / print in between
    a, b, c, big, small = names[len(names) // 3], names[len(names) // 2], names[-2], names[-1], names[0]
    for how in ("by-name", "listing"):
        seqs.append([["get", 0, a, how], ["get", 1, b, how], ["aug", "iadd", 0, 1], ["get", 2, c, how], ["aug", "iadd", 0, 2], ["query", a], ["query", b],
                     ["pickh", 0], ["pick"] + [ref[a][f] for f in ("core", "ram", "disk")], ["get", 3, a, how], ["pickh", 3]])
        seqs.append([["get", 0, big, how], ["get", 1, small, how], ["aug", "isub", 0, 1], ["query", big], ["query", small], ["pickh", 0],
                     ["pick"] + [ref[big][f] for f in ("core", "ram", "disk")], ["pick", 10 ** 6, 1, 1]])
        seqs.append([["get", 0, a, how], ["fresh", 1, 0, 0, 0], ["bin", "add", 2, 0, 1], ["scribble", 2], ["bin", "sub", 3, 0, 1], ["scribble", 3],
                     ["bin", "update", 4, 0, 0], ["scribble", 4], ["bin", "add", 5, 1, 0], ["scribble", 5], ["query", a], ["pickh", 0]])
        seqs.append([["get", 0, a, how], ["get", 1, b, how]] + [["use", u, 0, 1] for u in USE] + [["query", a], ["query", b], ["pickh", 0], ["pickh", 1]])
        seqs.append([["fresh", 0, 0, 0, 0], ["get", 1, a, how], ["aug", "iadd", 0, 1], ["aug", "iadd", 0, 1], ["query", a], ["pickh", 0],
                     ["get", 2, a, how], ["aug", "isub", 0, 2], ["query", a], ["pickh", 0]])
    small_names = [x for x in names if ref[x]["core"] <= 8 and ref[x]["disk"] <= 100] or names
    for _ in range(n):
        k = rng.randrange(2, 5)
        ops, vals, cat_handles = [], {}, set()

        def v3(x):
            return [ref[x][f] for f in ("core", "ram", "disk")]
        for j in range(k):
            if rng.random() < 0.75:
                nm = rng.choice(small_names if rng.random() < 0.6 else names)
                ops.append(["get", j, nm, rng.choice(["by-name", "listing"])])
                vals[j] = v3(nm)
                cat_handles.add(j)
            else:
                vals[j] = [rng.randrange(0, 9), rng.randrange(0, 33), rng.randrange(0, 101)]
                ops.append(["fresh", j] + vals[j])
        nxt = k
        for _ in range(rng.randrange(3, 10)):
            r = rng.random()
            x, y = rng.randrange(k), rng.randrange(k)
            if r < 0.35:
                sub_ok = all(p >= q for p, q in zip(vals[x], vals[y]))
                o = "isub" if sub_ok and rng.random() < 0.5 else "iadd"
                ops.append(["aug", o, x, y])
                vals[x] = [p + q if o == "iadd" else p - q for p, q in zip(vals[x], vals[y])]
            elif r < 0.55:
                sub_ok = all(p >= q for p, q in zip(vals[x], vals[y]))
                o = rng.choice(["add", "update"] + (["sub"] if sub_ok else []))
                ops.append(["bin", o, nxt, x, y])
                ops.append(["scribble", nxt])
                nxt += 1
            elif r < 0.7:
                ops.append(["use", rng.choice(USE), x, y])
            elif r < 0.85:
                touched = [op[2] for op in ops if op[0] == "get"]
                ops.append(["query", rng.choice(touched) if touched else rng.choice(names)])
            else:
                ops.append(["pickh", x])
        for op in [o for o in ops if o[0] == "get"][:3]:
            ops.append(["query", op[2]])
            ops.append(["pick"] + v3(op[2]))
        ops.append(["pickh", rng.randrange(k)])
        seqs.append(ops)
    return [["capsess", m, ops] for ops in seqs for m in SEQ_MODES]


def capsess_oracle(req, reply, ref, entries, res):
    case = {"request": req}
    d = reply[1]["damaged"]
    if d is not None:
        from fim.slivers.instance_catalog import InstanceCatalog
        res.violation("C18:catalogue:changed-by-consumer:" + d["op"],
                      "after a consumer computed with catalogue objects (operators / methods that do not modify their operands) the catalogue "
                      "serves capacities that are not the resource file's: name and capacities disagree for the rest of the process",
                      case, observed=d, expected={n: ref.get(n) for n in d["names"]})
        return
    for want, r in zip(capsess_values(req[2], ref), reply[1]["out"]):
        if r[0] != "ok":
            res.violation("C18:catalogue:consumer-session-raises:" + r[1], "a catalogue query / a value operation on catalogue objects raised", case)
            return
        if want[0] == "caps":
            w = None if want[1] not in ref else [ref[want[1]][f] for f in ("core", "ram", "disk")]
            if r[1] != w:
                res.violation("C18:catalogue:name-caps-disagree", "a size name is served with capacities that are not the file's", case,
                              observed=[want[1], r[1]], expected=w)
                return
        else:
            sub = type(res)()
            sizing_oracle(tuple(want[1:]), r[1], entries, sub, ref=ref)
            for v in sub.violations:
                res.violation(v["signature"].replace("C18:sizing:", "C18:sizing:consumer-session:"),
                              v["what"] + " (after a consumer computed with catalogue objects)", case, observed=v.get("observed"), expected=v.get("expected"))
                return


# ---------------------------------------------------------------- the same component named through every path (C18-r6-3 class)

def member_name(c):
    return re.sub(r"[ -]", "_", c["Type"]) + "_" + re.sub(r"[ -]", "_", c["Model"])


def impl_genm(req):
    """req = ["genm", name, member, given, nsId, ids, labels, parent]: the model is named through the combined enumeration;
    given = "member" (model_type alone) | "member+ctype+model" (all three, consistent) | "member+other" (a conflicting
    ctype/model next to it: the code lets model_type win)"""
    import fim.slivers.component_catalog as cc
    from fim.slivers.attached_components import ComponentType
    _, name, member, given, ns_id, ids, labels, parent = req
    labs = None if labels is None else [_mk_label(s) for s in labels]
    try:
        m = cc.ComponentModelType[member]
    except KeyError:
        return ["err", "bad-member"]
    kw = {}
    if given == "member+ctype+model":
        ent = cc.ComponentModelTypeMap[m]
        kw = {"ctype": ComponentType[ent["Type"]], "model": ent["Model"]}
    elif given == "member+other":
        ent = cc.ComponentModelTypeMap[m]
        kw = {"ctype": ComponentType.GPU if ent["Type"] != "GPU" else ComponentType.SharedNIC, "model": "Tesla T4"}
    try:
        cs = cc.ComponentCatalog().generate_component(name=name, model_type=m, ns_node_id=ns_id,
                                                      interface_node_ids=None if ids is None else list(ids),
                                                      interface_labels=labs, parent_name=parent, **kw)
    except Exception as e:
        return ["err", err_kind(e)]
    out = canon_comp(cs, ns_id, ids, labs)
    _poison(cs, labs)
    return ["ok", out]


def genm_requests(cat, rng, thorough):
    reqs = []
    shapes = [["none"], ["scalar", len(BDF_SCALAR)], ["list", 1], ["list", 3], ["list", 0]]
    for c in cat:
        n = len(c.get("Interfaces", {}) or {})
        for given in ("member", "member+ctype+model", "member+other"):
            for parent in (None, "par"):
                for ids in (None, ["id%d" % i for i in range(n)]):
                    lab_opts = [None, [shapes[(i + 3) % 5] for i in range(n)], [rng.choice(shapes) for i in range(n)]]
                    if thorough:
                        lab_opts += [[shapes[(i + 1) % 5] for i in range(n)], [["list", 2]] * (n + 1)]
                    for labels in lab_opts:
                        reqs.append(["genm", "m-" + str(len(reqs) % 5), member_name(c), given, "ns-1" if parent else None, ids, labels, parent])
    reqs.append(["genm", "uu", "GPU_NoSuchModel", "member", None, None, None, None])
    return reqs


def genm_as_gen(cat, r):
    """the request a caller naming the same entry by (ctype, model) would make"""
    for c in cat:
        if member_name(c) == r[2]:
            return ["gen", r[1], c["Model"], c["Type"], r[4], r[5], r[6], r[7]]
    return None


def impl_topo(req):
    """req = ["topo", member, path]: the component is added to a node of an ExperimentTopology (fim.user), named by
    (ctype, model) or by the combined enumeration, and read back through the topology"""
    import fim.slivers.component_catalog as cc
    from fim.user.topology import ExperimentTopology
    from fim.slivers.attached_components import ComponentType
    _, member, path = req
    try:
        m = cc.ComponentModelType[member]
        ent = cc.ComponentModelTypeMap[m]
        t = ExperimentTopology()
        n = t.add_node(name="n1", site="RENC")
        if path == "model_type":
            c = n.add_component(name="c1", model_type=m)
        else:
            c = n.add_component(name="c1", ctype=ComponentType[ent["Type"]], model=ent["Model"])
        c = t.nodes["n1"].components["c1"]
        ifs = []
        for k, i in c.interfaces.items():
            cap = i.capacities
            ifs.append({"name": k, "kind": str(i.type), "bw": cap.bw, "units": cap.unit, "local": i.labels.local_name if i.labels else None})
        return ["ok", {"type": str(c.type), "model": c.model, "details": c.details, "ifaces": sorted(ifs, key=lambda x: x["name"])}]
    except Exception as e:
        return ["err", err_kind(e)]


def topo_view(req, m):
    """the model's generated component as impl_topo reads it back"""
    if m[0] != "ok":
        return m
    g = m[1]
    return ["ok", {"type": g["type"], "model": g["model"], "details": g["details"],
                   "ifaces": sorted(({"name": i["name"], "kind": i["kind"] or "None", "bw": i["bw"], "units": i["units"],
                                      "local": i["localNames"][0] if not i["localIsList"] else i["localNames"]} for i in g["ifaces"]),
                                    key=lambda x: x["name"])}]


def topo_oracle(cat, req, reply, res):
    ent = [c for c in cat if member_name(c) == req[1]][0]
    case = {"request": req}
    sig = "C18:component:%s:topology:%s:" % (ent["Type"], req[2])
    if reply[0] != "ok":
        res.violation(sig + "raises:" + reply[1], "adding a catalogued component to a topology node raised", case)
        return
    g = reply[1]
    if [g["type"], g["model"], g["details"]] != [ent["Type"], ent["Model"], ent["Details"]]:
        res.violation(sig + "type-model-details", "component added to a topology differs from its catalogue entry", case, observed=g)
    ifs = ent.get("Interfaces") or {}
    want = sorted(({"name": "c1-" + p, "kind": "SharedPort" if ent["Type"] == "SharedNIC" else "DedicatedPort",
                    "bw": 0 if ent["Type"] == "SharedNIC" else int(s), "units": 1, "local": p} for p, s in ifs.items()), key=lambda x: x["name"])
    if g["ifaces"] != want:
        k = next((f for a, b in zip(g["ifaces"], want) for f in ("name", "kind", "bw", "units", "local") if a[f] != b[f]), "interfaces")
        res.violation(sig + {"bw": "speed"}.get(k, k), "interfaces of a component added to a topology are not the catalogued ones (names, kinds, speeds, unit counts)",
                      case, observed=g["ifaces"], expected=want)


# ---------------------------------------------------------------- pipeline entry points

_CACHE = {}   # implementation replies, shared by correspondence() and oracle() of one run


def _run(ctx, res, with_model, with_oracle, thorough=None):
    thorough = ctx.thorough if thorough is None else thorough
    from fim.slivers.instance_catalog import InstanceCatalog
    ref = ref_instances()
    if catalogue_damage(ref):
        repair_catalogue(ref)
        if with_oracle and catalogue_damage(ref):
            res.violation("C18:catalogue:differs-from-resource-file", "the catalogue the implementation serves is not instance_sizes.json",
                          {"names": catalogue_damage(ref)[:5]})
    inst = InstanceCatalog().list_instances()
    entries = [(k, (v.core, v.ram, v.disk)) for k, v in inst.items()]
    dims = _grid(thorough)
    grid = list(itertools.product(*dims))
    cat, creqs = comp_requests(ctx.sub_rng("comp"), thorough)
    off = offgrid(ctx.sub_rng("offgrid"), 400 if not thorough else 4000)
    sess = session_requests(cat, ctx.sub_rng("session"))
    seqs = pickseq_requests(ctx.sub_rng("pickseq"), entries, 150 if not thorough else 1500)
    csess = capsess_requests(ctx.sub_rng("capsess"), ref, 120 if not thorough else 1200)
    mreqs = genm_requests(cat, ctx.sub_rng("genm"), thorough)
    treqs = [["topo", member_name(c), path] for c in cat for path in ("ctype+model", "model_type")]
    reqs = ([["pick"] + list(r) for r in grid] + [["pick"] + r for r in off] + seqs + [["caps", n] for n, _ in entries[::7]] + [["caps", "no.such"]]
            + [["enum"]] + creqs + sess + mreqs + treqs + csess)
    key = (thorough, ctx.seed)
    impl = _CACHE.get(key)
    for r in (reqs if impl is None else []):
        impl = _CACHE.setdefault(key, [])
        if r[0] == "pick":
            impl.append(impl_pick(r[1:]))
        elif r[0] == "caps":
            c = InstanceCatalog().get_instance_capacities(instance_type=r[1])
            impl.append(["ok", None if c is None else [c.core, c.ram, c.disk]])
        elif r[0] == "enum":
            import fim.slivers.component_catalog as cc
            impl.append(["ok", [m.name for m in cc.ComponentModelType]])
        elif r[0] == "session":
            impl.append(impl_session(r))
        elif r[0] == "pickseq":
            impl.append(impl_pickseq(r))
        elif r[0] == "capsess":
            impl.append(impl_capsess(r))
        elif r[0] == "genm":
            impl.append(impl_genm(r))
        elif r[0] == "topo":
            impl.append(impl_topo(r))
        else:
            impl.append(impl_gen(r))
    nall = len(entries)
    for r, i in zip(reqs, impl):
        res.evaluations += 1
        res.count("op:" + r[0])
        if i[0] == "err":
            res.count("err:" + i[1])
        if r[0] == "pick":
            nfit = sum(1 for e in entries if e[1][0] >= r[1] and e[1][1] >= r[2] and e[1][2] >= r[3])
            res.count("pick:" + ("none-fit" if nfit == 0 else "all-fit" if nfit == nall else "some-fit"))
            if 0 < nfit < nall:
                res.nontrivial.add(canon(r))
        elif r[0] in ("gen", "genm") and i[0] == "ok" and i[1]["ifaces"]:
            res.nontrivial.add(canon(r))
            if r[0] == "genm":
                res.count("genm:" + r[3])
        elif r[0] == "topo":
            res.count("topo:" + r[2])
            if i[0] == "ok" and i[1]["ifaces"]:
                res.nontrivial.add(canon(r))
        elif r[0] == "capsess":
            res.count("capsess:" + r[1])
            for o in r[2]:
                res.count("capsess:op:" + o[0] + (":" + o[1] if o[0] in ("aug", "bin", "use") else ":" + o[3] if o[0] == "get" else ""))
            res.evaluations += len(i[1]["out"]) - 1
            res.nontrivial.add(canon(r))
        elif r[0] == "session":
            res.count("session:components", len(i[1]))
            res.count("session:objects", sum(len(x) for x in i[1]))
            res.count("session:" + ("one-catalog-object" if len(r) > 2 else "catalog-object-per-call"))
        elif r[0] == "pickseq":
            res.count("pickseq:" + r[1])
            res.count("pickseq:calls", len(i[1]))
            res.count("pickseq:in-place-changes", sum(1 for o in r[2] if o[0] == "set"))
            res.evaluations += len(i[1]) - 1
            res.nontrivial.add(canon(r))
    if with_model:
        per = [model_lines(r, cat, ref) for r in reqs]
        flat = LeanDriver("C18").run([json.dumps(l) for ls in per for l in ls])
        model, at = [], 0
        for r, ls in zip(reqs, per):
            chunk = flat[at:at + len(ls)]
            at += len(ls)
            if r[0] == "pickseq":
                model.append(json.dumps(["ok", [json.loads(x) for x in chunk]]))
            elif r[0] == "topo":
                model.append(json.dumps(topo_view(r, json.loads(chunk[0]))))
            else:
                model.append(chunk[0])
        for r, i, m in zip(reqs, impl, model):
            mj = json.loads(m)
            if mj != json.loads(json.dumps(i)):
                res.disagreements.append({"case": r, "impl": i, "model": mj})
        res.sample({"request": reqs[len(grid) // 2], "impl": impl[len(grid) // 2], "model": json.loads(model[len(grid) // 2])})
        res.sample({"request": creqs[40], "impl": impl[reqs.index(creqs[40])], "model": json.loads(model[reqs.index(creqs[40])])})
    if with_oracle:
        for r, i in zip(reqs, impl):
            if r[0] == "pick":
                if i[0] != "ok":
                    res.violation("C18:sizing:raises:" + i[1], "map_capacities_to_instance raised", {"request": r[1:]})
                else:
                    sizing_oracle(tuple(r[1:]), i[1], entries, res)
            elif r[0] == "gen":
                comp_oracle(cat, r, i, res)
            elif r[0] == "session":
                session_oracle(r, i, res)
            elif r[0] == "pickseq":
                pickseq_oracle(r, i, entries, res)
            elif r[0] == "capsess":
                capsess_oracle(r, i, ref, [(k, tuple(v[f] for f in ("core", "ram", "disk"))) for k, v in ref.items()], res)
            elif r[0] == "genm":
                g = genm_as_gen(cat, r)
                if g is None:
                    if i[0] == "ok":
                        res.violation("C18:component:unknown-member-accepted", "a member that is not in the enumeration was generated", {"request": r})
                elif r[3] != "member+other":      # a conflicting (ctype, model) next to the member: which one is meant is not the property's business
                    comp_oracle(cat, g, i, res, case={"request": r}, path=":by-" + r[3])
            elif r[0] == "topo":
                topo_oracle(cat, r, i, res)
        enum_oracle(cat, res)
        res.sample({"request": reqs[3], "impl": impl[3], "oracle": "sufficient / Pareto-minimal / fallback / name-capacities"})


def correspondence(ctx, res):
    _run(ctx, res, True, False)


def oracle(ctx, res):
    _run(ctx, res, False, True)


def search(ctx, res, broken):
    _run(ctx, res, False, True, thorough=True)


def replay(ctx, payload):
    from core import Result
    from fim.slivers.instance_catalog import InstanceCatalog
    r = Result()
    case = payload["case"]
    if "request" in case and isinstance(case["request"], list) and case["request"] and case["request"][0] == "session":
        session_oracle(case["request"], impl_session(case["request"]), r)
    elif "request" in case and isinstance(case["request"], list) and case["request"] and case["request"][0] == "pickseq":
        inst = InstanceCatalog().list_instances()
        pickseq_oracle(case["request"], impl_pickseq(case["request"]), [(k, (v.core, v.ram, v.disk)) for k, v in inst.items()], r)
    elif "request" in case and isinstance(case["request"], list) and case["request"] and case["request"][0] == "capsess":
        ref = ref_instances()
        capsess_oracle(case["request"], impl_capsess(case["request"]), ref, [(k, tuple(v[f] for f in ("core", "ram", "disk"))) for k, v in ref.items()], r)
    elif "request" in case and isinstance(case["request"], list) and case["request"] and case["request"][0] == "genm":
        cat, _ = comp_requests(ctx.sub_rng("comp"), False)
        comp_oracle(cat, genm_as_gen(cat, case["request"]), impl_genm(case["request"]), r)
    elif "request" in case and isinstance(case["request"], list) and case["request"] and case["request"][0] == "topo":
        cat, _ = comp_requests(ctx.sub_rng("comp"), False)
        topo_oracle(cat, case["request"], impl_topo(case["request"]), r)
    elif "request" in case and isinstance(case["request"], list) and case["request"] and case["request"][0] == "gen":
        cat, _ = comp_requests(ctx.sub_rng("comp"), False)
        comp_oracle(cat, case["request"], impl_gen(case["request"]), r)
    elif "request" in case:
        inst = InstanceCatalog().list_instances()
        entries = [(k, (v.core, v.ram, v.disk)) for k, v in inst.items()]
        i = impl_pick(case["request"])
        if i[0] != "ok":
            return True
        sizing_oracle(tuple(case["request"]), i[1], entries, r)
    else:
        cat, _ = comp_requests(ctx.sub_rng("comp"), False)
        enum_oracle(cat, r)
    for v in r.violations:
        print("  ", v["signature"], v["what"], v.get("observed"))
    return bool(r.violations)
