"""C01 - model serialization round trip is lossless and re-importable (document level proved on both stores and at the
Topology level with a load plan regenerated from the source; character level differential)."""
import glob
import json
import os
import random

import core
from core import LeanDriver, err_kind, canon
import lib_c01 as L
import lib_c01t as T

ID = "C01"
from gen import serial as gen_serial
GENERATORS = [gen_serial.generate]
LEAN_MODULES = ["FimVerif.Proofs.C01"]
P = "FimVerif.C01."
THEOREMS = [P + t for t in (
    "roundtrip_import_string", "roundtrip_import_direct", "readDoc_serialize",
    "roundtrip_graphml_doc", "roundtrip_json_doc", "roundtrip_json_counterexample",
    "addGraph_extract", "addGraphDirect_extract", "extract_spec",
    "validates_after_import", "dAddGraphDirect_extract", "dAddGraph_extract", "reserialize_stable_string", "reserialize_stable_direct", "serializeG_copy", "toNeo4j_relabel", "toJSON_copy",
    "copy_renaming_injective",
    "import_frame_string", "import_frame_direct", "labels_markup", "classKey_spec",
    "mixed_graph_ids_rejected", "iter_idem", "iterFrom_map",
    # Topology level (load plan generated from Topology.load / AdvertizedTopology.load)
    "load_own_serialization", "load_new_id", "load_frame", "validates_after_import_direct", "load_validates",
    "dload_own_serialization", "dload_new_id", "dload_frame",
    # the disjoint store's round trip
    "dreadDoc_serialize", "droundtrip_import_direct", "droundtrip_import_string", "droundtrip_import_string_counterexample",
    "dimport_string_present", "dimport_frame_string", "dimport_frame_direct",
    "enumerate_fixpoint", "dreserialize_stable_direct", "validate_attrs", "dvalidates_after_import_direct",
    "dStoreInv_empty", "dsession_invariant", "dserialize_docWF", "droundtrip_after_session",
    # whole sessions
    "storeInv_empty", "storeInv_step", "session_invariant", "serialize_docWF", "roundtrip_after_session",
    # ties to the generated tables
    "repo_plans_safe", "load_safe", "load_safe_error", "load_cases", "validates_after_import_repo", "noReserved_iff", "serial_names_tie",
    "sharedFirst_eval", "disjointFirst_eval",
    # round 4: graphs next to other graphs (merge_nodes), value shapes of the JSON-validated properties
    "invB_iff", "serialize_frame", "serialize_ignores_foreign", "validate_setter_produced", "validates_after_import_setter",
    # round 7: state that outlives a call - file names written more than once, imports that were refused
    "graphId_follows_file_tie", "file_direct_reads_last_write", "dfile_direct_reads_last_write", "file_direct_keeps_memo",
    "file_reads_last_write", "file_direct_memo_counterexample",
    "refused_import_tie", "refused_import_leaves_nothing", "refused_import_free_id", "refused_direct_import_unchanged",
    "drefused_import_unchanged",
)]
TRUSTED_BASE = [
    "Model/GraphML.lean is a hand mirror of serialize_graph / extract_graph / add_graph / add_graph_direct / get_graph_id / the four "
    "import entry points and of networkx generate_graphml (typing, key allocation), read_graphml (typing), node_link_data / "
    "node_link_graph, Graph.edges() iteration order, convert_node_labels_to_integers; tied to the code by the correspondence. "
    "Regenerated from the code on every run (gen/serial.py -> Generated/Serial.lean) and used by the model: the node label prefix, "
    "the three reserved node-link keys, first_label of both stores, the initial start_id, JSON_PROPERTY_NAMES",
    "Topology.load / AdvertizedTopology.load: the *plan* (entry point per argument shape, program order of import / rebind / "
    "remember / delete_graph and its ids-differ guard) is extracted from the source by gen/serial.py and interpreted by "
    "Model/Serial.lean; the meaning of the individual steps is hand-written and tied by the Topology-level session correspondence "
    "(tload / tctor / tclone / tabcclone / tdelete / tserializefile / enumerate requests, store dump after every request). "
    "Statements of load that touch neither self, the imported graph nor a remembered model are ignored by the extractor",
    "character level (XML / JSON escaping and parsing inside ElementTree, lxml, json; str(v), int(text), float(text), "
    "convert_bool; the encoding / newline handling of open(file_name, 'w') in Topology.serialize) is third-party and NOT modelled: "
    "data payloads are typed values in the model; fidelity of every character is established only differentially with the "
    "adversarial string grammar whose classes are listed in the oracle histogram",
    "format sniffing (_read_from_file tries READ_FORMATS in order) is modelled at document level: the harness tells the driver which "
    "format a text is after checking json.loads succeeds exactly on the JSON texts; serial_names_tie pins JSON-first",
    "the reader models are exact for simple documents only (distinct node ids, declared endpoints, no parallel edges); the "
    "harness asserts this for every document it feeds; DocWF is the same condition in the theorems, serialize_docWF / "
    "dserialize_docWF prove it for every text the library writes",
    "the store is loaded into the driver as graphs.nodes(data=True) / graphs.edges(data=True); the model's edge list is a global "
    "insertion order, and loading the iteration order instead is behaviourally equivalent for extraction (checked by the whole-store "
    "dump comparison after every import)",
    "validate_graph: the verdicts of json.loads are computed by the harness with CPython's json for every text found in a "
    "JSON-validated property and passed to the driver (any JSON value counts as valid: object, array, string, number, boolean, null); "
    "SetterProduced in validate_setter_produced is the harness predicate lib_c01.setter_producible, evaluated on the implementation's store",
    "merge_nodes itself (nx.contracted_nodes) is NOT modelled: the stores it leaves behind (links leading from one graph into another, a "
    "node less in the other graph) enter the model as loaded states; that they satisfy StoreInv - the hypothesis of every shared-store "
    "theorem - is checked by the driver on every loaded store (request `inv`, Store.invB, tied to StoreInv by invB_iff)",
    "the file system is modelled as path -> last document written (Model/SerialFS.lean); that get_graph_id / import_graph_from_file_direct "
    "answer for the text that is in the file at the time of the call (no answer remembered per file name) is OBSERVED by the translator "
    "(gen/serial.py probe_history: a path written with model a, b, a again on both importers and formats -> Gen.Serial.graphIdFollowsFile, "
    "tied by graphId_follows_file_tie) and exercised by sessions / cases that re-use file names; the driver is handed the document, not the path. "
    "Likewise Gen.Serial.refusedImportLeavesStore (refused imports under free ids at every refusal stage leave the store and the numbering "
    "of the next import alone) is an observation; the model's refusal behaviour itself is tied by the whole-store dump after every refused import",
    "fresh uuids (the model id of a new Topology, NodeIDs handed out by enumerate_graph_nodes) are outside the model: the harness "
    "records the constructor's uuid and passes it to the driver; enumerate is exercised only on texts whose nodes have NodeIDs",
    "Python == between GraphID values is modelled by structural equality (1 == True == 1.0 coincidences are not generated)",
]
ASSUMPTIONS = [
    "documented value domain: every node has a non-empty string NodeID and Class, every edge a Class, property names are strings "
    "other than the node-link reserved names, values are str / int / bool (floats are carried opaquely, None / list / dict are "
    "rejected by GraphML and appear only in the malformed stream)",
    "text is XML-legal (no C0 controls other than tab / newline, no surrogates, no U+FFFE/FFFF); U+000D only in the deterministic "
    "known-finding case",
    "the store invariant (internal ids distinct and below start_id, edges between stored nodes) is no longer assumed for stores "
    "reached through imports / loads / clones / deletions of simple texts (session_invariant, dsession_invariant); for the other "
    "library calls (add / update / delete of nodes and links) it is the `edit` side condition of those theorems (C04/C05 territory)",
]
RULE = ("case = (store with 1-4 graphs: raw property graphs built by add_node/add_link/update with colliding keys, ints, bools, "
        "adversarial strings and all 19 JSON-validated property names holding JSON text of every shape, or API-built Experiment/Substrate "
        "topologies decorated through the setters (user_data/mf_data/layout_data = any JSON value, labels, capacities, tags, flags, "
        "allocations, reservation/structural info, ERO, path info, gateway, peer labels, maintenance info); on the shared store 40% of the "
        "stores have graphs sharing NodeIDs joined by 1-3 merge_nodes calls, target = caller or other graph) x format x entry point x id "
        "policy; plus Topology-level "
        "sessions (1-3 Topology objects on one store: serialize to string/file, edit, load into the same / an aliasing / another / a "
        "fresh object with or without new_graph_id, constructors, clone_graph (nx and ABC), delete_graph, importer calls on files "
        "written by Topology.serialize, enumerate_graph_nodes[_to_string], merge_nodes between two held models that share NodeIDs); "
        "x history in the same process before the import (50% of the cases, deterministic corners first): imports refused at every refusal "
        "stage (NodeID missing on the last / a random node, empty NodeID, mixed / missing GraphIDs; string / file / direct entries; the refused "
        "text is another or the same graph of the store with a property no model has on every node), an earlier import of another model (or a "
        "copy under another id) through the SAME file name, a second importer object; sessions save to re-used file names (60% of file saves) "
        "and contain refused importer calls and loads; a violation is reported under `<signature>:after-<history kind>` only when the same case "
        "passes without the history; non-trivial = graph has >= 1 edge and >= 1 value outside "
        "[A-Za-z0-9]; distinct by canonical snapshot hash x format x entry x policy (x op x store for sessions)")

IMPORT_PLAN = [("string", "new"), ("string", "keep"), ("file", "new"), ("file", "keep"), ("string_direct", "keep"), ("file_direct", "keep")]


# --------------------------------------------------------------------------
# scenarios

def make_scenario(rng, ctx, idx, topo_share=0.2):
    """data describing one store: list of graphs, each raw spec or topology seed"""
    graphs = []
    n = rng.choice([1, 2, 2, 3])
    maxlen = 24 if not ctx.thorough else rng.choice([24, 24, 60, 200])
    for k in range(n):
        if rng.random() < topo_share:
            graphs.append({"kind": "topo", "seed": "%s/%d/%d" % (ctx.seed, idx, k), "flavour": rng.choice(["slice", "slice", "substrate"]),
                           "maxlen": maxlen})
        else:
            graphs.append({"kind": "raw", "gid": "g-%d-%d" % (idx, k),
                           "spec": L.gen_raw_spec(rng, maxlen=maxlen, floats=rng.random() < 0.15)})
    sc = {"graphs": graphs, "target": rng.randrange(n), "disjoint": rng.random() < 0.35,
          "mutate": ("m%d-%d" % (idx, rng.randrange(10 ** 6))) if rng.random() < 0.4 else None}
    add_merges(rng, sc)
    return sc


def add_merges(rng, sc, share=0.4):
    """graphs of one shared store that share NodeIDs, joined by merge_nodes (the delegation / advertisement path): the
    store then holds links that lead from one graph into another; the target may be the caller or the other graph"""
    if sc.get("disjoint") or rng.random() >= share:      # the per-graph store's merge_nodes is a documented RuntimeError
        return
    if len(sc["graphs"]) == 1 and sc["graphs"][0]["kind"] == "raw":
        sc["graphs"].append({"kind": "raw", "gid": sc["graphs"][0]["gid"] + "-sib", "spec": L.gen_raw_spec(rng, maxn=4, maxe=5, maxp=3)})
    sc["merges"] = L.plan_merges(rng, sc["graphs"])
    if sc["merges"] and rng.random() < 0.5:
        sc["target"] = rng.choice(sc["merges"])[rng.choice([0, 1])]


def build_scenario(sc):
    """-> (impl, [graph ids])"""
    im = L.Impl(disjoint=sc.get("disjoint", False))
    gids = []
    for g in sc["graphs"]:
        if g["kind"] == "raw":
            L.build_raw(im.graph(g["gid"]), g["spec"])
            gids.append(g["gid"])
        elif g["kind"] == "copy":
            # the saved text of an earlier graph imported under another id: two models with the same NodeIDs
            im.import_("string", im.serialize(gids[g["of"]], g["fmt"]), g["gid"])
            gids.append(g["gid"])
        else:
            t = L.gen_topology(random.Random("C01/topo/" + g["seed"]), g["flavour"], g.get("maxlen", 24), importer=im.imp)
            gids.append(t.graph_model.graph_id)
    im.merge_log = L.apply_merges(im, gids, sc.get("merges") or [])
    return im, gids


def count_state(im, gids, res, where):
    """evidence: merge_nodes outcomes, links between graphs of the store, value shapes of the JSON-validated properties"""
    for o in getattr(im, "merge_log", []):
        res.count("%s:merge_nodes:%s" % (where, o))
    if getattr(im, "merge_log", None):
        res.count("%s:store-with-cross-graph-links:%s" % (where, min(L.cross_edges(im), 3)))
    for g in gids:
        for x in L.json_shapes(im, g):
            res.count("jsonprop:" + x)


def nontrivial_graph(im, gid):
    sn = L.snapshot(im.st, gid)
    if sn is None or not sn["edges"]:
        return False
    for d in L.graph_nodes_data(im, gid):
        for v in d.values():
            if isinstance(v, str) and not v.isalnum() and v != "":
                return True
    return False


def validate_step(im, gid, lines, expect, res, meta):
    """validate_graph() against the model on both stores (json.loads verdicts are passed in; the JSON property names are
    the ones the translator read from the repo)"""
    import json as _j
    from fim.graph.abc_property_graph_constants import ABCPropertyGraphConstants as K
    names = list(K.JSON_PROPERTY_NAMES)
    oks = set()
    if im.disjoint:
        nodesets = [g.nodes(data=True) for g in im.st.graphs.values()]
    else:
        nodesets = [im.st.graphs.nodes(data=True)]
    for ns in nodesets:
        for _, d in ns:
            for k in names:
                v = d.get(k)
                if isinstance(v, str):
                    try:
                        _j.loads(v)
                        oks.add(v)
                    except _j.JSONDecodeError:
                        pass
    r = attempt(lambda: im.graph(gid).validate_graph())
    lines.append(L.dumps(["dvalidate" if im.disjoint else "validate", L.val(gid), None, sorted(oks)]))
    expect.append((r, dict(meta, op="validate")))
    res.count("op:%svalidate:%s" % (im.px, "ok" if r[0] == "ok" else r[1]))


def inv_step(im, lines, expect, meta):
    """the store handed to the model satisfies the invariant all shared-store theorems assume (StoreInv, decided by the
    driver): in particular every store merge_nodes leaves behind"""
    if not im.disjoint:
        lines.append(L.dumps(["inv"]))
        expect.append((["ok", True], dict(meta, op="store-invariant")))


def attempt(fn):
    try:
        return ["ok", fn()]
    except Exception as e:
        return ["err", err_kind(e)]


# --------------------------------------------------------------------------
# correspondence

def observe_doc(text, fmt):
    """the implementation's text as an observation: ["ok", document model] or ["docerr", why] - never an exception"""
    if text is None:
        return ["ok", None], None
    try:
        doc = L.parse_text(text)
    except Exception as e:
        return ["docerr", "%s: %s" % (type(e).__name__, str(e)[:200])], None
    if doc["fmt"] != fmt:
        return ["docerr", "text is %s, asked for %s" % (doc["fmt"], fmt)], None
    if doc.get("extra") or (fmt == "graphml" and doc.get("edgedefault") != "undirected") or \
            (fmt == "json" and doc.get("graph") not in ({}, {"node_default": {}, "edge_default": {}})):
        return ["docerr", "document has parts the model does not know: %s" % doc.get("extra")], L.impl_doc_norm(doc)
    if not L.doc_in_model(doc):
        return ["docerr", "document outside the model (key ids not d<n>, or not simple)", L.impl_doc_norm(doc)], L.impl_doc_norm(doc)
    return ["ok", L.impl_doc_norm(doc)], L.impl_doc_norm(doc)


def run_scenario_corr(sc, res, lines, expect, malformed_rng=None):
    """never raises on an implementation / parsing exception: a scenario that cannot be carried through is
    recorded as a disagreement"""
    n0 = len(lines)
    try:
        _run_scenario_corr(sc, res, lines, expect, malformed_rng)
    except core.Infra:
        raise
    except Exception as e:
        del lines[n0:]
        del expect[n0:]
        import traceback
        res.disagreements.append({"case": {"op": "scenario", "scenario": sc}, "impl": "exception while driving the implementation: %s: %s | %s" % (
            type(e).__name__, str(e)[:300], traceback.format_exc()[-600:]), "model": None})


def _run_scenario_corr(sc, res, lines, expect, malformed_rng=None):
    im, gids = build_scenario(sc)
    try:
        tgt = gids[sc["target"]]
        px = im.px
        count_state(im, gids, res, "corr")
        lines.append(L.dumps(im.load_op()))
        expect.append((["ok", None], {"op": "load"}))
        inv_step(im, lines, expect, {"scenario": sc})
        nt = nontrivial_graph(im, tgt)
        snap_hash = core.sha(canon(L.snapshot(im.st, tgt)))
        texts, docs = {}, {}
        for fmt in ("graphml", "json"):
            r = attempt(lambda: im.serialize(tgt, fmt))
            if r[0] == "ok":
                texts[fmt] = r[1]
                r, docs[fmt] = observe_doc(r[1], fmt)
            lines.append(L.dumps([px + "serialize", L.val(tgt), fmt]))
            expect.append((r, {"op": "serialize", "fmt": fmt, "scenario": sc}))
            res.count("op:%sserialize:%s" % (px, fmt))
        for gg in gids:
            validate_step(im, gg, lines, expect, res, {"scenario": sc})
        validate_step(im, "no-such-graph", lines, expect, res, {"scenario": sc})
        if sc.get("mutate"):
            # the held model is edited after it was saved; the driver is re-loaded with the edited store
            nids = L.node_ids(im, tgt)
            ops = L.mutate_graph(im.graph(tgt), nids, sc["mutate"])
            for o in ops:
                res.count("mutate:" + o)
            lines.append(L.dumps(im.load_op()))
            expect.append((["ok", None], {"op": "load"}))
        k = 0
        for fmt, text in texts.items():
            if text is None:
                continue
            doc = docs.get(fmt)
            if doc is None:
                continue
            for entry, policy in IMPORT_PLAN:
                k += 1
                newid = tgt if policy == "keep" else "copy-%d" % k
                r = attempt(lambda: L.val(im.import_(entry, text, newid if entry in ("string", "file") else None)))
                lines.append(L.dumps([px + "import", entry, doc, L.val(newid)]))
                expect.append((r, {"op": "import", "entry": entry, "fmt": fmt, "policy": policy, "scenario": sc}))
                res.count("op:%simport:%s:%s:%s%s" % (px, fmt, entry, policy, ":after-edit" if sc.get("mutate") else ""))
                if r[0] == "err":
                    res.count("err:" + r[1])
                lines.append(L.dumps([px + "dump"]))
                expect.append((["ok", im.dump()], {"op": "dump-after-import", "entry": entry, "fmt": fmt, "policy": policy, "scenario": sc}))
                if r[0] == "ok":
                    r2 = attempt(lambda: im.serialize(r[1][1], fmt))
                    if r2[0] == "ok":
                        r2, _ = observe_doc(r2[1], fmt)
                    lines.append(L.dumps([px + "serialize", r[1], fmt]))
                    expect.append((r2, {"op": "reserialize", "entry": entry, "fmt": fmt, "policy": policy, "scenario": sc}))
                    validate_step(im, r[1][1], lines, expect, res, {"entry": entry, "fmt": fmt, "policy": policy, "scenario": sc})
                if nt:
                    res.nontrivial.add("%s/%s/%s/%s/%s" % (snap_hash, fmt, entry, policy, px))
        if malformed_rng is not None:
            malformed_steps(im, gids, texts, malformed_rng, res, lines, expect, sc)
    finally:
        im.close()


RESIDUE = ("Residue", "left-by-a-refused-import")


def edit_text(text, fmt, how, rng):
    """a harness-side edit of a serialized text (the only way to obtain mixed / missing GraphIDs).
    `how` = base[+residue]: base `nonid-last` takes the NodeID from the LAST node (every node before it is complete, so an
    importer that merges while it checks has merged all but one); `residue` gives every node a property no model has,
    so that whatever a refused import leaves behind shows in a later copy"""
    how, _, deco = how.partition("+")
    last = how == "nonid-last"
    how = "nonid" if last else how
    if fmt == "json":
        o = json.loads(text)
        n = rng.choice(o["nodes"])
        if last:
            n = o["nodes"][-1]
        if deco == "residue":
            for x in o["nodes"]:
                x[RESIDUE[0]] = RESIDUE[1]
        if how == "mixed":
            n["GraphID"] = "other-graph"
        elif how == "nogid":
            n.pop("GraphID", None)
        elif how == "nonid":
            n.pop("NodeID", None)
        elif how == "emptynid":
            n["NodeID"] = ""
        elif how == "nonodes":
            o["nodes"], o["edges"] = [], []
        elif how == "nosource" and o["edges"]:
            rng.choice(o["edges"]).pop("source")
        return json.dumps(o)
    from lxml import etree
    root = etree.fromstring(text.encode("utf-8"))
    ns = {"g": "http://graphml.graphdrawing.org/xmlns"}
    nodes = root.findall("./g:graph/g:node", ns)
    n = rng.choice(nodes)
    if last:
        n = nodes[-1]
    if deco == "residue":
        keys = root.findall("./g:key", ns)
        nums = [int(k.get("id")[1:]) for k in keys if k.get("id", "")[1:].isdigit()]
        kid_new = "d%d" % (max(nums) + 1 if nums else 0)
        k = etree.Element("{%s}key" % ns["g"], attrib={"id": kid_new, "for": "node", "attr.name": RESIDUE[0], "attr.type": "string"})
        if keys:
            keys[-1].addnext(k)
        else:
            root.insert(0, k)
        for x in nodes:
            d = etree.SubElement(x, "{%s}data" % ns["g"], attrib={"key": kid_new})
            d.text = RESIDUE[1]

    def kid(name):
        ks = [k.get("id") for k in root.findall("./g:key", ns) if k.get("attr.name") == name and k.get("for") == "node"]
        return ks[-1] if ks else None
    if how in ("mixed", "nogid"):
        d = n.find("g:data[@key='%s']" % kid("GraphID"), ns)
        if how == "mixed":
            d.text = "other-graph"
        else:
            n.remove(d)
    elif how in ("nonid", "emptynid"):
        d = n.find("g:data[@key='%s']" % kid("NodeID"), ns)
        if how == "nonid":
            n.remove(d)
        else:
            d.text = None
    elif how == "nonodes":
        g = root.find("./g:graph", ns)
        for c in list(g):
            g.remove(c)
    return etree.tostring(root).decode("utf-8")


def malformed_steps(im, gids, texts, rng, res, lines, expect, sc):
    """the separate malformed stream: edited documents and unserialisable graphs"""
    px = im.px
    for fmt, text in texts.items():
        if text is None:
            continue
        for how in ("mixed", "nogid", "nonid", "emptynid", "nonodes", "nosource"):
            if how == "nosource" and fmt != "json":
                continue
            try:
                t2 = edit_text(text, fmt, how, rng)
            except Exception:
                res.count("malformed:edit-failed")
                continue
            ob, doc = observe_doc(t2, fmt)
            if ob[0] != "ok" or doc is None:
                continue
            p = im.write(t2)
            r = attempt(lambda: L.val(im.imp.get_graph_id(graph_file=p)))
            lines.append(L.dumps(["graph_id", doc]))
            expect.append((r, {"op": "graph_id", "edit": how, "fmt": fmt, "scenario": sc}))
            entry = rng.choice(L.ENTRIES)
            gid = rng.choice(gids + ["fresh-id"])
            r = attempt(lambda: L.val(im.import_(entry, t2, gid if entry in ("string", "file") else None)))
            lines.append(L.dumps([px + "import", entry, doc, L.val(gid)]))
            expect.append((r, {"op": "import-malformed", "edit": how, "entry": entry, "fmt": fmt, "scenario": sc}))
            res.count("malformed:%s%s:%s" % (px, how, r[0] if r[0] == "ok" else r[1]))
            lines.append(L.dumps([px + "dump"]))
            expect.append((["ok", im.dump()], {"op": "dump-after-malformed", "edit": how, "entry": entry, "fmt": fmt, "scenario": sc}))
    # unserialisable graphs: missing / empty Class, unsupported value, missing NodeID, absent graph
    g = im.graph("bad-graph")
    variants = rng.sample(["noclass-node", "noclass-edge", "emptyclass", "none-value", "list-value", "absent", "intclass"], 3)
    for v in variants:
        im.st.del_graph("bad-graph")
        if v != "absent":
            g.add_node(node_id="a", label="NetworkNode", props={"Name": "x"})
            g.add_node(node_id="b", label="Component", props=None)
            g.add_link(node_a="a", rel="has", node_b="b")
            ia = g._find_node(node_id="a")
            ib = g._find_node(node_id="b")
            if v == "noclass-node":
                del im.nx("bad-graph").nodes[ib]["Class"]
            elif v == "noclass-edge":
                del im.nx("bad-graph").edges[ia, ib]["Class"]
            elif v == "emptyclass":
                im.nx("bad-graph").nodes[ib]["Class"] = ""
            elif v == "none-value":
                im.nx("bad-graph").nodes[ib]["Name"] = None
            elif v == "list-value":
                im.nx("bad-graph").nodes[ib]["Name"] = [1, "x"]
            elif v == "intclass":
                im.nx("bad-graph").nodes[ib]["Class"] = 7
        lines.append(L.dumps(im.load_op()))
        expect.append((["ok", None], {"op": "load"}))
        for fmt in ("graphml", "json"):
            r = attempt(lambda: im.serialize("bad-graph", fmt))
            if r[0] == "ok":
                r, _ = observe_doc(r[1], fmt)
            lines.append(L.dumps([px + "serialize", L.val("bad-graph"), fmt]))
            expect.append((r, {"op": "serialize-malformed", "variant": v, "fmt": fmt, "disjoint": im.disjoint}))
            res.count("malformed:%s%s:%s:%s" % (px, v, fmt, "ok" if r[0] == "ok" else r[1]))
            validate_step(im, "bad-graph", lines, expect, res, {"variant": v})
            if im.disjoint:
                lines.append(L.dumps(["ddump"]))
                expect.append((["ok", im.dump()], {"op": "dump-after-serialize-malformed", "variant": v}))


def run_session_corr(sess, res, lines, expect):
    """a Topology-level session on the code and, request by request, on the driver (the store is re-synchronised
    before every modelled request, its dump compared after it)"""
    n0 = len(lines)
    run = None
    try:
        run = T.Runner(sess, quiet=True)
        im = run.im
        flav = "d" if im.disjoint else "s"
        px = im.px

        def sync():
            lines.append(L.dumps(im.load_op()))
            expect.append((["ok", None], {"op": "load"}))

        def dump(meta):
            lines.append(L.dumps([px + "dump"]))
            expect.append((["ok", im.dump()], dict(meta, op="dump-after-" + meta["op"])))
        state = {"pre": im.load_op()}

        def obs(ev):
            op, sp = ev["op"], ev["spec"]
            meta = {"op": "session-" + op, "step": ev["i"], "session": dict(sess, ops=sess["ops"][:ev["i"] + 1])}
            pre, state["pre"] = state["pre"], im.load_op()
            if op in ("new", "edit"):
                return
            if op == "merge":
                res.count("op:session-merge:%s" % (ev["result"][0] if ev["result"][0] != "err" else ev["result"][1]))
                if ev["result"][0] == "ok":
                    sync()
                    inv_step(im, lines, expect, meta)
                return
            lines.append(L.dumps(pre))
            expect.append((["ok", None], {"op": "load"}))
            kind = "advertized" if run.kinds.get(sp.get("h")) == "adv" or sp.get("kind") == "adv" else "topology"
            if op == "save":
                s = ev["slot"]
                r = ev["result"]
                if r[0] == "ok":
                    r, _ = observe_doc(s.text, s.fmt)
                if sp["via"] == "file" and not im.disjoint:
                    lines.append(L.dumps(["tserializefile", L.val(s.gid), s.fmt]))
                else:
                    lines.append(L.dumps([px + "serialize", L.val(s.gid), s.fmt]))
                expect.append((r, meta))
                res.count("op:session-serialize:%s:%s:%s" % (px or "s", s.fmt, sp["via"]))
                dump(meta)
                return
            if op in ("load", "ctor", "imp"):
                s = ev["slot"]
                ob, doc = observe_doc(ev["text"], s.fmt)
                if ob[0] != "ok" or doc is None:
                    lines.pop(), expect.pop()
                    return
                if op == "load":
                    shape = "file" if sp["via"] == "file" else ("string_new" if sp.get("newid") else "string")
                    lines.append(L.dumps(["tload", flav, kind, L.val(ev["held_before"]), shape, doc, L.val(sp.get("newid") or "")]))
                    expect.append((["ok", [ev["result"], L.val(ev["held_after"])]], meta))
                    res.count("op:tload:%s:%s:%s:%s%s" % (flav, kind, s.fmt, shape, ":damaged" if sp.get("damage") else ""))
                elif op == "ctor":
                    if ev.get("fresh") is None:
                        lines.pop(), expect.pop()
                        return
                    lines.append(L.dumps(["tctor", flav, kind, L.val(ev["fresh"]), "file" if sp["via"] == "file" else "string", doc]))
                    expect.append((ev["result"], meta))
                    res.count("op:tctor:%s:%s:%s:%s" % (flav, kind, s.fmt, sp["via"]))
                else:
                    lines.append(L.dumps([px + "import", sp["entry"], doc, L.val(sp["gid"])]))
                    expect.append((ev["result"], meta))
                    res.count("op:session-import:%s:%s:%s" % (px or "s", s.fmt, sp["entry"]))
                if ev["result"][0] == "err":
                    res.count("err:session:" + ev["result"][1])
                dump(meta)
                if s.snap is not None and s.snap["edges"]:
                    res.nontrivial.add("session/%s/%s/%s/%s" % (core.sha(canon(_strip(s.snap))), op, s.fmt, flav))
                return
            if op == "enum":
                lines.pop(), expect.pop()       # the store is not involved
                if ev["result"][0] == "skip":
                    return
                ob, doc = observe_doc(ev["text"], "graphml")
                if ob[0] != "ok" or doc is None:
                    return
                r = ev["result"]
                if r[0] == "ok":
                    r, _ = observe_doc(ev["out"].text, "graphml")
                lines.append(L.dumps(["enumerate", doc, sp["to"] == "file"]))
                expect.append((r, meta))
                res.count("op:enumerate:%s" % sp["to"])
                return
            if op == "clone":
                lines.append(L.dumps(["tabcclone" if sp.get("abc") else "tclone", flav, L.val(ev["src"]), L.val(sp["newid"])]))
                r = ev["result"]
                expect.append(((["ok", None] if (r[0] == "ok" and not sp.get("abc")) else r), meta))
                res.count("op:%s:%s" % ("tabcclone" if sp.get("abc") else "tclone", flav))
                dump(meta)
                return
            if op == "delete":
                lines.append(L.dumps(["tdelete", flav, L.val(ev["src"])]))
                expect.append((ev["result"], meta))
                res.count("op:tdelete:%s" % flav)
                dump(meta)
        run.run(obs)
    except core.Infra:
        raise
    except Exception as e:
        del lines[n0:]
        del expect[n0:]
        import traceback
        res.disagreements.append({"case": {"op": "session", "session": sess}, "impl": "exception while driving the implementation: %s: %s | %s" % (
            type(e).__name__, str(e)[:300], traceback.format_exc()[-600:]), "model": None})
    finally:
        if run is not None:
            run.close()


def correspondence(ctx, res):
    rng = ctx.sub_rng("corr")
    n = ctx.scale(60, 600)
    lines, expect = [], []
    for case in corpus_cases():
        for sc in corpus_scenarios(case):
            if any(isinstance(v, str) and "\r" in v for g in sc["graphs"] if g["kind"] == "raw" for v in L.spec_values(g["spec"])):
                continue   # U+000D is the known character-level finding; the document model has no characters
            run_scenario_corr(sc, res, lines, expect)
    for i in range(n):
        sc = make_scenario(rng, ctx, i, topo_share=0.25)
        run_scenario_corr(sc, res, lines, expect, malformed_rng=rng if i % 4 == 0 else None)
    for c in corpus_cases(sessions=True):
        run_session_corr(c["session"], res, lines, expect)
    for sess in T.corner_sessions(ctx.seed):
        run_session_corr(sess, res, lines, expect)
    srng = ctx.sub_rng("corr-sessions")
    for i in range(ctx.scale(40, 400)):
        run_session_corr(T.gen_session(srng, "c/%s/%d" % (ctx.seed, i), ctx.thorough), res, lines, expect)
    model = LeanDriver("C01").run(lines)
    for (exp, meta), m in zip(expect, model):
        res.evaluations += 1
        mj = json.loads(m)
        if mj[0] == "ok" and isinstance(mj[1], dict) and "fmt" in mj[1]:
            mj = ["ok", L.lean_doc_norm(mj[1])]
        if canon(mj) != canon(exp):
            res.disagreements.append({"case": meta, "impl": _short(exp), "model": _short(mj)})
    search.all_disagreements = list(res.disagreements)
    k = next((i for i, (e, m) in enumerate(expect) if m.get("op") == "serialize"), None)
    if k is not None:
        res.sample({"request": expect[k][1]["op"], "impl": _short(expect[k][0], 400), "model": _short(json.loads(model[k]), 400)})


def _short(x, n=1500):
    s = canon(x)
    return s if len(s) <= n else s[:n] + "...(%d chars)" % len(s)


# --------------------------------------------------------------------------
# oracle: the property itself on the implementation

def corpus_cases(sessions=False):
    """raw-graph cases ({"spec": …}) or, with sessions=True, the Topology-level session cases ({"session": …})"""
    out = []
    for p in sorted(glob.glob(os.path.join(core.CORPUS_DIR, "C01", "*.json"))):
        with open(p) as f:
            c = json.load(f)
        c["file"] = os.path.basename(p)
        if ("session" in c) == sessions:
            out.append(c)
    return out


def corpus_scenarios(c):
    """a corpus case is one raw graph ({"spec": …, "disjoint": false | true | "both"}) or a whole scenario
    ({"scenario": …}: several graphs, merges)"""
    if "scenario" in c:
        return [json.loads(json.dumps(c["scenario"]))]
    return [{"graphs": [{"kind": "raw", "gid": "corpus", "spec": c["spec"]}], "target": 0, "disjoint": disj}
            for disj in ([False, True] if c.get("disjoint") == "both" else [bool(c.get("disjoint"))])]


def diff_signature(fmt, before, after):
    """a signature computed from the failing case itself"""
    if after is None:
        return "%s:graph-missing-after-import" % fmt, None
    bn, an = before["nodes"], after["nodes"]
    for k in bn:
        if k not in an:
            return "%s:node-missing" % fmt, k
        bp, ap = dict((x[0], x[1]) for x in bn[k]), dict((x[0], x[1]) for x in an[k])
        for name, (ty, v) in bp.items():
            if name not in ap:
                if fmt == "json" and name == "id":
                    return "json:property-named-id", [k, name]
                return "%s:property-missing" % fmt, [k, name]
            ty2, v2 = ap[name]
            if ty2 != ty:
                return "%s:type-changed:%s->%s" % (fmt, ty, ty2), [k, name, v, v2]
            if v2 != v:
                if ty == "str" and "\r" in v and v.replace("\r\n", "\n").replace("\r", "\n") == v2:
                    return "%s:value-contains-U+000D" % fmt, [k, name, v, v2]
                cls = "+".join(sorted(L.classify(v))) if ty == "str" else ty
                return "%s:value-changed:%s" % (fmt, cls), [k, name, v, v2]
        for name in ap:
            if name not in bp:
                return "%s:property-added" % fmt, [k, name]
    for k in an:
        if k not in bn:
            # a NodeID that itself changed shows up as missing + added
            return "%s:node-added" % fmt, k
    if before["edges"] != after["edges"]:
        for eb, ea in zip(before["edges"], after["edges"]):
            if eb != ea:
                if fmt == "json" and any(x[0] in ("source", "target") for x in eb[1]) and not any(x[0] in ("source", "target") for x in ea[1]):
                    return "json:edge-property-named-source-or-target", [eb, ea]
                for xb in eb[1]:
                    if xb not in ea[1] and xb[1][0] == "str" and "\r" in xb[1][1]:
                        return "%s:value-contains-U+000D" % fmt, [eb, ea]
                return "%s:edge-changed" % fmt, [eb, ea]
        return "%s:edge-count" % fmt, [len(before["edges"]), len(after["edges"])]
    return None, None


def nid_signature(fmt, before, after):
    """NodeIDs containing U+000D change identity; recognise that before the generic diff"""
    if after is None:
        return None
    for k in before["nodes"]:
        if k not in after["nodes"]:
            ty, v = json.loads(k.split("#")[0])
            if ty == "str" and "\r" in v:
                k2 = json.dumps([ty, v.replace("\r\n", "\n").replace("\r", "\n")], ensure_ascii=True)
                if k2 in after["nodes"]:
                    return "%s:value-contains-U+000D" % fmt
    return None


def _reject_shape(im, gid, exc):
    """which property / value shape validate_graph() complained about (part of the signature)"""
    import re as _re
    m = _re.search(r"JSON property (\w+) with value", str(exc))
    if not m:
        return err_kind(exc)
    name = m.group(1)
    shapes = sorted({L.json_shape(d[name]) for d in L.graph_nodes_data(im, gid) if name in d and str(d[name]) in str(exc)})
    return "%s:%s" % (name, "+".join(shapes[:3]) or "?")


def check_case(case, res, sink=None):
    """a case with a "history" (calls made in the same process between serialisation and import: an import that is refused,
    an earlier import through the same file name) is reported under the plain signature when the same case fails the same
    way without the history, under `<signature>:after-<history kinds>` when the history is what it takes"""
    hist = case.get("history")
    if not hist:
        return _check_case_guarded(case, res, sink)
    tmp = core.Result()
    _check_case_guarded(case, tmp, sink)
    for k, n in tmp.hist.items():
        res.count(k, n)
    res.nontrivial |= tmp.nontrivial
    if not tmp.violations:
        return
    plain_case = {k: v for k, v in case.items() if k != "history"}
    plain = core.Result()
    _check_case_guarded(plain_case, plain, None)
    psigs = {v["signature"] for v in plain.violations}
    singles = []
    if len(hist) > 1:
        for h in hist:
            r1 = core.Result()
            _check_case_guarded(dict(case, history=[h]), r1, None)
            singles.append(([h], {v["signature"] for v in r1.violations}))
    for v in tmp.violations:
        extra = {k: v[k] for k in ("expected", "observed") if k in v}
        if v["signature"] in psigs:
            res.violation(v["signature"], v["what"], plain_case, **extra)
        else:
            need = next((h1 for h1, sg in singles if v["signature"] in sg), hist)   # the one earlier call that suffices, if one does
            res.violation("%s:after-%s" % (v["signature"], "+".join(sorted({h["kind"] for h in need}))),
                          "%s (only after: %s)" % (v["what"], _short(need, 300)), dict(case, history=need), **extra)


def make_history(rng, sc, entry):
    """what happens in the process between serialising the model and importing the text (state that outlives a call):
    refused imports - texts of a graph of the store damaged so that the importer refuses them at its different stages, every
    node carrying a property no model has -, a second importer object, and, for the file entry points, an earlier import of
    ANOTHER model's text through the same file name"""
    hist = []
    n = len(sc["graphs"])
    others = [j for j in range(n) if j != sc["target"]]
    if rng.random() < 0.6:
        for _ in range(rng.choice([1, 1, 2])):
            e = rng.choice(["string", "file", "string", "file", "string_direct", "file_direct"])
            how = rng.choice(["nonid-last", "nonid-last", "nonid", "emptynid"]) if e in ("string", "file") else rng.choice(["mixed", "nogid"])
            hist.append({"kind": "refused-import", "of": rng.randrange(n), "fmt": rng.choice(["graphml", "json"]), "how": how + "+residue",
                         "entry": e, "seed": rng.randrange(10 ** 6)})
    if rng.random() < 0.25:
        hist.append({"kind": "second-importer-object"})
    if entry in ("file", "file_direct") and (not hist or rng.random() < 0.7):
        hist.append({"kind": "reused-file-name", "of": rng.choice(others) if others and rng.random() < 0.8 else "copy",
                     "name": "model.%d.txt" % rng.randrange(3)})
    return hist


def corner_histories(sc, entry):
    """deterministic: every refusal stage x format for every graph of the store as the refused text, the re-used file name
    with another model / a copy of this one before"""
    out = []
    n = len(sc["graphs"])
    k = 0
    for j in range(n):
        for e, how in (("string", "nonid-last"), ("file", "nonid"), ("string", "emptynid"), ("string_direct", "mixed"), ("file_direct", "nogid")):
            for f in ("json", "graphml"):
                k += 1
                out.append([{"kind": "refused-import", "of": j, "fmt": f, "how": how + "+residue", "entry": e, "seed": k}])
    out.append([{"kind": "second-importer-object"}])
    out.append([out[0][0], {"kind": "second-importer-object"}])
    if entry in ("file", "file_direct"):
        for j in [x for x in range(n) if x != sc["target"]][:2] + ["copy"]:
            out.append([{"kind": "reused-file-name", "of": j, "name": "model.txt"}])
            out.append([out[0][0], {"kind": "reused-file-name", "of": j, "name": "model.txt"}])
    return out


def apply_history(im, gids, case, text, res):
    """-> file name the import has to go through (or None)"""
    name = None
    for h in case.get("history") or []:
        if h["kind"] == "refused-import":
            try:
                t0 = im.serialize(gids[h["of"]], h["fmt"])
                t2 = edit_text(t0, h["fmt"], h["how"], random.Random("C01/history/%s" % h["seed"]))
            except Exception:
                res.count("history:refused-import:not-applicable")
                continue
            # under an id nobody holds: the unchanged code leaves the store as it was (a refused import under a held id deletes
            # that graph before it looks at the nodes - the property says nothing about refused texts, so that is not claimed)
            r = attempt(lambda: im.import_(h["entry"], t2, "refused-%d" % h["seed"] if h["entry"] in ("string", "file") else None))
            res.count("history:refused-import:%s:%s:%s" % (h["entry"], h["how"], "accepted" if r[0] == "ok" else r[1]))
        elif h["kind"] == "second-importer-object":
            # the import (and everything after it) goes through another importer object of the same process: what an importer
            # keeps belongs to the store both share, not to the object
            im.imp = type(im.imp)()
            res.count("history:second-importer-object")
        elif h["kind"] == "reused-file-name" and case["entry"] in ("file", "file_direct"):
            name = h["name"]
            try:
                if h["of"] == "copy":
                    im.import_("string", text, "earlier-copy")
                    t0 = im.serialize("earlier-copy", case["fmt"])
                else:
                    t0 = im.serialize(gids[h["of"]], case["fmt"])
            except Exception:
                res.count("history:reused-file-name:not-applicable")
                continue
            r = attempt(lambda: im.import_(case["entry"], t0, "earlier-import" if case["entry"] == "file" else None, name=name))
            res.count("history:reused-file-name:%s:%s:earlier-import-%s" % (case["entry"], "copy" if h["of"] == "copy" else "other-model",
                                                                             "ok" if r[0] == "ok" else r[1]))
    return name


def _check_case_guarded(case, res, sink=None):
    """never raises: an exception of the implementation outside the calls the property speaks about, or of the
    harness while reading the implementation's output, is itself recorded with the concrete case"""
    try:
        _check_case(case, res, sink)
    except core.Infra:
        raise
    except Exception as e:
        import traceback
        res.violation("C01:%s:%s:unexpected-exception:%s" % (case.get("fmt"), case.get("entry"), err_kind(e)),
                      "evaluating the case raised %s: %s" % (type(e).__name__, str(e)[:300]), case,
                      observed=traceback.format_exc()[-800:])


def _check_case(case, res, sink=None):
    """case = {"scenario": …, "fmt", "entry", "policy", "mutate"?}: evaluates C01 on the implementation.
    With "mutate" the held model is edited between serialisation and import; the store must hold the *saved*
    content under the imported id afterwards (and, for a new id, the edited model must be untouched)."""
    sc, fmt, entry, policy = case["scenario"], case["fmt"], case["entry"], case["policy"]
    flav = "disjoint" if sc.get("disjoint") else "shared"

    def bad(sig, what, **kw):
        res.violation("C01:" + sig, what, case, **kw)
    try:
        im, gids = build_scenario(sc)
    except Exception as e:
        bad("build:%s" % err_kind(e), "building the model through the library raised %s: %s" % (type(e).__name__, e))
        return
    try:
        tgt = gids[sc["target"]]
        others = {g: L.snapshot(im.st, g) for g in gids if g != tgt}
        before = L.snapshot(im.st, tgt)
        if before is None and sc.get("merges"):
            # merge_nodes moved the last node of the target into the other graph: there is no such graph any more
            res.count("vacuous:target-graph-emptied-by-merge_nodes")
            return
        pd0 = L.public_diffs(im, tgt)          # also: every node has been looked up once before the text is written
        if pd0:
            bad("public-accessors-differ-from-store", "the public accessors show the held model differently from the store", observed=pd0)
        g0 = im.graph(tgt)
        try:
            g0.validate_graph()
            valid_before = True
        except Exception as e:
            valid_before = False
            if L.setter_producible(im, tgt):
                # "everything the library serializes passes the library's own graph validation": a model whose
                # JSON-validated properties hold JSON text of any shape (what the setters write) must validate
                shapes = sorted(set(x for x in L.json_shapes(im, tgt)))
                bad("validate:rejects-setter-produced-values:%s" % _reject_shape(im, tgt, e),
                    "validate_graph() rejects a model whose JSON-validated properties all hold valid JSON text: %s" % str(e)[:200],
                    observed=shapes[:12])
        must_validate = valid_before or L.setter_producible(im, tgt)
        try:
            text = im.serialize(tgt, fmt)
        except Exception as e:
            bad("%s:serialize-raises:%s" % (fmt, err_kind(e)), "serialize_graph raised %s: %s" % (type(e).__name__, e))
            return
        if text is None:
            bad("%s:serialize-none" % fmt, "serialize_graph returned None for a stored graph")
            return
        try:
            doc = L.parse_text(text)
        except Exception as e:
            bad("%s:text-unreadable" % fmt, "the serialized text cannot be read as %s: %s" % (fmt, e), observed=text[:400])
            doc = None
        if fmt == "graphml" and doc is not None:
            me = L.markup_errors(doc)
            if me:
                bad("graphml:label-markup", "node/edge element without the label markup of the persistent importer", observed=me[:3])
        edited = None
        if case.get("mutate"):
            nids = L.node_ids(im, tgt)
            L.mutate_graph(im.graph(tgt), nids, case["mutate"])
            edited = L.snapshot(im.st, tgt)
        newid = tgt if (policy == "keep" or entry.endswith("direct")) else "copy-of-" + tgt
        fname = apply_history(im, gids, case, text, res)
        if case.get("history"):
            # what the history itself did to the other graphs is not the import's doing (on the unchanged code: nothing)
            others = {g: L.snapshot(im.st, g) for g in gids if g != tgt}
            if edited is not None:
                edited = L.snapshot(im.st, tgt)
        try:
            got = im.import_(entry, text, newid if entry in ("string", "file") else None, name=fname)
        except Exception as e:
            bad("%s:%s:import-raises:%s" % (fmt, entry, err_kind(e)), "import of the library's own text raised %s: %s" % (type(e).__name__, e),
                observed=text[:600])
            return
        if got != newid:
            bad("%s:%s:graph-id" % (fmt, entry), "imported graph has id %r, expected %r" % (got, newid))
        after = L.snapshot(im.st, got)
        if after is not None and after["graph_ids"] != [json.dumps(["str", got])]:
            bad("%s:%s:graph-id-stamp" % (fmt, entry), "nodes of the imported graph carry GraphIDs %s" % after["graph_ids"])
        b2 = dict(before, graph_ids=None)
        a2 = dict(after, graph_ids=None) if after is not None else None
        if a2 != b2:
            if edited is not None and a2 == dict(edited, graph_ids=None) and got == tgt:
                # the store still holds the edited model: the saved text was not loaded
                fn = "add_graph" if entry in ("string", "file") else "add_graph_direct"
                bad("%s:%s:keeps-edited-model-instead-of-saved-text" % (flav, fn),
                    "after editing the held model and importing the saved text under the same id the store still holds the edited content",
                    expected=_short(before, 600), observed=_short(after, 600))
            else:
                sig = nid_signature(fmt, before, after)
                detail = None
                if sig is None:
                    sig, detail = diff_signature(fmt, before, after)
                bad(sig or (fmt + ":content-differs"), "content after import differs from content before serialisation",
                    expected=_short(before, 600), observed=_short(detail if detail is not None else after, 600))
        else:
            pd = L.public_diffs(im, got)
            if pd and not pd0:
                bad("%s:%s:public-accessors-differ-from-store" % (fmt, entry), "list_all_node_ids / get_node_properties / get_link_properties "
                    "show the imported copy differently from what lies in the store", observed=pd)
            # re-serialisation gives the same content
            try:
                text2 = im.serialize(got, fmt)
                c1, c2 = L.doc_content(doc), L.doc_content(L.parse_text(text2))
                if c1 != c2:
                    bad("%s:%s:reserialize-differs" % (fmt, entry), "serialising the imported copy gives different content",
                        expected=_short(c1, 600), observed=_short(c2, 600))
            except Exception as e:
                bad("%s:%s:reserialize-raises:%s" % (fmt, entry, err_kind(e)), "serialising the imported copy raised %s" % e)
            if must_validate:
                try:
                    im.graph(got).validate_graph()
                except Exception as e:
                    bad("%s:%s:validate-after-import%s" % (fmt, entry, "" if valid_before else ":" + _reject_shape(im, got, e)),
                        "validate_graph() fails after import: %s" % e)
        if edited is not None and got != tgt and L.snapshot(im.st, tgt) != edited:
            bad("%s:%s:held-model-touched" % (fmt, entry), "importing the saved text under a new id changed the (edited) held model")
        for g, s in others.items():
            if L.snapshot(im.st, g) != s:
                bad("%s:%s:other-graph-touched" % (fmt, entry), "importing changed another graph (%s)" % g)
        if sink is not None:
            sink(im, tgt, before, valid_before)
    finally:
        im.close()


# --------------------------------------------------------------------------
# Topology-level sessions (Topology.serialize / load, constructors, clone_graph, delete_graph)

def _strip(s):
    return None if s is None else dict(s, graph_ids=None)


class SessionOracle:
    """the property on one session: after load / constructor / clone / importer call the model found under the
    resulting graph id is the one that was serialized (node ids, classes, property values, edges), the graph id
    is the kept / the requested one, serializing again gives the same content, validation still passes, and no
    graph held by another topology under another id changed"""

    def __init__(self, sess, res):
        self.sess, self.res = sess, res
        self.flav = "disjoint" if sess.get("disjoint") else "shared"
        self.failed_at = None
        self.tainted = set()     # graph ids that hold what a harness-damaged text left there: nothing is claimed about them

    def bad(self, ev, sig, what, **kw):
        case = {"session": dict(self.sess, ops=self.sess["ops"][:ev["i"] + 1])}
        self.res.violation("C01:topology:%s:%s" % (self.flav, sig), what, case, **kw)
        if self.failed_at is None:
            self.failed_at = ev["i"]

    def relation(self, run, ev, target):
        """how the loading topology stands to the graph id the text carries"""
        h = ev["spec"].get("h")
        if ev["op"] == "load" and ev.get("held_before") == target:
            return "same-object-holds-id"
        if any(g == target for hh, g in ev["before_ids"].items() if hh != h):
            return "other-object-holds-id"
        return "id-free" if ev["pre"].get(target) is None else "id-in-store"

    def __call__(self, run, ev):
        op = ev["op"]
        if op == "save":
            s = ev["slot"]
            s.tainted = s.gid in self.tainted
            s.public_ok = not L.public_diffs(run.im, s.gid)      # also: every node of the held model has been looked up
            if s.tainted:
                return
            if ev["result"][0] != "ok" or s.text is None:
                if s.snap is not None:
                    self.bad(ev, "serialize:%s:%s:%s" % (s.fmt, ev["spec"]["via"], ev["result"][1] if ev["result"][0] == "err" else "none"),
                             "Topology.serialize of a held model failed: %s" % ev.get("exc"))
                return
            if s.producible and s.valid is False:
                self.bad(ev, "validate:rejects-setter-produced-values", "validate_graph() rejects a held model whose JSON-validated "
                         "properties all hold valid JSON text", observed=sorted(set(L.json_shapes(run.im, s.gid)))[:12])
            if ev["spec"]["via"] == "file" and ev.get("returned") is not None:
                self.bad(ev, "serialize:file:returns-text", "serialize(file_name=...) returned something")
            try:
                s.doc = L.parse_text(s.text)
            except Exception as e:
                s.doc = None
                self.bad(ev, "serialize:%s:text-unreadable" % s.fmt, "the serialized text cannot be read: %s" % e, observed=s.text[:300])
            if s.fmt == "graphml" and s.doc is not None and L.markup_errors(s.doc):
                self.bad(ev, "serialize:graphml:label-markup", "node/edge element without the label markup", observed=L.markup_errors(s.doc)[:3])
            return
        if op in ("load", "ctor", "imp"):
            self.check_import(run, ev)
        elif op == "enum":
            self.check_enum(run, ev)
        elif op == "clone":
            self.check_clone(run, ev)
        elif op == "merge":
            self.res.count("session:merge_nodes:%s" % (ev["result"][0] if ev["result"][0] != "err" else ev["result"][1]))
            if ev["result"][0] == "ok":
                self.res.count("session:store-with-cross-graph-links:%d" % min(L.cross_edges(run.im), 3))
                self.frame(run, ev, {ev["src"], ev["other"]}, "merge")
        elif op == "delete":
            if run.snap(ev["src"]) is not None:
                self.bad(ev, "delete:graph-still-there", "delete_graph left the graph in the store")
            self.frame(run, ev, {ev["src"]}, "delete")

    def frame(self, run, ev, touched, what):
        """graphs held by (other) topologies under other ids are untouched"""
        h = ev["spec"].get("h")
        for hh, g in ev["before_ids"].items():
            # the model the loading topology held before is its own business (load_frame has the same exception)
            if g in touched or (ev["op"] == "load" and (hh == h or g == ev.get("held_before"))):
                continue
            if g in ev["pre"] and run.snap(g) != ev["pre"][g]:
                self.bad(ev, "%s:other-topology-touched" % what, "%s changed the model held by another topology (graph %s)" % (what, g),
                         expected=_short(ev["pre"][g], 400), observed=_short(run.snap(g), 400))

    def check_import(self, run, ev):
        op, sp, s = ev["op"], ev["spec"], ev["slot"]
        if s.text is None or s.snap is None:
            return
        if getattr(s, "tainted", False) or sp.get("damage"):
            if ev["result"][0] == "ok":
                self.tainted.add(ev["result"][1][1])
            if not sp.get("damage"):
                return
        entry = sp.get("entry") or ("file" if sp["via"] == "file" else "string")
        direct = (op == "imp" and entry.endswith("direct")) or (op != "imp" and not sp.get("newid"))
        target = s.gid if direct else (sp.get("newid") or sp.get("gid"))
        rel = self.relation(run, ev, target)
        tag = "%s:%s:%s:%s" % (op, s.fmt, entry if op == "imp" else sp["via"] + ("+newid" if sp.get("newid") else ""), rel)
        self.res.count("session:" + tag)
        if sp.get("damage"):
            # malformed text: the call must fail or succeed without touching other topologies; nothing more is claimed
            self.frame(run, ev, {target, s.gid}, op)
            return
        if ev["result"][0] != "ok":
            self.bad(ev, "%s:raises:%s" % (tag, ev["result"][1]), "%s of the library's own text raised %s" % (op, ev.get("exc")))
            return
        got = ev["result"][1][1]
        if got != target:
            self.bad(ev, "%s:graph-id" % tag, "the model is held under id %r afterwards, expected %r" % (got, target))
            return
        self.tainted.discard(got)
        after = run.snap(got)
        want = s.snap
        if _strip(after) != _strip(want):
            pre = ev["pre"].get(target)
            if self.flav == "disjoint" and not direct and pre is not None and after == pre:
                self.res.violation("C01:disjoint:add_graph:keeps-edited-model-instead-of-saved-text",
                                   "import under an id that is still held is skipped on the disjoint store",
                                   {"session": dict(self.sess, ops=self.sess["ops"][:ev["i"] + 1])})
            else:
                sig, detail = diff_signature(s.fmt, want, after)
                self.bad(ev, "%s:%s" % (tag, (sig or "content-differs").split(":", 1)[-1]),
                         "the model found after %s differs from the one that was serialized" % op,
                         expected=_short(want, 500), observed=_short(detail if detail is not None else after, 500))
            return
        if after["graph_ids"] != [json.dumps(["str", got])]:
            self.bad(ev, "%s:graph-id-stamp" % tag, "nodes carry GraphIDs %s" % after["graph_ids"])
        pd = L.public_diffs(run.im, got)
        if pd and getattr(s, "public_ok", True):
            self.bad(ev, "%s:public-accessors-differ-from-store" % tag, "list_all_node_ids / get_node_properties / get_link_properties show "
                     "the loaded model differently from what lies in the store", observed=pd)
        # serializing again gives the same content
        try:
            t2 = run.im.serialize(got, s.fmt)
            if getattr(s, "doc", None) is not None and L.doc_content(L.parse_text(t2), markup=False) != L.doc_content(s.doc, markup=False):
                self.bad(ev, "%s:reserialize-differs" % tag, "serializing the loaded model gives different content")
        except Exception as e:
            self.bad(ev, "%s:reserialize-raises:%s" % (tag, err_kind(e)), "serializing the loaded model raised %s" % e)
        if ((s.valid and all(ev.get("pre_valid", {}).values())) or (s.producible and L.setter_producible(run.im, got))) \
                and not run.validates(got):
            self.bad(ev, "%s:validate-after-import" % tag, "validate_graph() fails on the loaded model",
                     observed=sorted(set(L.json_shapes(run.im, got)))[:12])
        if op in ("load", "ctor") and s.api is not None and run.kinds.get(sp["h"]) == s.kind:
            v = T.api_view(run.topos[sp["h"]], s.kind)
            if v != s.api:
                self.bad(ev, "%s:api-view" % tag, "the topology API shows different elements after %s" % op,
                         expected=_short(s.api, 400), observed=_short(v, 400))
        self.frame(run, ev, {target}, op)
        if s.snap["edges"]:
            self.res.nontrivial.add("session/%s/%s" % (core.sha(canon(_strip(s.snap))), tag))

    def check_enum(self, run, ev):
        """enumerate_graph_nodes[_to_string] on a text the library wrote: every node has its NodeID already, so the
        re-written text carries the same content (and, for the file variant, the label markup)"""
        s, sp = ev["slot"], ev["spec"]
        if "out" in ev:
            ev["out"].tainted = getattr(s, "tainted", False)
        if ev["result"][0] == "skip" or s.snap is None or getattr(s, "tainted", False):
            return
        tag = "enumerate:%s" % sp["to"]
        self.res.count("session:" + tag)
        if ev["result"][0] != "ok":
            self.bad(ev, "%s:raises:%s" % (tag, ev["result"][1]), "enumerate_graph_nodes on the library's own GraphML raised %s" % ev.get("exc"))
            return
        out = ev["out"]
        try:
            out.doc = L.parse_text(out.text)
        except Exception as e:
            out.doc = None
            self.bad(ev, "%s:text-unreadable" % tag, "the re-written text cannot be read: %s" % e, observed=out.text[:300])
            return
        if getattr(s, "doc", None) is None:
            try:
                s.doc = L.parse_text(s.text)
            except Exception:
                return
        if L.doc_content(out.doc, markup=False) != L.doc_content(s.doc, markup=False):
            self.bad(ev, "%s:content-differs" % tag, "the re-written GraphML carries different content",
                     expected=_short(L.doc_content(s.doc, markup=False), 500), observed=_short(L.doc_content(out.doc, markup=False), 500))
        if sp["to"] == "file" and L.markup_errors(out.doc):
            self.bad(ev, "%s:label-markup" % tag, "GraphML.nx_write_graphml wrote an element without the label markup",
                     observed=L.markup_errors(out.doc)[:3])

    def check_clone(self, run, ev):
        sp = ev["spec"]
        tag = "clone:%s" % ("abc" if sp.get("abc") else "nx")
        src = ev["pre"].get(ev["src"])
        self.res.count("session:" + tag)
        if ev["src"] in self.tainted:
            if ev["result"][0] == "ok":
                self.tainted.add(sp["newid"])
            return
        if src is None:
            return
        if ev["result"][0] != "ok":
            self.bad(ev, "%s:raises:%s" % (tag, ev["result"][1]), "clone_graph of a held model raised %s" % ev.get("exc"))
            return
        pre = ev["pre"].get(sp["newid"])
        after = run.snap(sp["newid"])
        if _strip(after) != _strip(src):
            if self.flav == "disjoint" and pre is not None and after == pre:
                self.res.violation("C01:disjoint:add_graph:keeps-edited-model-instead-of-saved-text",
                                   "clone under an id that is still held is skipped on the disjoint store",
                                   {"session": dict(self.sess, ops=self.sess["ops"][:ev["i"] + 1])})
            else:
                sig, detail = diff_signature("graphml" if sp.get("abc") else "copy", src, after)
                self.bad(ev, "%s:%s" % (tag, (sig or "content-differs").split(":", 1)[-1]), "the clone differs from the model it was taken from",
                         expected=_short(src, 500), observed=_short(detail if detail is not None else after, 500))
        self.frame(run, ev, {sp["newid"]}, "clone")


def check_session(sess, res):
    """never raises (see check_case)"""
    run = None
    try:
        run = T.Runner(sess)
        orc = SessionOracle(sess, res)
        run.run(lambda ev: orc(run, ev))
    except core.Infra:
        raise
    except Exception as e:
        import traceback
        res.violation("C01:topology:%s:unexpected-exception:%s" % ("disjoint" if sess.get("disjoint") else "shared", err_kind(e)),
                      "running the session raised %s: %s" % (type(e).__name__, str(e)[:300]), {"session": sess},
                      observed=traceback.format_exc()[-800:])
    finally:
        if run is not None:
            run.close()


def session_oracle(ctx, res, n=None):
    rng = ctx.sub_rng("oracle-sessions")
    for c in corpus_cases(sessions=True):
        res.evaluations += 1
        res.count("corpus:" + c["file"])
        check_session(c["session"], res)
    for sess in T.corner_sessions(ctx.seed):
        res.evaluations += 1
        res.count("session-shape:%s:%s" % (sess["tag"], "disjoint" if sess["disjoint"] else "shared"))
        check_session(sess, res)
    for i in range(n or ctx.scale(60, 600)):
        sess = T.gen_session(rng, "o/%s/%d" % (ctx.seed, i), ctx.thorough)
        res.evaluations += 1
        res.count("session-shape:random:%s" % ("disjoint" if sess["disjoint"] else "shared"))
        for o in sess["ops"]:
            res.count("session-op:" + o["op"])
        check_session(sess, res)


def oracle(ctx, res, n=None):
    rng = ctx.sub_rng("oracle")
    # 1. deterministic corpus cases, all formats and entry points
    for c in corpus_cases():
        for sc in corpus_scenarios(c):
            for fmt in c.get("fmts", ["graphml", "json"]):
                for entry, policy in IMPORT_PLAN:
                    res.evaluations += 1
                    res.count("corpus:" + c["file"])
                    check_case({"scenario": sc, "fmt": fmt, "entry": entry, "policy": policy, "mutate": c.get("mutate")}, res)
    # 1b. histories (calls made in the same process before the import), deterministic: two small models on one store
    hrng = random.Random("C01/history-corner/%s" % ctx.seed)
    for disj in (False, True):
        sc = {"graphs": [{"kind": "raw", "gid": "hist-%d" % k, "spec": L.gen_raw_spec(hrng, maxn=4, maxe=4, maxp=3)} for k in range(2)],
              "target": 1, "disjoint": disj}
        for fmt in ("graphml", "json"):
            for entry, policy in IMPORT_PLAN:
                hs = corner_histories(sc, entry)
                for h in (hs if ctx.thorough else hs[::4] + hs[10 * len(sc["graphs"]):]):
                    res.evaluations += 1
                    res.count("history-corner:%s:%s" % ("disjoint" if disj else "shared", "+".join(x["kind"] for x in h)))
                    check_case({"scenario": sc, "fmt": fmt, "entry": entry, "policy": policy, "history": h}, res)
    # 2. generated
    n = n or ctx.scale(150, 1500)
    ntopo = ctx.scale(40, 400)
    plan = [(False, i) for i in range(n)] + [(True, i) for i in range(ntopo)]
    for topo, i in plan:
        if topo:
            sc = {"graphs": [{"kind": "topo", "seed": "o/%s/%d" % (ctx.seed, i), "flavour": rng.choice(["slice", "slice", "substrate"]),
                              "maxlen": 24 if not ctx.thorough else 200}], "target": 0, "disjoint": rng.random() < 0.3}
            if rng.random() < 0.5:
                sc["graphs"].append({"kind": "raw", "gid": "side-%d" % i, "spec": L.gen_raw_spec(rng, maxn=3, maxe=2)})
            add_merges(rng, sc, share=0.35)
        else:
            sc = make_scenario(rng, ctx, 10 ** 6 + i, topo_share=0.0)
        combos = [(f, e, p) for f in ("graphml", "json") for e, p in IMPORT_PLAN]
        picks = combos if (ctx.thorough or topo) and i % 3 == 0 else rng.sample(combos, 4)
        first = [True]
        for fmt, entry, policy in picks:
            res.evaluations += 1
            res.count("%s:%s:%s:%s" % ("topo" if topo else "raw", fmt, entry, policy))
            case = {"scenario": sc, "fmt": fmt, "entry": entry, "policy": policy,
                    "mutate": ("o%d-%d" % (i, rng.randrange(10 ** 6))) if rng.random() < 0.5 else None}
            if rng.random() < 0.5:
                case["history"] = make_history(rng, sc, entry)
            res.count("history:%s:%s:%s%s" % ("disjoint" if sc.get("disjoint") else "shared",
                                              "save-edit-reload" if case["mutate"] else "save-reload", policy,
                                              "".join(sorted({":after-" + h["kind"] for h in case.get("history") or []}))))

            def sink(im, tgt, before, valid, case=case):
                if before["edges"] and any(isinstance(x[1][1], str) and x[1][1] and not x[1][1].isalnum()
                                           for p in before["nodes"].values() for x in p):
                    res.nontrivial.add("%s/%s/%s/%s" % (core.sha(canon(before)), case["fmt"], case["entry"], case["policy"]))
                res.count("validate-before:" + str(valid))
                if first[0]:
                    first[0] = False
                    count_state(im, [tgt], res, "oracle")
            check_case(case, res, sink)
        for g in sc["graphs"]:
            if g["kind"] == "raw":
                for v in L.spec_values(g["spec"]):
                    if isinstance(v, str):
                        for c in L.classify(v):
                            res.count("chars:" + c)
                    else:
                        res.count("value:" + type(v).__name__)
    res.sample({"oracle": "snapshot before == after import, label markup by lxml, re-serialisation content, validate_graph, other graphs untouched",
                "last_case": _short({"fmt": fmt, "entry": entry, "policy": policy}, 200)})
    session_oracle(ctx, res, n=None if n is None else max(60, n // 5))


def search(ctx, res, broken):
    """a link broke and the oracle was silent: first the scenarios on which model and code differ, through the
    oracle with every format x entry x policy x (plain | edited-after-save); then the general generator, larger"""
    seen = set()
    known = {k["signature"] for k in core.load_known("C01") if k.get("status") == "known"}

    def fresh():
        return [v for v in res.violations if v["signature"] not in known]
    for link, detail in broken:
        if link != "correspondence" or not isinstance(detail, list):
            continue
        for d in list(detail) + list(getattr(search, "all_disagreements", []))[:40]:
            sess = (d.get("case") or {}).get("session")
            if sess:
                key = canon(sess)
                if key not in seen:
                    seen.add(key)
                    res.evaluations += 1
                    check_session(sess, res)
                continue
            sc = (d.get("case") or {}).get("scenario")
            if not sc:
                continue
            key = canon(sc)
            if key in seen:
                continue
            seen.add(key)
            for tgt in range(len(sc["graphs"])):
                sc2 = dict(sc, target=tgt)
                for fmt in ("graphml", "json"):
                    for entry, policy in IMPORT_PLAN:
                        for mut in (None, sc.get("mutate") or "search-1", "search-2"):
                            res.evaluations += 1
                            check_case({"scenario": sc2, "fmt": fmt, "entry": entry, "policy": policy, "mutate": mut}, res)
                        hs = corner_histories(sc2, entry)
                        for h in hs[::5] + hs[10 * len(sc2["graphs"]):]:
                            res.evaluations += 1
                            check_case({"scenario": sc2, "fmt": fmt, "entry": entry, "policy": policy, "history": h}, res)
            if fresh() and len(seen) >= 3:
                break
    if not fresh():
        # any other broken link (extraction, build, audit): the Topology-level sessions first (small, every shape), then
        # the general generators with a larger budget
        session_oracle(ctx, res, n=ctx.scale(300, 1500))
    if not fresh():
        oracle(ctx, res, n=ctx.scale(1500, 6000))


def replay(ctx, payload):
    r = core.Result()
    if "session" in payload["case"]:
        check_session(payload["case"]["session"], r)
    else:
        check_case(payload["case"], r)
    for v in r.violations:
        print("  ", v["signature"], v["what"])
    known = {k["signature"] for k in core.load_known("C01") if k.get("status") == "known"}
    if payload.get("signature"):
        return any(v["signature"] == payload["signature"] for v in r.violations)
    return any(v["signature"] not in known for v in r.violations)
