"""C04 - graphs sharing the in-memory store are isolated; clones are independent."""
import json
import os

import core
from core import LeanDriver, canon
import lib_store as L
from gen import storeconsts, storeflow

ID = "C04"
GENERATORS = [storeconsts.generate, storeflow.generate]
LEAN_MODULES = ["FimVerif.Proofs.C04"]
P = "FimVerif.C04."
THEOREMS = [P + t for t in ("flow_is_modelled", "inv_init", "inv_step", "inv_reachable", "ids_distinct_reachable", "step_import_wf",
                              "delall_keeps_allocator", "frame_general", "frame_general_history", "affects_of_keepsGraphId",
                              "frame_view", "frame", "frame_history", "import_content", "clone_eq", "clone_independent",
                              "reimport_isolated", "foreign_node_refused",
                              "dinv_init", "dinv_step", "dinv_reachable", "dids_distinct_reachable", "dframe",
                              "ddelall_keeps_counters", "dclone_onto_existing_skips", "dclone_eq", "dhomed_reachable",
                              "dclone_eq_reachable", "dclone_independent")]
TRUSTED_BASE = [
    "Model/Store.lean, Model/DStore.lean mirror NetworkXGraphStorage / NetworkXGraphStorageDisjoint / NetworkXPropertyGraph "
    "method by method (hand-written; checked differentially after every operation: reply, whole store by internal id, start_id)",
    "networkx: Graph.add_node/add_edge/remove_node(s)/copy, convert_node_labels_to_integers (renumbers by iteration position), "
    "to_dict_of_dicts/from_dict_of_dicts, networkx_query.search_nodes (filter over nodes(data=True)) are modelled, not verified",
    "an nx.Graph handed to add_graph has its edges between its own nodes (IGraph.WF); node/edge *order* in the model is "
    "insertion order and is not compared (both sides are sorted)",
    "gen/storeconsts.py: property-name constants and NO_UNSET_PROPERTIES read from abc_property_graph_constants.py",
    "gen/storeflow.py: allocator and lookup facts (imports relabel from start_id / from 1, counters advance by the number of "
    "nodes, del_graph / del_all_graphs keep the counters, present = holds nodes, which methods filter on GraphID) observed by "
    "running the real classes on probe scenarios; the model reads the del_graph / del_all_graphs bookkeeping from the generated "
    "flags and flow_is_modelled ties the rest",
    "locks are not modelled (C20): the harness replaces the stores' threading.Lock by a counting stand-in (lib_store.TolerantLock) "
    "so that the disjoint store's double release on a duplicate graph id (C20's defect) does not mask what an import did",
    "the disjoint model treats a missing dictionary entry and an empty graph alike (true of the code since /repo 7bd45c1)",
]
ASSUMPTIONS = [
    "an operation that writes the GraphID property (re-homing: update_node(s)_property / update_node_properties / initial "
    "properties naming GraphID, a direct import whose nodes carry other ids, merge_nodes) is addressed to the graphs it names: "
    "its target, every id it writes, the second graph of a merge (Lean: Op.affects; the general frame theorem and the oracle "
    "use exactly this set; re-homing a whole graph is C14's)",
    "single-threaded histories (C20 covers schedules)",
]
RULE = ("corpus first, then operation histories (<= 30 ops) over 2-4 graph ids and 4 node ids on both store flavours: add/delete node, add link, "
        "single/bulk/whole-graph property updates and unsets (5% of them writing GraphID / NodeID), import (node keys colliding "
        "with stored internal ids, repeated NodeIDs, missing NodeID), re-import, direct import, delete graph, clone, merge_nodes, "
        "delete_all_graphs; 35% of the histories open with a structured scenario (re-import of a grown graph under its own id "
        "behind another graph's id block, clone onto an existing id, delete_all_graphs followed by re-use of the ids, operations "
        "addressed with a node id that only the clone source still has); non-trivial = >= 2 graphs non-empty at some "
        "point and >= 1 failing call; distinct by op-kind sequence; plus all histories of depth 3 (quick) / 4 (thorough) over a "
        "16-operation alphabet on two graph ids (import, grown re-import, failing re-import, add/delete node, whole-graph update, "
        "delete graph, clone, delete_all_graphs, foreign node id)")

CORPUS = os.path.join(core.CORPUS_DIR, "C04")


def load_corpus():
    out = []
    if os.path.isdir(CORPUS):
        for fn in sorted(os.listdir(CORPUS)):
            if fn.endswith(".json"):
                with open(os.path.join(CORPUS, fn)) as f:
                    out.append(json.load(f))
    return out


def colliding_keys(rng):
    """node keys for the nx.Graph handed to add_graph: small ints that collide with stored internal ids"""
    def keys(n):
        return rng.sample(range(1, 14), n)
    return keys


def histories(ctx, tag, n, length):
    rng = ctx.sub_rng(tag)
    hs = [(c["flavours"], c["history"]) for c in load_corpus()]
    for i in range(n):
        hs.append((["shared", "disjoint"], L.gen_history(rng, rng.randint(6, length), ngraphs=rng.choice([2, 3, 3, 4]),
                                                           scenario=0.35, merge=True, keys=0.05, delall=0.02)))
    return hs


# ------------------------------------------------------------------------------------------
# correspondence

def run_impl(flavour, h, seed):
    import random
    be = L.Backend(flavour)
    be.import_keys = colliding_keys(random.Random(seed))
    out = []
    for req in h:
        rep = be.apply(req)
        out.append((L.canon_reply(req[0], rep), L.canon_raw(be.raw())))
    return out


def correspondence(ctx, res):
    hs = histories(ctx, "corr", ctx.scale(150, 1500), 30)
    for flavour, tagc in (("shared", "S"), ("disjoint", "D")):
        lines, meta = [], []
        for hi, (flv, h) in enumerate(hs):
            if flavour not in flv:
                continue
            lines.append(json.dumps([tagc, "reset"]))
            meta.append(None)
            for k, req in enumerate(h):
                lines.append(json.dumps([tagc, req]))
                meta.append((hi, k, "op"))
                lines.append(json.dumps([tagc, "snap"]))
                meta.append((hi, k, "snap"))
        replies = LeanDriver("C04").run(lines)
        impl = {}
        for hi, (flv, h) in enumerate(hs):
            if flavour in flv:
                impl[hi] = run_impl(flavour, h, hi)
        bad = set()
        for m, line in zip(meta, replies):
            if m is None:
                continue
            hi, k, what = m
            if hi in bad:
                continue
            h = hs[hi][1]
            rep = json.loads(line)
            if what == "op":
                res.evaluations += 1
                res.count("%s:op:%s" % (tagc, h[k][0]))
                exp = impl[hi][k][0]
                if exp[0] == "err":
                    res.count("%s:err:%s" % (tagc, exp[1]))
                got = L.canon_reply(h[k][0], rep)
            else:
                exp = impl[hi][k][1]
                got = L.canon_raw(rep[1]) if rep[0] == "ok" else rep
            if canon(got) != canon(exp):
                bad.add(hi)
                res.disagreements.append({"case": {"flavour": flavour, "history": h[:k + 1]}, "at": [k, what],
                                          "impl": exp, "model": got})
        for hi, (flv, h) in enumerate(hs):
            if flavour in flv and nontrivial(impl[hi]):
                res.nontrivial.add(flavour + L.kind_seq(h))
    res.sample({"history": hs[-1][1][:6], "note": "each request is followed by a whole-store snapshot on both sides"})


def nontrivial(trace):
    two = any(len(set(graph_ids_of_raw(snap))) >= 2 for _, snap in trace)
    fail = any(rep[0] == "err" for rep, _ in trace)
    return two and fail


def graph_ids_of_raw(snap):
    parts = list(snap["graphs"].values()) if "graphs" in snap else [snap]
    for p in parts:
        for n, props in p["nodes"]:
            for k, v in props:
                if k == "GraphID":
                    yield canon(v)


# ------------------------------------------------------------------------------------------
# oracle: the property itself on the implementation

def keeps_graph_id(req):
    op = req[0]
    if op == "add_node":
        return not (req[4] and "GraphID" in req[4])
    if op in ("update_node_property",):
        return req[3] != "GraphID"
    if op == "update_nodes_property":
        return req[2] != "GraphID"
    if op == "update_node_properties":
        return "GraphID" not in req[3]
    if op == "add_graph_direct":
        return all(a.get("GraphID") == req[1] for a in req[2]["nodes"])
    return op != "merge_nodes"


def check_history(flavour, h, res, seed=0):
    import random
    be = L.Backend(flavour)
    be.import_keys = colliding_keys(random.Random(seed))
    universe = set(r[1] for r in h) | set(r[2] for r in h if r[0] == "clone") | {"g1", "g2", "g3", "g4", "zz"}
    clones = []        # (src, dst, step) pairs for the evidence histogram

    def bad(sig, what, k, **kw):
        res.violation("C04:%s:%s" % (flavour, sig), what, {"flavour": flavour, "history": h[:k + 1], "seed": seed}, **kw)

    for k, req in enumerate(h):
        op, tgt = req[0], L.target_of(req)
        aff = L.affected(req)           # None = every graph (delete_all_graphs)
        plain = keeps_graph_id(req)     # writes no GraphID, no merge: the target-only checks below apply
        universe |= be.graph_ids()
        before = {g: be.content(g) for g in universe}
        n_before = len(be.internal_ids())
        size_tgt = len(be.stored(tgt))
        # target-only checks speak of graphs whose nodes all carry the graph's id (DStore.Homed; always so on the shared store)
        plain = plain and be.homed(tgt) and (op != "clone" or be.homed(req[1]))
        rep = be.apply(req)
        after = {g: be.content(g) for g in universe | be.graph_ids()}
        res.count("%s:%s:%s" % (flavour, op, rep[0] if rep[0] == "ok" else rep[1]))
        # (1) frame: every graph the operation is not addressed to is untouched, success or failure
        for g in universe:
            if aff is not None and g not in aff and after[g] != before[g]:
                bad("frame:%s" % op, "%s addressed to %s changed graph %s" % (op, sorted(aff), g), k,
                    expected=before[g], observed=after[g])
        stray = [g for g in after if g not in universe and after[g]["nodes"] and (aff is None or g not in aff)]
        if stray:
            bad("frame:%s:stray" % op, "%s created nodes under unrelated graph id(s) %s" % (op, stray), k)
        if op == "delete_all_graphs" and rep[0] == "ok" and be.internal_ids():
            bad("delete_all_graphs:left-nodes", "delete_all_graphs left nodes behind", k)
        # (2) internal identities: nothing overwritten / shared
        ids = be.internal_ids()
        if len(set(ids)) != len(ids):
            bad("ids:duplicate", "two stored nodes share an internal identity", k)
        if flavour == "shared" and ids and be.storage.start_id <= max(i for _, i in ids):
            bad("ids:allocator", "start_id does not exceed a stored internal id", k, observed=be.storage.start_id)
        if flavour == "disjoint":
            for key, G in be._graphs():
                if len(G.nodes) and be.storage.graph_node_ids[key] <= max(G.nodes):
                    bad("ids:allocator", "graph_node_ids[%s] does not exceed a stored internal id" % key, k)
        if rep[0] == "ok" and plain:
            if op in ("add_graph", "add_graph_direct"):
                want = L.ig_content(req[2])
                # onto a non-empty graph of the same id the shared store replaces and the disjoint store
                # documents "warn and skip"; either way the graph must be one of the two, never a mixture
                if after[tgt] != want and not (size_tgt and after[tgt] == before[tgt]):
                    bad("import:content:%s" % ("existing" if size_tgt else "fresh"),
                        "after a successful import the graph does not have the imported content "
                        "(nodes lost, merged into stored nodes, or import dropped)", k, expected=want, observed=after[tgt])
                if len(ids) not in (n_before - size_tgt + len(req[2]["nodes"]), n_before if size_tgt else -1):
                    bad("import:count", "node count after import is not old - replaced + imported", k)
            if op == "add_node" and len(ids) != n_before + 1:
                bad("add_node:count", "add_node did not create exactly one stored node", k)
            if op == "clone":
                src = req[1]
                if after[tgt] != before[src] and not (size_tgt and after[tgt] == before[tgt]):
                    bad("clone:content:%s" % ("fresh" if not size_tgt else "existing-target"),
                        "clone does not have the content of its source", k, expected=before[src], observed=after[tgt])
                if after[src] != before[src] and src != tgt:
                    bad("clone:source-changed", "clone changed its source", k)
                clones.append((src, tgt, k))
            if op == "delete_graph" and after[tgt]["nodes"]:
                bad("delete_graph:left-nodes", "delete_graph left nodes behind", k)
    return be, clones


def small_alphabet():
    """16 operations over two graph ids for the exhaustive small-scope enumeration"""
    two = {"nodes": [{"NodeID": "n1", "Class": "NetworkNode"}, {"NodeID": "n2", "Class": "Link"}], "edges": [[0, 1, {"Class": "has"}]]}
    three = {"nodes": [{"NodeID": "n1", "Class": "NetworkNode"}, {"NodeID": "n2", "Class": "Link"}, {"NodeID": "n3", "Class": "Link"}],
             "edges": [[0, 1, {"Class": "has"}], [1, 2, {"Class": "connects"}]]}
    bad = {"nodes": [{"NodeID": "n3", "Class": "Link"}, {"Class": "Link"}], "edges": [[0, 1, {"Class": "has"}]]}
    A = []
    for g, o in (("g1", "g2"), ("g2", "g1")):
        A.append(["add_graph", g, two])
        A.append(["add_node", g, "n1", "Link", {"p": "x"}])
        A.append(["delete_node", g, "n1"])
        A.append(["update_nodes_property", g, "p", "y"])
        A.append(["delete_graph", g])
        A.append(["clone", g, o])
    A[0] = ["add_graph", "g1", bad]      # one failing re-import (deletes the old graph of that id first)
    A.append(["add_graph", "g1", three])             # grown re-import under its own id
    A.append(["add_node", "g1", "n4", "Link", None])  # grows g1 behind g2's id block
    A.append(["delete_all_graphs", "*"])
    A.append(["delete_node", "g2", "n3"])             # n3 only ever exists in g1
    return A


def oracle(ctx, res, n=None, length=30, depth=None):
    import copy
    import itertools
    hs = histories(ctx, "oracle", n or ctx.scale(250, 2500), length)
    for hi, (flv, h) in enumerate(hs):
        for flavour in flv:
            res.evaluations += 1
            be, clones = check_history(flavour, h, res, seed=hi)
            if clones:
                res.count("%s:histories-with-clone" % flavour)
            res.nontrivial.add(flavour + L.kind_seq(h))
    depth = depth or ctx.scale(3, 4)
    A = small_alphabet()
    seed_two = ["add_graph", "g1", {"nodes": [{"NodeID": "n1", "Class": "NetworkNode"}, {"NodeID": "n2", "Class": "Link"}],
                                    "edges": [[0, 1, {"Class": "has"}]]}]
    cnt = 0
    for tail in itertools.product(A, repeat=depth):
        h = [copy.deepcopy(seed_two)] + [copy.deepcopy(r) for r in tail]
        for flavour in ("shared", "disjoint"):
            check_history(flavour, h, res, seed=cnt)
        cnt += 1
    res.evaluations += 2 * cnt
    res.count("exhaustive-depth-%d" % depth, 2 * cnt)
    res.sample({"flavours": hs[-1][0], "history": hs[-1][1][:5],
                "checks": "frame on every non-addressed graph, internal ids, import/clone content"})


def search(ctx, res, broken):
    oracle(ctx, res, n=ctx.scale(2000, 10000), length=40, depth=4)


def replay(ctx, payload):
    r = core.Result()
    c = payload["case"]
    check_history(c["flavour"], c["history"], r, seed=c.get("seed", 0))
    for v in r.violations:
        print("  ", v["signature"], v["what"])
    return bool(r.violations)
