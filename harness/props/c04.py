"""C04 - graphs sharing the in-memory store are isolated; clones are independent."""
import json
import os

import core
from core import LeanDriver, canon
import lib_store as L
from gen import storeconsts, storeflow, importids

ID = "C04"
GENERATORS = [storeconsts.generate, storeflow.generate, importids.generate]
LEAN_MODULES = ["FimVerif.Proofs.C04"]
P = "FimVerif.C04."
THEOREMS = [P + t for t in ("flow_is_modelled", "new_importer_changes_nothing", "importers_made_mid_history", "inv_init", "inv_step", "inv_reachable", "ids_distinct_reachable", "step_import_wf",
                              "delall_keeps_allocator", "frame_general", "frame_general_history", "affects_of_keepsGraphId",
                              "frame_view", "frame", "frame_history", "import_content", "clone_eq", "clone_independent",
                              "reimport_isolated", "foreign_node_refused",
                              "dinv_init", "dinv_step", "dinv_reachable", "dids_distinct_reachable", "dframe",
                              "ddelall_keeps_counters", "dclone_onto_existing_skips", "dclone_eq", "dhomed_reachable",
                              "dclone_eq_reachable", "dclone_independent", "failed_call_changes_nothing",
                              "refused_calls_are_invisible", "import_targets_are_modelled", "import_entry_frame",
                              "direct_import_entry_frame", "idless_import_creates_new_graph", "idless_imports_do_not_meet",
                              "didless_import_creates_new_graph", "lookalike_ids_are_other_graphs",
                              "dlookalike_ids_are_other_graphs")]
TRUSTED_BASE = [
    "Model/Store.lean, Model/DStore.lean mirror NetworkXGraphStorage / NetworkXGraphStorageDisjoint / NetworkXPropertyGraph "
    "method by method (hand-written; checked differentially after every operation: reply, whole store by internal id, start_id)",
    "networkx: Graph.add_node/add_edge/remove_node(s)/copy, convert_node_labels_to_integers (renumbers by iteration position), "
    "to_dict_of_dicts/from_dict_of_dicts, networkx_query.search_nodes (filter over nodes(data=True)) are modelled, not verified",
    "an nx.Graph handed to add_graph has its edges between its own nodes (IGraph.WF); node/edge *order* in the model is "
    "insertion order and is not compared (both sides are sorted)",
    "gen/storeconsts.py: property-name constants and NO_UNSET_PROPERTIES read from abc_property_graph_constants.py",
    "gen/storeflow.py: allocator and lookup facts (imports relabel from start_id / from 1, counters advance by the number of "
    "nodes, del_graph / del_all_graphs keep the counters, present = holds nodes, which methods filter on GraphID) observed by "
    "running the real classes on probe scenarios; the model reads the del_graph / del_all_graphs bookkeeping from the generated "
    "flags and flow_is_modelled ties the rest",
    "locks are not modelled (C20): the harness replaces the stores' threading.Lock by a counting stand-in (lib_store.TolerantLock) "
    "so that the disjoint store's double release on a duplicate graph id (C20's defect) does not mask what an import did",
    "the disjoint model treats a missing dictionary entry and an empty graph alike (true of the code since /repo 7bd45c1)",
    "importer entry points: the models know an import as a store operation carrying its graph id; a call of "
    "import_graph_from_string[_direct] / import_graph_from_file[_direct] on a document is lowered to that operation on the id "
    "Model/ImportEntry.lean `target` names (the caller's id; for the direct entry points the id the DOCUMENT names) - hand-written, "
    "tied by gen/importids.py (behavioural probes: named / document / id-less targets incl. load-rewrite-load of one path; theorem "
    "import_targets_are_modelled) and by running every other history's imports through the entry points themselves on GraphML / JSON "
    "text (strings and one or two work files per history that are overwritten before each load; lib_store.Backend entry='importer'); "
    "networkx's GraphML / node-link writers and readers are trusted to carry the documents the harness writes (checked: a document "
    "that does not read back as the request's graph is handed to the store's own entry point instead); an empty document, and a "
    "direct import whose nodes do not all name the addressed graph, are only driven through the store's entry point",
    "id-less imports: an add_graph request into an id that holds no nodes is, in half of the importer-served cases, a call of "
    "import_graph_from_string / import_graph_from_file WITHOUT graph_id; which id the library mints is made the request's id "
    "(lib_store.minting stands in for uuid.uuid1 / uuid4 during the call), so the model's `add_graph g` with g not in use is the "
    "lowering ImportEntry.target .idless describes; that the ids the library mints on its own are new - also for documents that "
    "name a graph on every node - is gen/importids.py's probe.  A third of the documents name one graph on all nodes",
    "graph ids are opaque strings compared by equality in the models; the implementation is run over look-alike ids (substring "
    "/ prefix / suffix of one another, one character, empty only in the filter probe, differing in case or blanks, regex-like) in "
    "every third random history, every other small-scope history and gen/storeflow.py's filter probe (four id families)",
    "a graph HANDLE is stateless in the models: Store.step / DStore.step take the graph id inside the operation and the store, "
    "nothing else - whatever a NetworkXPropertyGraph object keeps between calls (caches, memos, anything left behind by a call "
    "that failed) has no counterpart.  Checked, not assumed: the implementation side of the correspondence and of the oracle is "
    "driven through handle OBJECTS kept for the whole history (lib_store.Backend handles = one object per graph id / two per "
    "graph id drawn per call / a fresh one per call; the object clone_graph returns is kept too), failing calls included, and "
    "the oracle asks every kept object the read-only requests again next to a fresh handle of the same id "
    "(C04:<flavour>:handle:<request>:after-[failed-]<op>)",
    "an IMPORTER is nothing in the models (the store is one per process; Store.enter / DStore.enter: making an importer leaves an "
    "existing store alone - read from gen/storeflow.py's probe_importers flags, theorems new_importer_changes_nothing / "
    "importers_made_mid_history).  Checked, not assumed: in three of seven random histories, every third small-scope history and "
    "a dedicated small scope the process has up to three importer objects made at different moments of the history with / without "
    "a logger of their own (lib_store.Backend importers='many'); handles keep the importer they were made with; the oracle and "
    "the correspondence read the store object the class-level singleton holds NOW, not one remembered from the start",
]
ASSUMPTIONS = [
    "an operation that writes the GraphID property (re-homing: update_node(s)_property / update_node_properties / initial "
    "properties naming GraphID, a direct import whose nodes carry other ids, merge_nodes) is addressed to the graphs it names: "
    "its target, every id it writes, the second graph of a merge (Lean: Op.affects; the general frame theorem and the oracle "
    "use exactly this set; re-homing a whole graph is C14's)",
    "single-threaded histories (C20 covers schedules)",
    "a handle object stands for its graph id and nothing else (model: the id travels inside Op); a sound cache inside a handle "
    "is invisible to the check, one that changes any reply or any graph is reported as a frame / drift violation",
]
RULE = ("corpus first, then operation histories (<= 30 ops) over 2-4 graph ids and 4 node ids on both store flavours: add/delete node, add link, "
        "single/bulk/whole-graph property updates and unsets (5% of them writing GraphID / NodeID), import (node keys colliding "
        "with stored internal ids, repeated NodeIDs, missing NodeID), re-import, direct import, delete graph, clone, merge_nodes, "
        "delete_all_graphs; 35% of the histories open with a structured scenario (re-import of a grown graph under its own id "
        "behind another graph's id block, clone onto an existing id, delete_all_graphs followed by re-use of the ids, operations "
        "addressed with a node id that only the clone source still has); non-trivial = >= 2 graphs non-empty at some "
        "point and >= 1 failing call; distinct by op-kind sequence; plus all histories of depth 3 (quick) / 4 (thorough) over a "
        "16-operation alphabet on two graph ids (import, grown re-import, failing re-import, add/delete node, whole-graph update, "
        "delete graph, clone, delete_all_graphs, foreign node id); every history is run through kept handle objects (cycle one / one / two / "
        "fresh / one / two per graph id); every fifth random history opens with refused calls (a graph and its clone or twin made to "
        "differ, merge_nodes refused for each reason - KeyError after both lookups, node missing on either side, other graph missing, "
        "the graph itself - refused updates / unsets / deletes / add_node) followed by updates, relinks and deletes through the same "
        "handle objects; plus all continuations of depth 3 (shared, one handle object per id) / 2 (two objects per id; disjoint) of a "
        "graph-and-diverged-clone prefix over an 18-operation alphabet of refused and accepted merges and node operations; "
        "every other history (and every history of the save / load kind: every fifth history opens with documents of two or three "
        "graphs, later versions of them, a document of one graph loaded under another's id) runs its imports through the importer's "
        "entry points on a document - string or work file (one or two paths per history, overwritten before each load), GraphML or "
        "JSON, direct or under the caller's id - the others through the store's add_graph / add_graph_direct with colliding node keys; "
        "the returned handle must be for the addressed graph; plus all histories of depth 3 / 4 over 7 operations (documents of two "
        "graphs, two versions, direct and named, add_node, delete_graph) through ONE work file, in both formats, every load into an "
        "empty id once under the caller's id and once WITHOUT a graph id; a third of the documents handed to add_graph name one "
        "graph (the target, another graph of the history, none) on all nodes, and half of the importer-served add_graph requests "
        "into an id holding no nodes are id-less calls; every third random history and every other small-scope history runs over "
        "look-alike graph ids (LOOKALIKE_IDS)")

CORPUS = os.path.join(core.CORPUS_DIR, "C04")


def load_corpus():
    out = []
    if os.path.isdir(CORPUS):
        for fn in sorted(os.listdir(CORPUS)):
            if fn.endswith(".json"):
                with open(os.path.join(CORPUS, fn)) as f:
                    out.append(json.load(f))
    return out


def colliding_keys(rng):
    """node keys for the nx.Graph handed to add_graph: small ints that collide with stored internal ids"""
    def keys(n):
        return rng.sample(range(1, 14), n)
    return keys


# with entry "importer": how often an add_graph into an id that holds no nodes is an importer call WITHOUT graph_id
IDLESS = 0.5

HANDLE_CYCLE = ["one", "one", "two", "fresh", "one", "two"]


def handle_mode(i):
    """which handle objects serve history number i (lib_store.Backend `handles`): mostly ONE handle object per graph id
    for the whole history (how the library is used: a graph object lives across calls), often two, now and then a new
    object per call"""
    return HANDLE_CYCLE[i % len(HANDLE_CYCLE)]


def importer_mode(i):
    """which importer objects serve history number i (lib_store.Backend `importers`): in three of seven histories the process
    has several importer objects, made at different moments and with different constructor arguments (with / without a
    logger); the graphs stored through one of them are the graphs every other one sees, and making one changes nothing"""
    return "many" if i % 7 in (0, 3, 5) else "one"


def refused_scenario(rng, gids, nids):
    """openings around calls that FAIL after they have looked things up (whatever a handle or the store remembers from a
    refused call must not redirect later calls): two graphs sharing node ids (clone or twin import), a change that makes
    them differ, a merge_nodes refused for each reason in turn (policy naming a property the other node lacks -> KeyError
    after both lookups; other node missing; own node missing; other graph missing; the graph itself as other graph), refused
    updates / unsets / deletes, then operations on the same graph ids"""
    a, b = rng.sample(gids, 2)
    n = rng.randint(2, 3)
    x, y = nids[0], nids[1]
    ig = {"nodes": [{L.NODE_ID: nids[i], L.CLASS: rng.choice(L.CLASSES), "Name": "v%d" % i, "p": "x"} for i in range(n)],
          "edges": [[i, i + 1, {L.CLASS: rng.choice(L.RELS)}] for i in range(n - 1)]}
    h = [["add_graph", a, ig], ["clone", a, b] if rng.random() < 0.7 else ["add_graph", b, ig]]
    differ = [["unset_node_property", b, x, "p"], ["update_node_property", a, x, "q", "y"], ["unset_node_property", a, x, "Name"],
              ["delete_node", b, y], ["update_nodes_property", a, "q", "x"]]
    rng.shuffle(differ)
    h += differ[:rng.randint(1, 3)]
    ghost = "g9"
    refusals = [["merge_nodes", a, x, b, {"p": rng.choice(["overwrite", "combine"])}],
                ["merge_nodes", a, x, b, {"q": rng.choice(["overwrite", "combine"])}],
                ["merge_nodes", b, x, a, {"Name": "overwrite", "q": "combine"}],
                ["merge_nodes", a, y, b, None], ["merge_nodes", b, y, a, {"p": "discard"}],
                ["merge_nodes", a, "n9", b, None], ["merge_nodes", a, x, ghost, None], ["merge_nodes", a, x, a, None],
                ["update_node_property", a, x, L.CLASS, "Link"], ["update_node_property", a, x, "p", None],
                ["unset_node_property", a, x, L.NODE_ID], ["unset_node_property", b, x, "zz"], ["delete_node", b, "n9"],
                ["add_node", a, x, "Link", None], ["update_node_properties", b, x, {L.CLASS: "Link"}],
                ["add_link", a, x, "has", "n9", None], ["get_node_properties", b, "n9"], ["find_matching_nodes", a, ghost]]
    after = [["update_node_property", a, x, "Name", "renamed"], ["update_node_properties", a, x, {"Type": "y"}],
             ["unset_node_property", a, x, "p"], ["delete_node", a, x], ["add_link", a, x, "has", y, {"q": "x"}],
             ["update_node_property", b, x, "Name", "other"], ["delete_node", b, x], ["get_node_properties", a, x],
             ["update_link_property", a, x, y, ig["edges"][0][2][L.CLASS], "q", "y"], ["add_node", a, "x0", "Link", None],
             ["update_nodes_property", b, "p", "y"], ["get_node_properties", b, x], ["list_all_node_ids", a]]
    for _ in range(rng.randint(1, 3)):
        rng.shuffle(refusals)
        rng.shuffle(after)
        h += refusals[:rng.randint(1, 3)] + after[:rng.randint(1, 4)]
    import copy
    return copy.deepcopy(h)


def entry_mode(i):
    """which entry point serves the import requests of history number i (lib_store.Backend `entry`): the store's own
    add_graph / add_graph_direct on an nx.Graph with colliding node keys, or the importer's entry points on a document
    (string / work file, GraphML / JSON)"""
    return "importer" if i % 2 == 1 or i % 5 == 2 else "store"


def workfile_scenario(rng, gids, nids):
    """save / load cycles: documents naming different graphs, and later versions of the same graph, are imported one after
    another - directly (the DOCUMENT names its graph: import_graph_from_file_direct / _string_direct) and under a caller's
    id - while the graphs loaded earlier stay alive; with Backend entry "importer" the file imports of one history go
    through one or two work files that are overwritten each time (load, rewrite, load)"""
    gs = list(gids)
    rng.shuffle(gs)
    a, b, c = gs[0], gs[1], gs[2 % len(gs)]

    def doc(g, n, first=0, direct=True):
        nodes = [{L.NODE_ID: nids[(first + i) % len(nids)] if i < len(nids) else "m%d" % i, L.CLASS: rng.choice(L.CLASSES),
                  "Name": "%s%d" % (g, i)} for i in range(n)]
        if direct:
            for x in nodes:
                x[L.GRAPH_ID] = g
        return {"nodes": nodes, "edges": [[i, i + 1, {L.CLASS: rng.choice(L.RELS)}] for i in range(n - 1)]}

    h = [["add_graph_direct", a, doc(a, rng.randint(1, 3))], ["add_graph_direct", b, doc(b, rng.randint(1, 4), 1)]]
    more = [["add_graph_direct", a, doc(a, rng.randint(1, 4))],                # a later version of the first document
            ["add_graph", c, doc(c, rng.randint(1, 3), 2, direct=False)],      # a document loaded under a caller's id
            ["add_graph_direct", c, doc(c, rng.randint(1, 3), 1)],
            ["add_graph", a, doc(b, rng.randint(1, 3), 0, direct=rng.random() < 0.5)],   # a document of b loaded as a
            ["add_node", a, "x0", rng.choice(L.CLASSES), None], ["delete_graph", b], ["clone", a, c],
            ["add_graph_direct", b, doc(b, rng.randint(1, 2), 3)], ["update_nodes_property", b, "p", "y"],
            ["list_all_node_ids", a], ["list_all_node_ids", b], ["graph_exists", c]]
    rng.shuffle(more)
    import copy
    return copy.deepcopy(h + more[:rng.randint(2, 7)])


# graph ids that LOOK ALIKE: one id a substring / prefix / suffix of another, a one-character id, ids differing in case or
# by surrounding blanks, an id that reads like a number, like a regular expression, like the name of a property.  Whatever
# picks the nodes of "the graph with this id" - a query operator, a key of a dictionary, a prefix of a composed key - has to
# mean EQUALITY of ids.  Every third random history is run under one of these renamings of g1..g4 (same requests otherwise).
LOOKALIKE_IDS = [
    {"g2": "g1-v2"}, {"g1": "exp", "g2": "exp-v2", "g3": "v2"}, {"g2": "g", "g3": "g33"}, {"g1": "g10", "g2": "g1", "g3": "0"},
    {"g1": "1", "g2": "11", "g3": "111"}, {"g2": "G1", "g3": " g1"}, {"g1": "g.", "g2": "g.*", "g3": "gx"},
    {"g1": "GraphID", "g2": "g1g2", "g3": "g2g1"}, {"g3": "g1g2", "g4": "2"}, {"g1": "a", "g2": "b", "g3": "ab", "g4": "ba"},
    # ... and node ids that look alike next to them (whatever finds "the node with this id in this graph" means equality too)
    {"g2": "g1-v2", "n2": "n1-b", "n3": "n"}, {"g1": "exp", "g2": "exp-v2", "n1": "n2n", "n4": "N2"},
]


def rename_ids(h, ren):
    """the same history over other graph ids: every whole string equal to a key of `ren` (graph ids in requests, GraphID
    values in documents and updates) is replaced; node ids, names and everything else stay"""
    def go(x):
        if isinstance(x, str):
            return ren.get(x, x)
        if isinstance(x, list):
            return [go(y) for y in x]
        if isinstance(x, dict):
            return {k: go(v) for k, v in x.items()}
        return x
    return go(h)


def name_a_graph(rng, h, gids):
    """documents as they are SAVED name a graph on every node (serialize_graph keeps GraphID): a third of the documents
    handed to add_graph carry one graph id - of the graph they are loaded as, of another graph of the history, of none -
    on all their nodes.  add_graph files the document under the id of the CALL (the caller's or, for an id-less call, a new
    one), whatever the document says."""
    for r in h:
        if r[0] == "add_graph" and r[2]["nodes"] and rng.random() < 0.35:
            g = rng.choice(list(gids) + list(gids) + ["zz"])
            for a in r[2]["nodes"]:
                a[L.GRAPH_ID] = g
    return h


def histories(ctx, tag, n, length):
    """[(flavours, history, handle mode, entry mode, entry plan, importer mode)]"""
    rng = ctx.sub_rng(tag)
    rng2 = ctx.sub_rng(tag + "-refused")
    rng3 = ctx.sub_rng(tag + "-workfile")
    rng4 = ctx.sub_rng(tag + "-docid")
    rng5 = ctx.sub_rng(tag + "-lookalike")
    hs = [(c["flavours"], c["history"], c.get("handles", "one"), c.get("entry", "store"), c.get("plan"),
           c.get("importers", "one")) for c in load_corpus()]
    for i in range(n):
        h = L.gen_history(rng, rng.randint(6, length), ngraphs=rng.choice([2, 3, 3, 4]),
                          scenario=0.35, merge=True, keys=0.05, delall=0.02)
        if i % 5 == 4:
            # every fifth history opens with refused calls instead (own random stream: the other histories stay what they were)
            gids = ["g1", "g2", "g3"]
            pre = refused_scenario(rng2, gids, ["n1", "n2", "n3", "n4"])
            sh = L.Shadow()
            for r in pre:
                sh.note(r)
            h = pre + [sh.aim(rng2, L.gen_op(rng2, gids, ["n1", "n2", "n3", "n4"], merge=True), gids) for _ in range(rng2.randint(0, 8))]
        if i % 5 == 2:
            # ... and every fifth one with save / load cycles of documents (own random stream again)
            gids = ["g1", "g2", "g3"]
            pre = workfile_scenario(rng3, gids, ["n1", "n2", "n3", "n4"])
            sh = L.Shadow()
            for r in pre:
                sh.note(r)
            h = pre + [sh.aim(rng3, L.gen_op(rng3, gids, ["n1", "n2", "n3", "n4"], merge=True), gids) for _ in range(rng3.randint(0, 8))]
        import copy
        h = name_a_graph(rng4, copy.deepcopy(h), ["g1", "g2", "g3"])
        if i % 3 == 1:
            h = rename_ids(h, rng5.choice(LOOKALIKE_IDS))
        hs.append((["shared", "disjoint"], h, handle_mode(i), entry_mode(i), None, importer_mode(i)))
    return hs


# ------------------------------------------------------------------------------------------
# correspondence

def run_impl(flavour, h, seed, handles="one", entry="store", plan=None, res=None, importers="one"):
    import random
    be = L.Backend(flavour, handles=handles, hseed=seed, entry=entry, plan=plan, importers=importers)
    be.import_keys = colliding_keys(random.Random(seed))
    be.idless = IDLESS
    out = []
    try:
        for req in h:
            rep = be.apply(req)
            out.append((L.canon_reply(req[0], rep), L.canon_raw(be.raw())))
        if res is not None:
            for k, via, fmt, slot in be.imports:
                res.count("%s:import-via:%s:%s:%s" % (flavour[0].upper(), h[k][0], via, fmt))
    finally:
        be.cleanup()
    return out


def correspondence(ctx, res):
    hs = histories(ctx, "corr", ctx.scale(150, 1500), 30)
    for flavour, tagc in (("shared", "S"), ("disjoint", "D")):
        lines, meta = [], []
        for hi, (flv, h, hm, em, pl, im) in enumerate(hs):
            if flavour not in flv:
                continue
            lines.append(json.dumps([tagc, "reset"]))
            meta.append(None)
            for k, req in enumerate(h):
                lines.append(json.dumps([tagc, req]))
                meta.append((hi, k, "op"))
                lines.append(json.dumps([tagc, "snap"]))
                meta.append((hi, k, "snap"))
        replies = LeanDriver("C04").run(lines)
        impl = {}
        for hi, (flv, h, hm, em, pl, im) in enumerate(hs):
            if flavour in flv:
                # the model's handle is the graph id; the implementation is driven through handle OBJECTS kept across calls.
                # The model's import is handed a graph and a graph id; the implementation's is, in every other history, handed
                # a document (string or rewritten work file) through the importer's entry points
                impl[hi] = run_impl(flavour, h, hi, hm, em, pl, res, importers=im)
                res.count("%s:importers:%s" % (tagc, im))
                res.count("%s:handles:%s" % (tagc, hm))
                res.count("%s:entry:%s" % (tagc, em))
        bad = set()
        for m, line in zip(meta, replies):
            if m is None:
                continue
            hi, k, what = m
            if hi in bad:
                continue
            h = hs[hi][1]
            rep = json.loads(line)
            if what == "op":
                res.evaluations += 1
                res.count("%s:op:%s" % (tagc, h[k][0]))
                exp = impl[hi][k][0]
                if exp[0] == "err":
                    res.count("%s:err:%s" % (tagc, exp[1]))
                got = L.canon_reply(h[k][0], rep)
            else:
                exp = impl[hi][k][1]
                got = L.canon_raw(rep[1]) if rep[0] == "ok" else rep
            if canon(got) != canon(exp):
                bad.add(hi)
                res.disagreements.append({"case": {"flavour": flavour, "history": h[:k + 1], "handles": hs[hi][2], "seed": hi,
                                                   "entry": hs[hi][3], "plan": hs[hi][4], "importers": hs[hi][5]},
                                          "at": [k, what], "impl": exp, "model": got})
        for hi, (flv, h, hm, em, pl, im) in enumerate(hs):
            if flavour in flv and nontrivial(impl[hi]):
                res.nontrivial.add(flavour + L.kind_seq(h))
    res.sample({"history": hs[-1][1][:6], "note": "each request is followed by a whole-store snapshot on both sides"})


def nontrivial(trace):
    two = any(len(set(graph_ids_of_raw(snap))) >= 2 for _, snap in trace)
    fail = any(rep[0] == "err" for rep, _ in trace)
    return two and fail


def graph_ids_of_raw(snap):
    parts = list(snap["graphs"].values()) if "graphs" in snap else [snap]
    for p in parts:
        for n, props in p["nodes"]:
            for k, v in props:
                if k == "GraphID":
                    yield canon(v)


# ------------------------------------------------------------------------------------------
# oracle: the property itself on the implementation

def keeps_graph_id(req):
    op = req[0]
    if op == "add_node":
        return not (req[4] and "GraphID" in req[4])
    if op in ("update_node_property",):
        return req[3] != "GraphID"
    if op == "update_nodes_property":
        return req[2] != "GraphID"
    if op == "update_node_properties":
        return "GraphID" not in req[3]
    if op == "add_graph_direct":
        return all(a.get("GraphID") == req[1] for a in req[2]["nodes"])
    return op != "merge_nodes"


DRIFT_NIDS = ["n1", "n2", "n3", "n4"]


def drift_queries(g):
    """read-only requests a kept handle object must answer like a fresh handle of the same graph id"""
    return [["list_all_node_ids", g]] + [["get_node_properties", g, x] for x in DRIFT_NIDS] + [["get_link_properties", g, "n1", "n2"]]


def check_history(flavour, h, res, seed=0, handles="one", probe="every", entry="store", plan=None, importers="one", iplan=None,
                  first_logger=None):
    import random
    be = L.Backend(flavour, handles=handles, hseed=seed, entry=entry, plan=plan, importers=importers, iplan=iplan,
                   first_logger=first_logger)
    be.import_keys = colliding_keys(random.Random(seed))
    be.idless = IDLESS
    try:
        return _check_history(be, flavour, h, res, seed, handles, probe, entry, plan)
    finally:
        be.cleanup()


def _check_history(be, flavour, h, res, seed, handles, probe, entry, plan):
    loaded = {}        # work file -> graph id of the document it held when it was last imported
    universe = set(r[1] for r in h) | set(r[2] for r in h if r[0] == "clone") | {"g1", "g2", "g3", "g4", "zz"}
    clones = []        # (src, dst, step) pairs for the evidence histogram
    drifted = False

    def bad(sig, what, k, **kw):
        res.violation("C04:%s:%s" % (flavour, sig), what, {"flavour": flavour, "history": h[:k + 1], "seed": seed, "handles": handles,
                                                            "entry": entry, "plan": plan, "importers": be.importers, "iplan": be.iplan,
                                                            "first_logger": be.first_logger}, **kw)

    for k, req in enumerate(h):
        op, tgt = req[0], L.target_of(req)
        aff = L.affected(req)           # None = every graph (delete_all_graphs)
        plain = keeps_graph_id(req)     # writes no GraphID, no merge: the target-only checks below apply
        universe |= be.graph_ids()
        before = {g: be.content(g) for g in universe}
        n_before = len(be.internal_ids())
        size_tgt = len(be.stored(tgt))
        # target-only checks speak of graphs whose nodes all carry the graph's id (DStore.Homed; always so on the shared store)
        plain = plain and be.homed(tgt) and (op != "clone" or be.homed(req[1]))
        rep = be.apply(req)
        after = {g: be.content(g) for g in universe | be.graph_ids()}
        res.count("%s:%s:%s" % (flavour, op, rep[0] if rep[0] == "ok" else rep[1]))
        if be.last_import is not None:
            # the import went through an importer entry point on a document: the graph it is addressed to is the one the
            # caller names, for a direct import the one the DOCUMENT names (req[1] by construction of the document) - never
            # something remembered about the string, the path or an earlier call; the handle it returns is for that graph
            via, fmt, slot, rid = be.last_import
            res.count("%s:import-via:%s:%s:%s" % (flavour, op, via, fmt))
            if via.startswith("file"):
                if loaded.get(slot, tgt) != tgt:
                    res.count("%s:work-file-reloaded-with-another-graph:%s" % (flavour, op))
                loaded[slot] = tgt
            if rep[0] == "ok" and rid != tgt:
                bad("import:handle:%s:%s" % (op, via), "%s of a document of graph %s through the importer's %s entry point returned "
                    "a handle for graph %s" % (op, tgt, via, rid), k, expected=tgt, observed=rid)
        # (0) the observable content of a graph is what the store holds for its id, whichever handle object is asked: a handle
        #     kept across calls (failing ones included) answers every read-only request like a handle made just now
        #     (looked at after every call for the graphs the call names, for every kept handle after every 4th call, after
        #     a failing call and at the end; reported where it first shows)
        if handles != "fresh" and not drifted and (probe == "every" or k == len(h) - 1):
            full = k % 4 == 3 or k == len(h) - 1 or rep[0] == "err"
            named = None if full or aff is None else (aff | {req[1]})
            for g, i, q, kept, fresh in be.handle_drift(drift_queries, only=named)[:1]:
                drifted = True
                bad("handle:%s:%s" % (q[0], "after-failed-%s" % op if rep[0] == "err" else "after-%s" % op),
                    "a handle object of graph %s kept across calls answers %s differently from a fresh handle of the same graph "
                    "after %s %s" % (g, q, op, "failed" if rep[0] == "err" else "returned"), k, expected=fresh, observed=kept)
        # (1) frame: every graph the operation is not addressed to is untouched, success or failure
        for g in universe:
            if aff is not None and g not in aff and after[g] != before[g]:
                bad("frame:%s" % op, "%s addressed to %s changed graph %s" % (op, sorted(aff), g), k,
                    expected=before[g], observed=after[g])
        stray = [g for g in after if g not in universe and after[g]["nodes"] and (aff is None or g not in aff)]
        if stray:
            bad("frame:%s:stray" % op, "%s created nodes under unrelated graph id(s) %s" % (op, stray), k)
        if op == "delete_all_graphs" and rep[0] == "ok" and be.internal_ids():
            bad("delete_all_graphs:left-nodes", "delete_all_graphs left nodes behind", k)
        # (2) internal identities: nothing overwritten / shared
        ids = be.internal_ids()
        if len(set(ids)) != len(ids):
            bad("ids:duplicate", "two stored nodes share an internal identity", k)
        if flavour == "shared" and ids and be.storage.start_id <= max(i for _, i in ids):
            bad("ids:allocator", "start_id does not exceed a stored internal id", k, observed=be.storage.start_id)
        if flavour == "disjoint":
            for key, G in be._graphs():
                if len(G.nodes) and be.storage.graph_node_ids[key] <= max(G.nodes):
                    bad("ids:allocator", "graph_node_ids[%s] does not exceed a stored internal id" % key, k)
        if rep[0] == "ok" and plain:
            if op in ("add_graph", "add_graph_direct"):
                want = L.ig_content(req[2])
                # onto a non-empty graph of the same id the shared store replaces and the disjoint store
                # documents "warn and skip"; either way the graph must be one of the two, never a mixture
                if after[tgt] != want and not (size_tgt and after[tgt] == before[tgt]):
                    bad("import:content:%s" % ("existing" if size_tgt else "fresh"),
                        "after a successful import the graph does not have the imported content "
                        "(nodes lost, merged into stored nodes, or import dropped)", k, expected=want, observed=after[tgt])
                if len(ids) not in (n_before - size_tgt + len(req[2]["nodes"]), n_before if size_tgt else -1):
                    bad("import:count", "node count after import is not old - replaced + imported", k)
            if op == "add_node" and len(ids) != n_before + 1:
                bad("add_node:count", "add_node did not create exactly one stored node", k)
            if op == "clone":
                src = req[1]
                if after[tgt] != before[src] and not (size_tgt and after[tgt] == before[tgt]):
                    bad("clone:content:%s" % ("fresh" if not size_tgt else "existing-target"),
                        "clone does not have the content of its source", k, expected=before[src], observed=after[tgt])
                if after[src] != before[src] and src != tgt:
                    bad("clone:source-changed", "clone changed its source", k)
                clones.append((src, tgt, k))
            if op == "delete_graph" and after[tgt]["nodes"]:
                bad("delete_graph:left-nodes", "delete_graph left nodes behind", k)
    return be, clones


def small_alphabet():
    """16 operations over two graph ids for the exhaustive small-scope enumeration"""
    two = {"nodes": [{"NodeID": "n1", "Class": "NetworkNode"}, {"NodeID": "n2", "Class": "Link"}], "edges": [[0, 1, {"Class": "has"}]]}
    three = {"nodes": [{"NodeID": "n1", "Class": "NetworkNode"}, {"NodeID": "n2", "Class": "Link"}, {"NodeID": "n3", "Class": "Link"}],
             "edges": [[0, 1, {"Class": "has"}], [1, 2, {"Class": "connects"}]]}
    bad = {"nodes": [{"NodeID": "n3", "Class": "Link"}, {"Class": "Link"}], "edges": [[0, 1, {"Class": "has"}]]}
    A = []
    for g, o in (("g1", "g2"), ("g2", "g1")):
        A.append(["add_graph", g, two])
        A.append(["add_node", g, "n1", "Link", {"p": "x"}])
        A.append(["delete_node", g, "n1"])
        A.append(["update_nodes_property", g, "p", "y"])
        A.append(["delete_graph", g])
        A.append(["clone", g, o])
    A[0] = ["add_graph", "g1", bad]      # one failing re-import (deletes the old graph of that id first)
    A.append(["add_graph", "g1", three])             # grown re-import under its own id
    A.append(["add_node", "g1", "n4", "Link", None])  # grows g1 behind g2's id block
    A.append(["delete_all_graphs", "*"])
    A.append(["delete_node", "g2", "n3"])             # n3 only ever exists in g1
    return A


def workfile_alphabet():
    """documents of two graphs (two versions of the first) loaded directly and under a caller's id, and what happens to the
    loaded graphs in between"""
    def doc(g, n, direct=True):
        nodes = [{"NodeID": "n%d" % (i + 1), "Class": "NetworkNode", "Name": "%s%d" % (g, i)} for i in range(n)]
        for x in nodes:
            if direct:
                x["GraphID"] = g
        return {"nodes": nodes, "edges": [[i, i + 1, {"Class": "connects"}] for i in range(n - 1)]}
    return [["add_graph_direct", "g1", doc("g1", 2)], ["add_graph_direct", "g2", doc("g2", 3)], ["add_graph_direct", "g1", doc("g1", 3)],
            ["add_graph", "g2", doc("g2", 2, direct=False)], ["add_graph", "g3", doc("g1", 2)],
            ["add_node", "g1", "n4", "Link", None], ["delete_graph", "g1"]]


HANDLE_PREFIX = [["add_graph", "g1", {"nodes": [{"NodeID": "n1", "Class": "NetworkNode", "Name": "a", "p": "x"}, {"NodeID": "n2", "Class": "Link"}],
                                       "edges": [[0, 1, {"Class": "has"}]]}],
                 ["clone", "g1", "g2"], ["unset_node_property", "g2", "n1", "p"]]


# what the second / third importer of a process is made for (small scope behind one stored graph g1)
IMPORTER_OPS = [["add_node", "g2", "n1", "Link", {"p": "x"}], ["clone", "g1", "g3"], ["update_nodes_property", "g1", "p", "y"],
                ["delete_graph", "g2"], ["add_graph", "g2", {"nodes": [{"NodeID": "n1", "Class": "Link"}], "edges": []}]]


def handle_alphabet():
    """operations for the small-scope enumeration behind HANDLE_PREFIX (a graph, its clone, one property dropped in the
    clone): merges refused for each reason and merges that go through, refused and accepted updates / unsets / deletes /
    re-creations of the shared node id on both graphs, the clone deleted and made again"""
    A = [["merge_nodes", "g1", "n1", "g2", {"p": "overwrite"}],      # KeyError after both lookups
         ["merge_nodes", "g2", "n1", "g1", {"Name": "combine"}],     # goes through
         ["merge_nodes", "g1", "n2", "g2", None],                    # goes through
         ["merge_nodes", "g1", "n3", "g2", None],                    # own node missing
         ["merge_nodes", "g1", "n1", "g9", None],                    # other graph missing
         ["update_node_property", "g1", "n1", "p", None],            # refused (assertion)
         ["delete_graph", "g2"], ["clone", "g1", "g2"]]
    for g in ("g1", "g2"):
        A += [["update_node_property", g, "n1", "q", "y"], ["unset_node_property", g, "n1", "q"], ["delete_node", g, "n1"],
              ["add_node", g, "n1", "Link", {"q": "x"}], ["add_link", g, "n1", "connects", "n2", {"q": "x"}]]
    return A


def oracle(ctx, res, n=None, length=30, depth=None):
    import copy
    import itertools
    hs = histories(ctx, "oracle", n or ctx.scale(250, 2500), length)
    for hi, (flv, h, hm, em, pl, im) in enumerate(hs):
        for flavour in flv:
            res.evaluations += 1
            res.count("%s:handles:%s" % (flavour, hm))
            res.count("%s:entry:%s" % (flavour, em))
            res.count("%s:importers:%s" % (flavour, im))
            be, clones = check_history(flavour, h, res, seed=hi, handles=hm, entry=em, plan=pl, importers=im)
            for _, what in be.imp_log:
                if what.startswith("new"):
                    res.count("%s:importer-made-mid-history:%s" % (flavour, what[4:]))
            if clones:
                res.count("%s:histories-with-clone" % flavour)
            res.nontrivial.add(flavour + L.kind_seq(h))
    depth = depth or ctx.scale(3, 4)
    A = small_alphabet()
    seed_two = ["add_graph", "g1", {"nodes": [{"NodeID": "n1", "Class": "NetworkNode"}, {"NodeID": "n2", "Class": "Link"}],
                                    "edges": [[0, 1, {"Class": "has"}]]}]
    cnt = 0
    for tail in itertools.product(A, repeat=depth):
        h = [copy.deepcopy(seed_two)] + [copy.deepcopy(r) for r in tail]
        if cnt % 2 == 1:
            # every other history over look-alike ids: the second graph's id contains the first's, or the other way round
            h = rename_ids(h, {"g2": "g1-v2"} if cnt % 4 == 1 else {"g1": "g2g"})
            res.count("exhaustive-lookalike-ids")
        for flavour in ("shared", "disjoint"):
            # every third history with several importer objects of the process (made mid-history, with / without a logger)
            check_history(flavour, h, res, seed=cnt, handles="one", probe="last", importers="many" if cnt % 3 == 2 else "one")
        if cnt % 3 == 2:
            res.count("exhaustive-several-importers")
        cnt += 1
    res.evaluations += 2 * cnt
    res.count("exhaustive-depth-%d" % depth, 2 * cnt)
    # importer objects: a first importer made with / without a logger stores g1; before each of the next two requests another
    # importer is made (with / without a logger) or the first one serves again; every pair of requests over IMPORTER_OPS
    cnt0 = 0
    for first in (False, True):
        for kinds in itertools.product(("new-logger", "new-default", "old0"), repeat=2):
            for tail in itertools.product(IMPORTER_OPS, repeat=2):
                h = [copy.deepcopy(seed_two)] + [copy.deepcopy(r) for r in tail]
                for flavour in ("shared", "disjoint"):
                    for hm in ("one", "fresh"):
                        check_history(flavour, h, res, seed=cnt0, handles=hm, probe="every", importers="many",
                                      iplan={"1": kinds[0], "2": kinds[1]}, first_logger=first)
                        cnt0 += 1
    res.evaluations += cnt0
    res.count("exhaustive-importers-made-mid-history", cnt0)
    # handle objects: every continuation of HANDLE_PREFIX over the 18 operations of handle_alphabet(), one handle object per
    # graph id for the whole history (depth 3 on the shared store, where merge_nodes exists; depth 2 with two handle objects
    # per graph id and on the disjoint store)
    B = handle_alphabet()
    cnt2 = 0
    for d, flavour, hm in ((depth, "shared", "one"), (depth - 1, "shared", "two"), (depth - 1, "disjoint", "one")):
        for tail in itertools.product(B, repeat=d):
            h = copy.deepcopy(HANDLE_PREFIX) + [copy.deepcopy(r) for r in tail]
            check_history(flavour, h, res, seed=cnt2, handles=hm, probe="last")
            cnt2 += 1
    res.evaluations += cnt2
    res.count("exhaustive-handles-depth-%d-over-%d-ops" % (depth, len(B)), cnt2)
    # work files: every history of depth 3 (quick) / 4 (thorough) over documents of two graphs loaded through ONE work file
    # that is overwritten before each load (import_graph_from_file_direct / import_graph_from_file), GraphML and JSON
    W = workfile_alphabet()
    cnt3 = 0
    for tail in itertools.product(W, repeat=depth):
        h = [copy.deepcopy(r) for r in tail]
        if sum(1 for r in h if r[0].startswith("add_graph")) < 2:
            continue
        # ... every load under a caller's id; and, where the history has such loads, every load into an id that holds
        # nothing WITHOUT a graph id (the documents name g1 / nothing: the library's new id decides, not the document)
        vias = ["file"] + (["file-idless"] if any(r[0] == "add_graph" for r in h) else [])
        for fmt in L.ENTRY_FMTS:
            for via in vias:
                plan = {str(k): [via, fmt, 0] for k in range(len(h))}
                for flavour in ("shared", "disjoint"):
                    check_history(flavour, h, res, seed=cnt3, handles="one", probe="last", entry="importer", plan=plan)
                    cnt3 += 1
                    res.count("exhaustive-workfile-via-%s" % via)
    res.evaluations += cnt3
    res.count("exhaustive-workfile-depth-%d-over-%d-ops" % (depth, len(W)), cnt3)
    res.sample({"flavours": hs[-1][0], "history": hs[-1][1][:5],
                "checks": "frame on every non-addressed graph, internal ids, import/clone content"})


def search(ctx, res, broken):
    oracle(ctx, res, n=ctx.scale(2000, 10000), length=40, depth=4)


def replay(ctx, payload):
    r = core.Result()
    c = payload["case"]
    check_history(c["flavour"], c["history"], r, seed=c.get("seed", 0), handles=c.get("handles", "one"),
                  entry=c.get("entry", "store"), plan=c.get("plan"), importers=c.get("importers", "one"),
                  iplan=c.get("iplan"), first_logger=c.get("first_logger"))
    for v in r.violations:
        print("  ", v["signature"], v["what"])
    return bool(r.violations)
