"""C09 - a topology-building call that raises leaves the model unchanged."""
import glob
import json
import os

import core
from core import LeanDriver, canon
from gen import rules, topoorder
import lib_topo as T
import lib_topoc09 as X

ID = "C09"
GENERATORS = [rules.generate, topoorder.generate_order]
LEAN_MODULES = ["FimVerif.Proofs.C09", "FimVerif.Drivers.TopoRun"]      # Drivers/C09.lean (interpreted) imports both
P = "FimVerif.C09."
THEOREMS = [P + t for t in (
    "atomic_addGNode", "atomic_nodeNew", "atomic_addNode", "atomic_setProps", "atomic_unsetProp", "atomic_rename",
    "atomic_ifaceNew_orphan", "atomic_ifaceNew", "atomic_addInterface", "atomic_linkNew", "atomic_addLink",
    "atomic_connectInterface", "atomic_connectInterface_bogus", "atomic_addNetworkService", "atomic_nodeAddService", "atomic_addComponent",
    "atomic_addComponent_gen", "atomic_addStorage", "atomic_disconnectInterface", "atomic_removeInterface",
    "atomic_addFacility", "atomic_addSwitch", "atomic_removeLink", "atomic_removeNode", "atomic_removeFacility", "atomic_removeSwitch",
    "atomic_removeService", "atomic_nodeRemoveService", "atomic_removeComponent",
    "atomic_op",
    "atomic_addChildInterface", "atomic_addPortMirror", "atomic_addComponentMT", "atomic_removeChildInterface", "atomic_peer",
    "atomic_unpeer", "atomic_xop", "atomic_updateCaplab", "atomic_yop", "atomic_any", "history_atomic", "history_erasure",
    "okOps_all_ok", "history_all_failed", "removeNode_multipeer_counterexample", "order_discipline", "order_pinned_minimal",
    "order_single_write_sound", "store_primitives_as_modelled", "setProps_rejected_whole")] + [
    "FimVerif.Topo." + t for t in (
    "removeCpAndLinks_spec", "removeNs_spec", "removeCompGraph_spec", "removeNodeGraph_spec", "detachAll_spec", "removeNodeGraph_fac",
    "removeCompGraph_comp0", "removeCompGraph_comp1", "flag_componentRollback")] + [
    "FimVerif.Topo.OrderTok." + t for t in ("scan_sound", "singleWrite_sound")]
TRUSTED_BASE = [
    "Model/Topo.lean (+ Model/TopoC09.lean for update_labels / update_capacities) mirrors by hand the control flow of "
    "fim/user/{topology,node,component,network_service,interface,link,model_element}.py and the add_*/remove_* sliver functions of "
    "abc_property_graph.py over NetworkXPropertyGraph primitives; checked differentially on every call of generated histories "
    "(outcome, exception kind, returned id, handle cache(s), whole-model snapshot)",
    "sliver-side validation and sliver->graph property encoding of keyword properties are taken from the implementation's pure sliver "
    "code (C02/C16 cover them): the model receives per keyword 'accepted as these graph properties' or 'rejected with this kind'; for "
    "add_child_interface also the vlan of each Labels text in the graph (decoded by the real codec) and the labels after the call "
    "copied the parent's local_name into them; for update_labels / update_capacities the merged value (Labels.update on what the graph holds)",
    "gen/rules.py: component catalogue (with what generate_component derives), service/link layers, NO_UNSET_PROPERTIES, and one flag per "
    "repaired idiom read off the AST: exception type selected by the rollback handler of NetworkService.__init__, position of `iindex = 0` "
    "in add_facility, try/except of add_facility/add_switch, validate-before-create in the two attach functions, name pre-check of "
    "connect_interface, try/except clean-up of peer, try/except clean-up of add_component_sliver, the node_exists skip in _disconnect_interfaces; "
    "a behaviour probe of add_node's id check",
    "gen/topoorder.py: the abstraction of every building function to validate / write / cache-update steps (which call names count as "
    "writes is a pinned list; attribute reads are not counted as steps that can fail); the scan over it is proved sound in Lean "
    "(OrderTok.scan_sound), the table itself is checked by the Lean driver on every run (orderOk)",
    "uuid4 freshness: generated ids are modelled as a counter disjoint from caller-supplied ids",
    "set iteration order (lists of neighbours) is canonicalised by sorting before comparison; where the order decides what a half-way "
    "raise leaves behind (an interface with two ServicePort peers) only the outcome is compared and the rest of that history is left to the oracle",
    "Topo.step / TopoOp, Topo.stepX / XOp and Topo.stepY / YOp (the alphabets atomic_op / atomic_xop / atomic_yop quantify over) wrap the same "
    "functions the driver calls, one constructor per request kind; the driver dispatches every building call through them",
    "hypotheses of the guarded theorems (Covered / CoveredX): node ids distinct and no dangling edge (invariants of reachable models, C07), "
    "uuid freshness, interface handles refer to ConnectionPoints; for the removals RemoveHyp (every ServicePort owned by exactly one "
    "service, at most one ServicePort peer per interface, nothing hanging off a ServicePort, no edge between two service-attached "
    "interfaces).  The state-only guards are evaluated by the Lean driver before every such call of the correspondence run (histogram "
    "guard:<op>:holds|fails) and 'guard holds, call raised, model changed' is reported as a broken correspondence",
]
ASSUMPTIONS = [
    "single-threaded use; both in-memory NetworkX backends (the API's default shared store and, for half of the random histories and the "
    "systematic cases of one flavour per tier-half, the one-graph-per-model store of NetworkXGraphImporterDisjoint); names are ASCII",
    "atomic_op covers all 22 request kinds of the first alphabet, atomic_xop all 6 of the second (add_child_interface, "
    "remove_child_interface, peer, unpeer, add_port_mirror_service, add_component(model_type=)) and atomic_yop the third (update_labels / "
    "update_capacities) under explicit decidable hypotheses; history_erasure / history_atomic lift them to every history over the three "
    "alphabets; add_component with caller-supplied service/interface ids is inside since the clean-up of commit e285d22",
    "PARTIAL: the removals (every caller of Topology._disconnect_interfaces) are proved under RemoveHyp; outside it - an interface with two "
    "ServicePort peers, reachable through add_link - they raise half-way (known findings, removeNode_multipeer_counterexample)",
    "ExperimentTopology.prune is modelled (the marked elements in the order the call visits them come from the run) and checked "
    "differentially and by the oracle, but has no theorem: it is a sequence of removals, each covered on its own (CoveredX excludes it)",
    "oracle only (not modelled): non-empty / ill-typed interface_labels of add_component, the image_ref / image_type attribute setters, "
    "add_node(ns_info=) (known finding); not covered at all: the Neo4j backend",
    "'model' = the graph the store holds for the topology's graph id plus the _interfaces cache(s) of the handle(s) the call was made on; "
    "a handle's cached .name is not part of it",
]
RULE = ("histories of building calls of the three alphabets (both flavours, caller-supplied and generated ids) with injected rejected calls: k-th "
        "interface bogus/stale/connected/repeated/shared-on-L2PTP (top-level and node-owned services), one bad keyword among good ones at each "
        "position, None / '' / wrong-typed values, duplicate names/ids, unknown model, stale parents, id collisions of derived ids, "
        "nslabels / portlabels / portcapacities / missing service type of the composites, bad field among good ones in update_labels / "
        "update_capacities, attribute assignment, names / ids of the model (any class, derived ones included) as the argument of creating calls, "
        "rename, set_property / set_properties(name=), `element.name = ...` and unset on every kind of element (compared whenever the call "
        "raises, whether or not the unchanged code raises there), removal by the wrong call on elements with connected (sub-)interfaces, states with two "
        "ServicePort peers; non-trivial = the failing call comes after >= 1 successful mutation of the history and, for list arguments, "
        "after >= 1 good element; distinct by op kind x fault x position x outcome kind")

CORPUS = os.path.join(core.CORPUS_DIR, "C09")
# calls whose guard in Covered / CoveredX is a predicate on the state alone -> the conjuncts the driver's `hyp` request evaluates
_RM = ["ids", "spOwned", "spPeer1", "spLeaf", "cpEdgeOk"]
HYP_OPS = {"remove_node": _RM, "remove_facility": _RM, "remove_switch": _RM, "remove_service": _RM, "node_remove_service": _RM,
           "remove_component": _RM, "remove_link": ["ids", "spLeaf"], "unpeer": ["ids", "spLeaf"], "add_facility": ["ids", "closed"],
           "add_switch": ["ids", "closed"], "remove_child_interface": ["ids", "spOwned", "spPeer1", "spLeaf"],
           "disconnect": ["ids"], "ns_remove_interface": ["ids"], "add_link": ["ids"], "peer": ["ids", "closed"],
           "add_component": ["ids", "closed"], "add_component_mt": ["ids", "closed"]}


# every caller of Topology._disconnect_interfaces
DETACH_OPS = ("remove_node", "remove_facility", "remove_switch", "remove_component", "remove_service", "node_remove_service",
              "remove_child_interface", "prune")


# --------------------------------------------------------------------------

def run_history(flavour, ops_or_gen, on_step=None, nmax=None):
    """Run ops (a list, or a callable producing the next op from the session) on the implementation.
    Returns list of steps: dict(op, line, outcome, before, after, cache_before, cache_after)."""
    sess = X.SessionX(flavour)
    steps = []
    hist = []
    try:
        i = 0
        while True:
            if callable(ops_or_gen):
                if nmax is not None and i >= nmax:
                    break
                op = ops_or_gen(sess)
                if op is None:
                    break
            else:
                if i >= len(ops_or_gen):
                    break
                op = ops_or_gen[i]
            i += 1
            if op["op"] == "_harvest":          # pseudo-ops: pick up handles through the API, as a caller would
                sess.harvest(op["h"])
                hist.append(op)
                continue
            if op["op"] == "_fresh":
                sess.fresh(op["kind"], op["name"])
                hist.append(op)
                continue
            if op["op"] == "_backup":           # a copy of the topology (node ids preserved) stays alive in the process
                if sess.backup(op.get("how", "load")):
                    hist.append(op)
                continue
            before = T.snapshot(sess.topo)
            ob = sess.other_snapshots()
            hkeys = [op.get(f) for f in T.cache_handles(op)]
            caches = lambda: [T._cache(sess.handles[hk].obj) if hk in sess.handles else None for hk in hkeys] or None
            cb = caches()
            try:
                outcome, line = sess.apply(op)
            except ValueError:
                continue
            after = T.snapshot(sess.topo)
            ca = caches()
            oa = sess.other_snapshots()
            T.after_success(sess, op, outcome)
            hist.append(op)
            st = dict(op=op, line=line, outcome=outcome, before=before, after=after, cache_before=cb, cache_after=ca, history=list(hist),
                      flavour=flavour, others_before=ob, others_after=oa)
            steps.append(st)
            if on_step:
                on_step(sess, st)
    finally:
        sess.close()
    return steps


def signature(st):
    a, r, ea, er = T.snap_diff(st["before"], st["after"])
    left = "+".join(sorted({n[0] for n in a})) or ("edges" if ea else "")
    gone = "+".join(sorted({n[0] for n in r})) or ("edges" if er else "")
    mod = ""
    if not left and not gone:
        mod = "cache"
    api = {"add_component_mt": "add_component", "add_node_nsinfo": "add_node(ns_info=)"}.get(st["op"]["op"], st["op"]["op"])  # same API call
    if api in DETACH_OPS and st["outcome"][1] == "topology" and X.multi_sp_peer(st["before"]):
        # the model error the code itself names: an interface of the removed element has more than one ServicePort peer
        mod += ":multi-sp-peer"
    return "C09:%s:%s:left[%s]lost[%s]%s" % (api, st["outcome"][1], left, gone, mod)


def check_step(st, res, case):
    """The property: outcome err => snapshot and handle cache unchanged."""
    if st["outcome"][0] != "err":
        return False
    if st.get("others_before") != st.get("others_after"):
        # the copies of the topology that are alive in the process belong to "the model as it was" as well
        api = st["op"]["op"]
        res.violation("C09:%s:%s:other-topology-changed" % (api, st["outcome"][1]),
                      "%s raised %s but a copy of the topology kept in the same process changed" % (api, st["outcome"][1]), case,
                      expected="every graph of the process identical to what it was before the call",
                      observed={"copies": [list(T.snap_diff(b, a)) for b, a in zip(st["others_before"], st["others_after"]) if a != b]})
        return True
    if st["before"] == st["after"] and st["cache_before"] == st["cache_after"]:
        return False
    a, r, ea, er = T.snap_diff(st["before"], st["after"])
    res.violation(signature(st), "%s raised %s but the model changed" % (st["op"]["op"], st["outcome"][1]), case,
                  expected="model identical to the one before the call",
                  observed={"added_nodes": a, "removed_nodes": r, "added_edges": ea, "removed_edges": er,
                            "cache_before": st["cache_before"], "cache_after": st["cache_after"]})
    return True


def stream_flavour(i):
    """flavour of the i-th random history: substrate every third, and about half of each on the one-graph-per-model store ('+d')"""
    return ("exp" if i % 3 else "sub") + ("+d" if i % 2 == 1 else "")


def random_history(ctx, tag, flavour, n, fault, ext=False):
    rng = ctx.sub_rng(tag)
    names = T.Names(rng)
    # caller-supplied names / ids of every creating and renaming call drawn from the names / ids the model holds (any class)
    def gen(sess):
        b = maybe_backup(rng, sess)
        if b is not None:
            return b
        return X.loosen(rng, sess, T.collide(rng, sess, X.gen_op_x(rng, sess, names, fault, ext=ext), p_name=0.3, p_id=0.05), p=0.08)
    return run_history(flavour, gen, nmax=n)


def maybe_backup(rng, sess):
    """now and then (at most twice per history, once something exists) a copy of the topology is kept in the process"""
    if len(sess.order) >= 4 and len(getattr(sess, "others", [])) < 2 and rng.random() < 0.05:
        return {"op": "_backup", "how": rng.choice(["load", "clone"])}
    return None


def base_ops(flavour):
    """a small reachable topology with free interfaces, one connected service, one switch"""
    sub = flavour.startswith("sub")
    I = (lambda s: s) if sub else (lambda s: None)
    ops = [
        {"op": "add_node", "name": "n1", "nid": I("n1id"), "site": "RENC", "ntype": "Server" if sub else "VM", "kw": []},
        {"op": "add_node", "name": "n2", "nid": I("n2id"), "site": "UKY", "ntype": "Server" if sub else "VM", "kw": []},
        {"op": "add_component", "parent": "h0", "name": "nic1", "nid": I("c1id"), "ctype": "SmartNIC", "model": "ConnectX-6",
         "ns_nid": I("c1ns"), "if_nids": ["c1i1", "c1i2"] if sub else None, "n_labels": 2 if sub else None, "kw": []},       # h2; ifaces h3 h4
        {"op": "add_component", "parent": "h1", "name": "nic2", "nid": I("c2id"), "ctype": "SmartNIC", "model": "ConnectX-5",
         "ns_nid": I("c2ns"), "if_nids": ["c2i1", "c2i2"] if sub else None, "n_labels": 2 if sub else None, "kw": []},       # h5; ifaces h6 h7
        {"op": "add_component", "parent": "h0", "name": "shnic", "nid": I("c3id"), "ctype": "SharedNIC", "model": "ConnectX-6",
         "ns_nid": I("c3ns"), "if_nids": ["c3i1"] if sub else None, "n_labels": 1 if sub else None, "kw": []},              # h8; iface h9
    ]
    return ops


def systematic_cases(flavour):
    """Failing calls with the rejected argument at every position, on top of base_ops. Yields (tag, ops)."""
    base = base_ops(flavour)
    sub = flavour.startswith("sub")
    good = ["h3", "h6", "h4", "h7"]
    nid = (lambda s: s) if sub else (lambda s: None)
    out = []
    if not sub:
        # an existing service that has h4 connected, and a stale interface (node removed)
        pre = base + [
            {"op": "add_service", "name": "pre", "nstype": "L2Bridge", "ifs": ["h4"], "kw": []},                     # h10
            {"op": "add_node", "name": "n3", "site": "RENC", "ntype": "VM", "kw": []},                                 # h11
            {"op": "add_component", "parent": "h11", "name": "nic3", "ctype": "SmartNIC", "model": "ConnectX-6", "kw": []},  # h12; h13 h14
            {"op": "remove_node", "name": "n3"},
        ]
        bads = {"bogus": T.BOGUS, "stale": "h13", "connected": "h4", "repeat": "h3", "shared-l2ptp": "h9"}
        for fault, b in bads.items():
            for n in (1, 2, 3):
                goods = ["h3", "h6", "h7"][:n - 1]
                for pos in range(n):
                    ifs = goods[:pos] + [b] + goods[pos:]
                    if fault == "repeat" and "h3" not in goods:
                        ifs = ["h3", "h3"] if pos else ["h3"]
                        if len(ifs) == 1:
                            continue
                    st = "L2PTP" if fault == "shared-l2ptp" else ("L2STS" if n > 1 else "L2Bridge")
                    out.append(("add_service/%s@%d/%d" % (fault, pos, n),
                                pre + [{"op": "add_service", "name": "sx", "nstype": st, "ifs": ifs, "kw": []}]))
                    out.append(("add_link/%s@%d/%d" % (fault, pos, n),
                                pre + [{"op": "add_link", "name": "lx", "ltype": "L2Path", "ifs": ifs, "kw": []}]))
        out.append(("connect/connected", pre + [{"op": "connect", "svc": "h10", "if": "h4"}]))
        out.append(("connect/stale", pre + [{"op": "connect", "svc": "h10", "if": "h13"}]))
        out.append(("connect/bogus", pre + [{"op": "connect", "svc": "h10", "if": T.BOGUS}]))
        out.append(("add_service/dup-name", pre + [{"op": "add_service", "name": "pre", "nstype": "L2Bridge", "ifs": ["h3"], "kw": []}]))
        out.append(("ns_add_interface/stale-svc", pre + [{"op": "remove_service", "name": "pre"},
                                                          {"op": "ns_add_interface", "svc": "h10", "name": "ii", "itype": "TrunkPort", "kw": []}]))
        longn = "n" * 244       # ServicePort name 252 chars is valid, the derived link name (257) is not
        out.append(("connect/derived-link-name-too-long", [
            {"op": "add_node", "name": longn, "site": "RENC", "ntype": "VM", "kw": []},
            {"op": "add_component", "parent": "h0", "name": "nic1", "ctype": "SmartNIC", "model": "ConnectX-6", "kw": []},
            {"op": "add_service", "name": "s1", "nstype": "L2Bridge", "ifs": [], "kw": []},
            {"op": "connect", "svc": "h4", "if": "h2"}]))
        out.append(("add_service/derived-link-name-too-long", [
            {"op": "add_node", "name": longn, "site": "RENC", "ntype": "VM", "kw": []},
            {"op": "add_component", "parent": "h0", "name": "nic1", "ctype": "SmartNIC", "model": "ConnectX-6", "kw": []},
            {"op": "add_service", "name": "s1", "nstype": "L2Bridge", "ifs": ["h2"], "kw": []}]))
        out.append(("add_storage/dup-name", pre + [{"op": "add_storage", "parent": "h0", "name": "nic1", "kw": []}]))
    else:
        pre = base
        out.append(("add_component/dup-iface-id@0", pre + [
            {"op": "add_component", "parent": "h0", "name": "nicx", "nid": "cxid", "ctype": "SmartNIC", "model": "ConnectX-6",
             "ns_nid": "cxns", "if_nids": ["c1i1", "cxi2"], "n_labels": 2, "kw": []}]))
        out.append(("add_component/dup-iface-id@1", pre + [
            {"op": "add_component", "parent": "h0", "name": "nicx", "nid": "cxid", "ctype": "SmartNIC", "model": "ConnectX-6",
             "ns_nid": "cxns", "if_nids": ["cxi1", "c2i2"], "n_labels": 2, "kw": []}]))
        out.append(("add_component/repeat-iface-id", pre + [
            {"op": "add_component", "parent": "h0", "name": "nicx", "nid": "cxid", "ctype": "SmartNIC", "model": "ConnectX-6",
             "ns_nid": "cxns", "if_nids": ["cxi1", "cxi1"], "n_labels": 2, "kw": []}]))
        out.append(("add_component/dup-ns-id", pre + [
            {"op": "add_component", "parent": "h0", "name": "nicx", "nid": "cxid", "ctype": "SmartNIC", "model": "ConnectX-6",
             "ns_nid": "c1ns", "if_nids": ["cxi1", "cxi2"], "n_labels": 2, "kw": []}]))
        out.append(("add_component/short-ids", pre + [
            {"op": "add_component", "parent": "h0", "name": "nicx", "nid": "cxid", "ctype": "SmartNIC", "model": "ConnectX-6",
             "ns_nid": "cxns", "if_nids": ["cxi1"], "n_labels": 2, "kw": []}]))
        out.append(("add_link/stale", pre + [
            {"op": "remove_component", "parent": "h1", "name": "nic2"},
            {"op": "add_link", "name": "lx", "nid": "lxid", "ltype": "Patch", "ifs": ["h3", "h6"], "kw": []}]))
    out += extension_cases(flavour, base)
    out += c09_cases(flavour, base)
    out += collision_cases(flavour, base)
    out += loose_cases(flavour, base)
    out += backup_cases(flavour, base)
    # bad keyword at every position among good ones, for every creating call
    g = {"node": T.GOOD_KW["node"][:2], "comp": T.GOOD_KW["comp"][:2], "svc": T.GOOD_KW["svc"][:2], "iface": T.GOOD_KW["iface"][:2],
         "link": T.GOOD_KW["link"][:2]}
    for pos in range(3):
        def kw(kind):
            l = list(g[kind])
            l.insert(pos, T.BAD_KW[kind][1])
            return l
        out.append(("add_node/bad-prop@%d" % pos, pre + [{"op": "add_node", "name": "nx", "nid": nid("nxid"), "site": "RENC", "ntype": "Server", "kw": kw("node")}]))
        out.append(("add_component/bad-prop@%d" % pos, pre + [{"op": "add_component", "parent": "h1", "name": "gx", "nid": nid("gxid"),
                                                               "ctype": "GPU", "model": "RTX6000", "kw": kw("comp")}]))
        out.append(("add_service/bad-prop@%d" % pos, pre + [{"op": "add_service", "name": "sx", "nid": nid("sxid"), "nstype": "L2Bridge",
                                                             "ifs": ["h3"], "kw": kw("svc")}]))
        out.append(("add_link/bad-prop@%d" % pos, pre + [{"op": "add_link", "name": "lx", "nid": nid("lxid"), "ltype": "Patch",
                                                          "ifs": ["h3", "h6"], "kw": kw("link")}]))
        out.append(("set_props/bad-prop@%d" % pos, pre + [{"op": "set_props", "h": "h0", "kw": kw("node"), "single": False}]))
    # None / '' / wrong-typed values among the keywords, with one rejected keyword at every other position, on every
    # element kind (an implementation that unsets or writes the accepted ones first shows up here)
    if not sub:
        elems = pre + [{"op": "add_service", "name": "kwsvc", "nstype": "L2Bridge", "ifs": [], "kw": []},          # h15
                       {"op": "add_link", "name": "kwlink", "ltype": "L2Path", "ifs": ["h3", "h6"], "kw": []}]     # h16
        targets = [("node", "h0"), ("comp", "h2"), ("iface", "h3"), ("svc", "h15"), ("link", "h16")]
    else:
        elems = pre
        targets = [("node", "h0"), ("comp", "h2"), ("iface", "h3")]
    for kind, hk in targets:
        goodkw = []
        for x in T.GOOD_KW[kind]:
            if x[0] not in [y[0] for y in goodkw]:
                goodkw.append(x)
        goodkw = goodkw[:2]
        setup = elems + [{"op": "set_props", "h": hk, "kw": goodkw, "single": False}]
        nones = [[x[0], ["none"]] for x in goodkw]
        variants = {"none": nones, "none+empty": nones[:1] + [["details", ["str", ""]]],
                    "none+wrongtype": nones[:1] + [[goodkw[1][0], ["int", 5]]]}
        for vname, base in variants.items():
            for bad in T.BAD_KW[kind][:2]:
                if bad[0] in [b[0] for b in base]:
                    continue
                for pos in range(len(base) + 1):
                    kwl = list(base)
                    kwl.insert(pos, bad)
                    out.append(("set_props/%s/%s@%d/%s" % (kind, vname, pos, bad[0]),
                                setup + [{"op": "set_props", "h": hk, "kw": kwl, "single": False}]))
            out.append(("set_props/%s/%s/unset-twice" % (kind, vname),
                        setup + [{"op": "set_props", "h": hk, "kw": nones, "single": False},
                                 {"op": "set_props", "h": hk, "kw": nones + [T.BAD_KW[kind][1]], "single": False}]))
    for pos in range(2):
        kwn = [["capacities", ["none"]]]
        kwn.insert(pos, T.BAD_KW["node"][1])
        out.append(("add_node/none+bad@%d" % pos, pre + [{"op": "add_node", "name": "nz", "nid": nid("nzid"), "site": "RENC", "ntype": "Server", "kw": kwn}]))
        kws = [["labels", ["none"]]]
        kws.insert(pos, T.BAD_KW["svc"][1])
        out.append(("add_service/none+bad@%d" % pos, pre + [{"op": "add_service", "name": "sz", "nid": nid("szid"), "nstype": "L2Bridge", "ifs": ["h3"], "kw": kws}]))
        kwi = [["labels", ["none"]]]
        kwi.insert(pos, T.BAD_KW["iface"][0])
        out.append(("add_facility/none+bad@%d" % pos, pre + [{"op": "add_facility", "name": "fz", "nid": nid("fzid"), "site": "RENC", "kw": kwi}]))
    out.append(("add_node/dup-name", pre + [{"op": "add_node", "name": "n1", "nid": nid("zz"), "site": "RENC", "ntype": "Server", "kw": []}]))
    out.append(("add_component/dup-name", pre + [{"op": "add_component", "parent": "h0", "name": "nic1", "nid": nid("zz"), "ctype": "GPU", "model": "RTX6000", "kw": []}]))
    out.append(("add_component/unknown-model", pre + [{"op": "add_component", "parent": "h0", "name": "gx", "nid": nid("zz"), "ctype": "GPU", "model": "Nope", "kw": []}]))
    out.append(("add_node/dup-id", pre + [{"op": "add_node", "name": "nx", "nid": "n1id" if sub else None, "site": "RENC", "ntype": "Server", "kw": []}]))
    # composites
    for m in (1, 2, 3):
        ifs = [["fi%d" % j, ["lab", {"vlan": str(100 + j)}], ["cap", {"bw": 10}]] for j in range(m)]
        out.append(("add_facility/ids/%d" % m, pre + [{"op": "add_facility", "name": "fac", "nid": "facid", "site": "RENC", "ifs": ifs}]))
        for pos in range(m):
            bad = json.loads(json.dumps(ifs))
            bad[pos][2] = ["str", "fast"]
            out.append(("add_facility/bad-iface@%d/%d" % (pos, m), pre + [{"op": "add_facility", "name": "fac", "nid": nid("facid"), "site": "RENC", "ifs": bad}]))
    out.append(("add_facility/bad-kw", pre + [{"op": "add_facility", "name": "fac", "nid": nid("facid"), "site": "RENC", "kw": [T.BAD_KW["iface"][0]]}]))
    out.append(("add_facility/derived-ns-id-taken", pre + [
        {"op": "node_add_service", "parent": "h0", "name": "taken", "nid": "facid-ns", "nstype": "VLAN", "kw": []},
        {"op": "add_facility", "name": "fac", "nid": "facid", "site": "RENC", "kw": []}]))
    out.append(("add_switch/derived-int-id-taken", pre + [
        {"op": "add_switch", "name": "sw1", "nid": "swid", "site": "RENC", "nports": 2},
        {"op": "node_add_service", "parent": "h0", "name": "taken", "nid": "sw2id-int2", "nstype": "VLAN", "kw": []},
        {"op": "add_switch", "name": "sw2", "nid": "sw2id", "site": "RENC", "nports": 3}]))
    return out


def loose_cases(flavour, base):
    """bulk setters (and creating calls) that mix good properties with a value the sliver setter lets through without a type
    check (details / site / controller_url / ... given an int, float, bool, list, dict, tuple - found by probing the sliver
    classes, X.loose_props): the layers below meet a non-string value.  Whether such a call is accepted or refused, it must be
    so as a whole.  Per element kind and loose property one history: the loose keyword at every position among two good
    ones (two alternating sets, so every call has something to change), then with a sliver-rejected keyword as well."""
    sub = flavour.startswith("sub")
    nid = (lambda s: s) if sub else (lambda s: None)
    if not sub:
        elems = base + [{"op": "add_service", "name": "kwsvc", "nstype": "L2Bridge", "ifs": [], "kw": []},          # h10
                        {"op": "add_link", "name": "kwlink", "ltype": "L2Path", "ifs": ["h3", "h6"], "kw": []}]     # h11
        targets = [("node", "h0"), ("comp", "h2"), ("iface", "h3"), ("svc", "h10"), ("link", "h11")]
    else:
        elems = base
        targets = [("node", "h0"), ("comp", "h2"), ("iface", "h3")]
    alt = {"node": [[["capacities", ["cap", {"core": 16}]], ["tags", ["tags", ["blue"]]]], [["capacities", ["cap", {"core": 4}]], ["boot_script", ["str", "echo x"]]]],
           "comp": [[["labels", ["lab", {"bdf": "0000:41:00.1"}]], ["tags", ["tags", ["blue"]]]], [["labels", ["lab", {"bdf": "0000:41:00.2"}]], ["capacities", ["cap", {"unit": 2}]]]],
           "svc": [[["labels", ["lab", {"vlan": "300"}]], ["tags", ["tags", ["blue"]]]], [["labels", ["lab", {"vlan": "301"}]], ["capacities", ["cap", {"bw": 3}]]]],
           "iface": [[["capacities", ["cap", {"bw": 25}]], ["tags", ["tags", ["blue"]]]], [["capacities", ["cap", {"bw": 40}]], ["labels", ["lab", {"vlan": "201"}]]]],
           "link": [[["capacities", ["cap", {"bw": 7}]], ["tags", ["tags", ["blue"]]]], [["capacities", ["cap", {"bw": 9}]], ["labels", ["lab", {"vlan": "302"}]]]]}
    out = []
    for kind, hk in targets:
        for pname, vals in X.loose_props(kind):
            ops, j = list(elems), 0
            for vi, v in enumerate(vals):
                for pos in range(3):
                    if vi >= 3 and pos != vi % 3:
                        continue                # first three values at every position, the others at one each
                    kw = list(alt[kind][j % 2])
                    j += 1
                    kw.insert(pos, [pname, v])
                    ops.append({"op": "set_props", "h": hk, "kw": kw, "single": False})
            for pos in range(4):
                kw = list(alt[kind][j % 2])
                j += 1
                kw.insert(min(pos, 2), [pname, vals[pos % len(vals)]])
                kw.insert(pos, T.BAD_KW[kind][1])
                ops.append({"op": "set_props", "h": hk, "kw": kw, "single": False})
            ops.append({"op": "set_props", "h": hk, "kw": [[pname, vals[0]]]})             # set_property
            out.append(("loose/set_props/%s/%s" % (kind, pname), ops))
    # the same values through the creating calls
    lv = X.LOOSE_VALUES
    cr = list(base)
    for i, v in enumerate(lv[:4]):
        kw = [["capacities", ["cap", {"core": 2}]], ["details", v]]
        cr.append({"op": "add_node", "name": "ln%d" % i, "nid": nid("ln%did" % i), "site": "RENC", "ntype": "Server", "kw": kw[::-1] if i % 2 else kw})
        cr.append({"op": "add_component", "parent": "h1", "name": "lg%d" % i, "nid": nid("lg%did" % i), "ctype": "GPU", "model": "RTX6000",
                   "kw": [["details", lv[(i + 4) % len(lv)]], T.GOOD_KW["comp"][0]]})
        cr.append({"op": "add_service", "name": "ls%d" % i, "nid": nid("ls%did" % i), "nstype": "L2Bridge", "ifs": [],
                   "kw": [T.GOOD_KW["svc"][0], ["controller_url", v], ["details", lv[(i + 5) % len(lv)]]]})
        cr.append({"op": "add_node", "name": "lb%d" % i, "nid": nid("lb%did" % i), "site": "RENC", "ntype": "Server",
                   "kw": [["details", v], T.BAD_KW["node"][1]]})
    out.append(("loose/creating-calls", cr))
    return out


def backup_cases(flavour, base):
    """a second topology alive in the process that holds the same node ids (a copy kept before a modification: serialize + load
    under a new graph id, or clone_graph), then every call that takes a handle with a handle whose element was removed from the
    working topology - the id exists nowhere in this model but does exist in the process.  Each call must be refused with nothing
    written; the copy must not change either."""
    sub = flavour.startswith("sub")
    nid = (lambda s: s) if sub else (lambda s: None)
    out = []
    for how in ("load", "clone"):
        if not sub:
            pre = base + [
                {"op": "add_node", "name": "n3", "site": "RENC", "ntype": "VM", "kw": []},                                 # h10
                {"op": "add_component", "parent": "h10", "name": "nic3", "ctype": "SmartNIC", "model": "ConnectX-6", "kw": []},  # h11; h12 h13
                {"op": "add_service", "name": "sv", "nstype": "L2Bridge", "ifs": ["h4"], "kw": []},                      # h14
                {"op": "add_service", "name": "sw", "nstype": "L3VPN", "ifs": [], "kw": []},                             # h15
                {"op": "add_service", "name": "sx", "nstype": "L3VPN", "ifs": [], "kw": []},                             # h16
                {"op": "_backup", "how": how},
                {"op": "remove_node", "name": "n3"},
                {"op": "remove_service", "name": "sx"}]
            stale_if, stale_node, stale_comp, stale_svc, live_svc, peer_svc = "h12", "h10", "h11", "h16", "h14", "h15"
            goods = ["h3", "h6", "h7"]
            lt, st = "L2Path", "L2STS"
        else:
            pre = base + [
                {"op": "add_service", "name": "sv", "nid": "svid", "nstype": "L2Bridge", "ifs": [], "kw": []},             # h10
                {"op": "add_service", "name": "sx", "nid": "sxid", "nstype": "L2Bridge", "ifs": [], "kw": []},             # h11
                {"op": "_backup", "how": how},
                {"op": "remove_component", "parent": "h1", "name": "nic2"},
                {"op": "remove_service", "name": "sx"}]
            stale_if, stale_node, stale_comp, stale_svc, live_svc, peer_svc = "h6", None, "h5", "h11", "h10", "h10"
            goods = ["h3", "h4", "h9"]
            lt, st = "Patch", "L2Bridge"
        calls = []
        for n in (1, 2, 3):
            for pos in range(n):
                ifs = goods[:n - 1]
                ifs = ifs[:pos] + [stale_if] + ifs[pos:]
                calls.append({"op": "add_link", "name": "bl%d%d" % (n, pos), "nid": nid("bl%d%did" % (n, pos)), "ltype": lt, "ifs": ifs, "kw": []})
                if not sub:
                    calls.append({"op": "add_service", "name": "bs%d%d" % (n, pos), "nstype": st, "ifs": ifs, "kw": []})
                    calls.append({"op": "node_add_service", "parent": "h1", "name": "bo%d%d" % (n, pos), "nstype": "OVS", "ifs": ifs, "kw": []})
        calls += [{"op": "ns_add_interface", "svc": stale_svc, "name": "bi", "nid": nid("biid"), "itype": "TrunkPort", "kw": []},
                  {"op": "add_component", "parent": stale_node or "h1", "name": "bc", "nid": nid("bcid"), "ctype": "GPU", "model": "RTX6000", "kw": []},
                  {"op": "set_props", "h": stale_comp, "kw": [["details", ["str", "x"]], ["labels", ["lab", {"bdf": "0000:41:00.3"}]]], "single": False},
                  {"op": "set_props", "h": stale_if, "kw": [["details", ["str", "x"]]]},
                  {"op": "unset_prop", "h": stale_if, "pname": "details"},
                  {"op": "rename", "h": stale_comp, "name": "renamed"},
                  {"op": "update_labels", "h": stale_if, "fields": {"vlan": "9"}},
                  {"op": "update_capacities", "h": stale_comp, "fields": {"unit": 2}},
                  {"op": "remove_component", "parent": stale_node or "h1", "name": "nic3" if not sub else "nic2"}]
        if not sub:
            calls += [{"op": "connect", "svc": live_svc, "if": stale_if},
                      {"op": "connect", "svc": stale_svc, "if": "h3"},
                      {"op": "disconnect", "svc": live_svc, "if": stale_if},
                      {"op": "peer", "svc": peer_svc, "other": stale_svc, "kw": []},
                      {"op": "peer", "svc": stale_svc, "other": peer_svc, "kw": []},
                      {"op": "add_child_interface", "port": stale_if, "name": "bsub", "kw": [["labels", ["lab", {"vlan": "101"}]]]},
                      {"op": "add_port_mirror", "name": "bpm", "to": stale_if, "from_name": "nic1-p1", "from_vlan": "100", "direction": "RX_Only", "kw": []},
                      {"op": "add_storage", "parent": stale_node, "name": "bst", "kw": []}]
        out.append(("backup/%s/stale-handles" % how, pre + calls))
        # and the ordinary rejected calls with a copy alive: ids / names that are taken in this model AND in the copy
        out.append(("backup/%s/taken-ids" % how, pre + [
            {"op": "add_node", "name": "n1", "nid": nid("zz1"), "site": "RENC", "ntype": "Server", "kw": []},
            {"op": "add_node", "name": "bn", "nid": "n1id" if sub else None, "site": "RENC", "ntype": "Server", "kw": [T.BAD_KW["node"][1]]},
            {"op": "add_component", "parent": "h0", "name": "nic1", "nid": nid("zz2"), "ctype": "GPU", "model": "RTX6000", "kw": []},
            {"op": "add_link", "name": "bl", "nid": nid("zz3"), "ltype": lt, "ifs": [goods[0], T.BOGUS, goods[1]], "kw": []}]))
    return out


def collision_cases(flavour, base):
    """every call that writes a name (rename, set_property / set_properties(name=), `element.name = ...`, unset) with the name of
    another element of the same class (sibling in the same scope, and same class elsewhere) and of another class, on every kind
    of element.  The unchanged code accepts most of them (C07 lists the missing guards); whenever one raises - whatever the
    reason - the model must be what it was.  One call per history (an accepted one leaves same-named elements behind)."""
    sub = flavour.startswith("sub")
    I = (lambda s: s) if sub else (lambda s: None)
    svc = (lambda n, p, ifs: {"op": "node_add_service", "parent": p, "name": n, "nid": n + "id", "nstype": "OVS", "kw": []}) if sub else \
        (lambda n, p, ifs: {"op": "add_service", "name": n, "nstype": "L2Bridge", "ifs": ifs, "kw": []})
    pre = base + [
        svc("s1", "h0", ["h3"]),                                                                                      # h10
        svc("s2", "h1", []),                                                                                          # h11
        {"op": "add_link", "name": "l1", "nid": I("l1id"), "ltype": "L2Path", "ifs": ["h4", "h6"], "kw": []},         # h12
        {"op": "add_link", "name": "l2", "nid": I("l2id"), "ltype": "L2Path", "ifs": ["h7", "h9"], "kw": []},         # h13
        {"op": "ns_add_interface", "svc": "h10", "name": "ia", "nid": I("iaid"), "itype": "TrunkPort", "kw": []},     # h14
        {"op": "ns_add_interface", "svc": "h10", "name": "ib", "nid": I("ibid"), "itype": "TrunkPort", "kw": []},     # h15
    ]
    # handle -> (kind, [sibling / same-class name, name of another class])
    targets = {"node": ("h1", ["n1", "nic1"]), "link": ("h13", ["l1", "n1"]), "comp-sibling": ("h8", ["nic1", "n1"]),
               "comp-elsewhere": ("h5", ["nic1", "s1"]), "svc": ("h11", ["s1", "n1-nic1-l2ovs" if not sub else "l1"]),
               "iface": ("h15", ["ia", "l1"])}
    out = []
    for kind, (h, taken) in targets.items():
        for j, nm in enumerate(taken):
            w = "%s/%s" % (kind, "same-class" if j == 0 else "other-class")
            out.append(("collide/rename/" + w, pre + [{"op": "rename", "h": h, "name": nm}]))
            out.append(("oracle-only/collide/set_property-name/" + w, pre + [{"op": "set_props", "h": h, "kw": [["name", ["str", nm]]]}]))
            out.append(("oracle-only/collide/set_properties-name/" + w, pre + [
                {"op": "set_props", "h": h, "single": False, "kw": [["details", ["str", "d"]], ["name", ["str", nm]]]}]))
            out.append(("oracle-only/collide/attr-name/" + w, pre + [{"op": "set_attr", "h": h, "attr": "name", "val": ["str", nm]}]))
        out.append(("collide/unset-name/" + kind, pre + [{"op": "unset_prop", "h": h, "pname": "name"}]))
    return out


def extension_cases(flavour, base):
    """the second alphabet: sub-interfaces, peer/unpeer, port mirror, model_type= components"""
    out = []
    lab = lambda v: ["labels", ["lab", {"vlan": v}]]
    if flavour.startswith("sub"):
        pre = base
        out.append(("add_child_interface/sub/ok+dup-id", pre + [
            {"op": "add_child_interface", "port": "h3", "name": "sub1", "nid": "sub1id", "kw": [lab("101")]},
            {"op": "add_child_interface", "port": "h3", "name": "sub2", "nid": "c2i1", "kw": [lab("102")]},
            {"op": "add_child_interface", "port": "h3", "name": "sub3", "nid": None, "kw": [lab("103")]}]))
        out.append(("add_component_mt/sub/no-ids", pre + [
            {"op": "add_component_mt", "parent": "h0", "name": "mx", "nid": "mxid", "model_type": "SmartNIC_ConnectX_6", "kw": []},
            {"op": "add_component_mt", "parent": "h0", "name": "my", "nid": "myid", "model_type": "SmartNIC_ConnectX_6", "ctype": "SmartNIC",
             "model": "ConnectX-6", "kw": []},
            {"op": "add_component_mt", "parent": "h0", "name": "mz", "nid": "mzid", "model_type": "SmartNIC_ConnectX_6",
             "ns_nid": "mzns", "if_nids": ["mzi1", "c1i1"], "n_labels": 2, "kw": []}]))
        out.append(("peer/sub", pre + [
            {"op": "add_service", "name": "sa", "nid": "said", "nstype": "L2Bridge", "ifs": [], "kw": []},
            {"op": "add_service", "name": "sb", "nid": "sbid", "nstype": "L2Bridge", "ifs": [], "kw": []},
            {"op": "peer", "svc": "h10", "other": "h11", "kw": []}]))
        return out
    kids = base + [
        {"op": "add_child_interface", "port": "h3", "name": "sub1", "kw": [lab("101")]},                           # h10
        {"op": "add_child_interface", "port": "h3", "name": "sub2", "kw": [lab("102"), ["capacities", ["cap", {"bw": 1}]]]},  # h11
        {"op": "add_child_interface", "port": "h6", "name": "sub3", "kw": [lab("103")]},                           # h12
    ]
    for tag, op in (
            ("dup-name", {"port": "h3", "name": "sub1", "kw": [lab("109")]}),
            ("dup-vlan", {"port": "h3", "name": "subx", "kw": [lab("102")]}),
            ("no-labels", {"port": "h3", "name": "subx", "kw": []}),
            ("no-vlan", {"port": "h3", "name": "subx", "kw": [["labels", ["lab", {"local_name": "x"}]]]}),
            ("not-dedicated", {"port": "h9", "name": "subx", "kw": [lab("109")]}),
            ("bad-name", {"port": "h3", "name": "bad/name", "kw": [lab("109")]}),
            ("on-sub-interface", {"port": "h10", "name": "subx", "kw": [lab("109")]})):
        out.append(("add_child_interface/" + tag, kids + [dict(op, op="add_child_interface")]))
    for pos in range(3):
        kw = [lab("109"), ["capacities", ["cap", {"bw": 1}]]]
        kw.insert(pos, T.BAD_KW["iface"][1])
        out.append(("add_child_interface/bad-prop@%d" % pos, kids + [{"op": "add_child_interface", "port": "h3", "name": "subx", "kw": kw}]))
    out.append(("add_child_interface/stale-port", kids + [
        {"op": "remove_component", "parent": "h0", "name": "nic1"},
        {"op": "add_child_interface", "port": "h3", "name": "subx", "kw": [lab("109")]}]))
    out.append(("add_child_interface/stale-sibling", kids + [
        {"op": "_harvest", "h": "h2"},          # h13 h14: fresh handles on nic1's ports (their child lists are read now)
        {"op": "remove_child_interface", "port": "h13", "name": "sub1"},
        {"op": "add_child_interface", "port": "h3", "name": "subx", "kw": [lab("109")]}]))   # h3's list still names sub1
    out.append(("remove_child_interface/no-such", kids + [{"op": "remove_child_interface", "port": "h3", "name": "nope"}]))
    out.append(("remove_child_interface/connected", kids + [
        {"op": "add_service", "name": "sk", "nstype": "L2Bridge", "ifs": ["h10", "h12"], "kw": []},
        {"op": "remove_child_interface", "port": "h3", "name": "sub1"},
        {"op": "remove_child_interface", "port": "h3", "name": "sub1"},
        {"op": "remove_child_interface", "port": "h9", "name": "sub1"}]))
    # removals of carriers of sub-interfaces (every removal path goes through remove_cp_and_links)
    for tag, rm in (("remove_component", {"op": "remove_component", "parent": "h0", "name": "nic1"}),
                    ("remove_node", {"op": "remove_node", "name": "n1"}),
                    ):
        out.append(("children/" + tag, kids + [
            {"op": "add_service", "name": "sk", "nstype": "L2Bridge", "ifs": ["h10", "h7"], "kw": []}, rm,
            {"op": "add_service", "name": "sz", "nstype": "L2Bridge", "ifs": ["h10"], "kw": []}]))
    out.append(("children/remove_switch", base + [
        {"op": "add_switch", "name": "sw1", "site": "RENC", "nports": 2},                                         # h10; ports h11 h12
        {"op": "add_child_interface", "port": "h11", "name": "sub1", "kw": [lab("101")]},
        {"op": "add_child_interface", "port": "h11", "name": "sub2", "kw": [lab("102")]},
        {"op": "remove_switch", "name": "sw1"}]))
    out.append(("children/node_remove_service", base + [
        {"op": "add_switch", "name": "sw1", "site": "RENC", "nports": 2},                                         # h10; ports h11 h12
        {"op": "add_child_interface", "port": "h11", "name": "sub1", "kw": [lab("101")]},                          # h13
        {"op": "add_child_interface", "port": "h12", "name": "sub2", "kw": [lab("102")]},                          # h14
        {"op": "add_service", "name": "sk", "nstype": "L2Bridge", "ifs": ["h13", "h3"], "kw": []},
        {"op": "node_remove_service", "parent": "h10", "name": "sw1-ns"},
        {"op": "add_service", "name": "sz", "nstype": "L2Bridge", "ifs": ["h14"], "kw": []}]))
    mark = lambda h: {"op": "set_props", "h": h, "kw": [["reservation_info", ["rinfo", "Failed"]]]}
    out.append(("prune/nested-marks", kids + [
        {"op": "add_service", "name": "sk", "nstype": "L2Bridge", "ifs": ["h10", "h7"], "kw": []},               # h13
        {"op": "add_service", "name": "sq", "nstype": "L2Bridge", "ifs": ["h4"], "kw": []},                      # h14
        mark("h1"), mark("h2"), mark("h13"), mark("h12"), mark("h11"),
        {"op": "prune", "state": "Closed"},
        {"op": "prune", "state": "Failed"},
        {"op": "prune", "state": "Failed"}]))
    out.append(("prune/interfaces-only", kids + [
        {"op": "add_service", "name": "sk", "nstype": "L2Bridge", "ifs": ["h10", "h7"], "kw": []},
        mark("h10"), mark("h4"), {"op": "prune", "state": "Failed"}]))
    # peering
    two = base + [{"op": "add_service", "name": "sa", "nstype": "L3VPN", "ifs": ["h3"], "kw": []},                 # h10
                  {"op": "add_service", "name": "sb", "nstype": "L3VPN", "ifs": [], "kw": []},                      # h11
                  {"op": "add_service", "name": "sc", "nstype": "L3VPN", "ifs": [], "kw": []}]                      # h12
    out.append(("peer/ok-twice-unpeer", two + [
        {"op": "peer", "svc": "h10", "other": "h11", "kw": [["labels", ["lab", {"vlan": "300"}]]]},
        {"op": "peer", "svc": "h10", "other": "h11", "kw": []},
        {"op": "peer", "svc": "h11", "other": "h10", "kw": []},
        {"op": "unpeer", "svc": "h12", "other": "h10"},
        {"op": "unpeer", "svc": "h11", "other": "h10"},
        {"op": "unpeer", "svc": "h11", "other": "h10"}]))
    out.append(("peer/bogus", two + [{"op": "peer", "svc": "h10", "other": T.BOGUS, "kw": []},
                                     {"op": "unpeer", "svc": "h10", "other": T.BOGUS}]))
    out.append(("peer/stale-other", two + [{"op": "remove_service", "name": "sb"}, {"op": "peer", "svc": "h10", "other": "h11", "kw": []}]))
    out.append(("peer/stale-self", two + [{"op": "remove_service", "name": "sa"}, {"op": "peer", "svc": "h10", "other": "h11", "kw": []}]))
    out.append(("peer/other-has-that-name", two + [
        {"op": "ns_add_interface", "svc": "h11", "name": "sb-sa", "itype": "TrunkPort", "kw": []},
        {"op": "_fresh", "kind": "svc", "name": "sb"},                                                            # h14: lists sb-sa
        {"op": "peer", "svc": "h10", "other": "h14", "kw": []}]))
    for pos in range(2):
        kw = [["capacities", ["cap", {"bw": 1}]]]
        kw.insert(pos, T.BAD_KW["iface"][0] if pos else T.BAD_KW["iface"][1])
        out.append(("peer/bad-prop@%d" % pos, two + [{"op": "peer", "svc": "h10", "other": "h11", "kw": kw}]))
    out.append(("unpeer/stale-own-port", two + [
        {"op": "peer", "svc": "h10", "other": "h11", "kw": []},
        {"op": "remove_link", "name": "sa-sb-link"},
        {"op": "unpeer", "svc": "h10", "other": "h11"}]))
    # port mirror
    pm = {"op": "add_port_mirror", "name": "pm1", "to": "h6", "from_name": "nic1-p1", "from_vlan": "100", "direction": "RX_Only", "kw": []}
    out.append(("add_port_mirror/ok+dup", two + [pm, dict(pm, to="h7")]))
    for tag, ch in (("no-to", {"to": None}), ("no-from", {"from_name": None}), ("empty-from", {"from_name": ""}), ("connected", {"to": "h3"}),
                    ("bogus", {"to": T.BOGUS}), ("shared-port", {"to": "h9"})):
        out.append(("add_port_mirror/" + tag, two + [dict(pm, **ch)]))
    for pos in range(3):
        kw = list(T.GOOD_KW["svc"][:2])
        kw.insert(pos, T.BAD_KW["svc"][1])
        out.append(("add_port_mirror/bad-prop@%d" % pos, two + [dict(pm, kw=kw)]))
    out.append(("add_port_mirror/stale-to", two + [{"op": "remove_node", "name": "n2"}, pm]))
    # model_type= components
    out.append(("add_component_mt/ok+dup-name", base + [
        {"op": "add_component_mt", "parent": "h1", "name": "mx", "model_type": "FPGA_Xilinx_U280", "kw": []},
        {"op": "add_component_mt", "parent": "h1", "name": "mx", "model_type": "GPU_RTX6000", "kw": []},
        {"op": "add_component_mt", "parent": "h1", "name": "my", "model_type": "GPU_RTX6000", "ctype": "SmartNIC", "model": "Nope", "kw": []}]))
    for pos in range(3):
        kw = list(T.GOOD_KW["comp"][:2])
        kw.insert(pos, T.BAD_KW["comp"][1])
        out.append(("add_component_mt/bad-prop@%d" % pos, base + [{"op": "add_component_mt", "parent": "h1", "name": "mx",
                                                                   "model_type": "SmartNIC_ConnectX_5", "kw": kw}]))
    return out


def c09_cases(flavour, base):
    """argument positions and calls of lib_topoc09: composites' labels / capacities / service type, a node's service with
    interfaces, update_labels / update_capacities, attribute assignment, removals by the wrong call, and the states in which
    an interface has two ServicePort peers"""
    out = []
    sub = flavour.startswith("sub")
    nid = (lambda s: s) if sub else (lambda s: None)
    lab = lambda d: ["lab", d]
    sw = {"op": "add_switch", "name": "swx", "nid": nid("swxid"), "site": "RENC", "nports": 2}
    out.append(("add_switch/x/ok", base + [dict(sw, nslabels=lab({"vlan": "210"}), portlabels=lab({"local_name": "px"}), portcaps=["cap", {"bw": 25}])]))
    for tag, ch in (("bad-nslabels-int", {"nslabels": ["int", 5]}), ("bad-nslabels-cap", {"nslabels": ["cap", {"bw": 1}]}),
                    ("bad-portlabels-str", {"portlabels": ["str", "x"]}), ("bad-portlabels-cap", {"portlabels": ["cap", {"bw": 1}]}),
                    ("bad-portcaps-str", {"portcaps": ["str", "fast"]}), ("bad-portcaps-lab", {"portcaps": lab({"vlan": "1"})}),
                    ("good-ns+bad-port", {"nslabels": lab({"vlan": "210"}), "portcaps": ["str", "fast"]}),
                    ("no-nstype", {"nstype_none": True})):
        out.append(("add_switch/x/" + tag, base + [dict(sw, **ch)]))
    out.append(("add_switch/x/derived-ns-id-taken", base + [
        {"op": "node_add_service", "parent": "h0", "name": "taken", "nid": "swyid-ns", "nstype": "VLAN", "kw": []},
        {"op": "add_switch", "name": "swy", "nid": "swyid", "site": "RENC", "nports": 2}]))
    out.append(("add_switch/x/derived-ns-id-taken+labels", base + [
        {"op": "node_add_service", "parent": "h0", "name": "taken", "nid": "swyid-ns", "nstype": "VLAN", "kw": []},
        {"op": "add_switch", "name": "swy", "nid": "swyid", "site": "RENC", "nports": 2, "nslabels": lab({"vlan": "5"})}]))
    fac = {"op": "add_facility", "name": "facx", "nid": nid("facxid"), "site": "RENC"}
    out.append(("add_facility/x/ok", base + [dict(fac, nslabels=lab({"vlan": "220"}), kw=[["capacities", ["cap", {"bw": 1}]]])]))
    for tag, ch in (("bad-nslabels-str", {"nslabels": ["str", "x"]}), ("bad-nslabels-cap", {"nslabels": ["cap", {"bw": 1}]}),
                    ("no-nstype", {"nstype_none": True}),
                    ("good-ns+bad-iface", {"nslabels": lab({"vlan": "220"}), "ifs": [["fa", lab({"vlan": "1"}), ["cap", {"bw": 1}]], ["fb", ["str", "v"], ["cap", {"bw": 1}]]]})):
        out.append(("add_facility/x/" + tag, base + [dict(fac, **ch)]))
    # update_labels / update_capacities, attribute assignment: a good one, then a bad field among good ones, on every kind
    if not sub:
        elems = base + [{"op": "add_service", "name": "kwsvc", "nstype": "L2Bridge", "ifs": [], "kw": []},          # h10
                        {"op": "add_link", "name": "kwlink", "ltype": "L2Path", "ifs": ["h3", "h6"], "kw": []}]     # h11
        targets = [("node", "h0"), ("comp", "h2"), ("iface", "h3"), ("svc", "h10"), ("link", "h11")]
    else:
        elems = base
        targets = [("node", "h0"), ("comp", "h2"), ("iface", "h3")]
    for kind, hk in targets:
        for which in ("labels", "capacities"):
            ops = list(elems)
            for f in X.UPD_GOOD[which][:2]:
                ops.append({"op": "update_" + which, "h": hk, "fields": f})
            for f in X.UPD_BAD[which]:
                ops.append({"op": "update_" + which, "h": hk, "fields": f})
            out.append(("update_%s/%s" % (which, kind), ops))
        ops = list(elems)
        for attr in X.SIMPLE_ATTRS[kind]:
            ops += [{"op": "set_attr", "h": hk, "attr": attr, "val": X.ATTR_GOOD[attr]}]
            if attr in X.ATTR_BAD:
                ops += [{"op": "set_attr", "h": hk, "attr": attr, "val": X.ATTR_BAD[attr]}]
            ops += [{"op": "set_attr", "h": hk, "attr": attr, "val": ["none"]},
                    {"op": "set_attr", "h": hk, "attr": attr, "val": ["none"]}]
        out.append(("set_attr/%s" % kind, ops))
    out.append(("update_labels/stale-handle", base + [
        {"op": "remove_component", "parent": "h1", "name": "nic2"},
        {"op": "update_labels", "h": "h5", "fields": {"vlan": "9"}},
        {"op": "update_capacities", "h": "h6", "fields": {"bogus": 1}}]))
    out.append(("oracle-only/set_attr/image", base + [
        {"op": "set_props", "h": "h0", "kw": [["image_ref", ["str", "img0"]], ["image_type", ["str", "qcow2"]]], "single": False},
        {"op": "set_attr", "h": "h0", "attr": "image_ref", "val": ["int", 5]},          # rejected with a stored pair in place
        {"op": "set_attr", "h": "h0", "attr": "image_type", "val": ["int", 5]},
        {"op": "set_attr", "h": "h0", "attr": "image_ref", "val": ["str", "img1"]},
        {"op": "set_attr", "h": "h0", "attr": "image_type", "val": ["str", "qcow2"]},
        {"op": "set_attr", "h": "h0", "attr": "image_ref", "val": ["str", "img2"]},
        {"op": "set_attr", "h": "h0", "attr": "image_ref", "val": ["int", 5]},
        {"op": "set_attr", "h": "h0", "attr": "image_type", "val": ["int", 5]},
        {"op": "set_attr", "h": "h0", "attr": "image_ref", "val": ["none"]},
        {"op": "set_attr", "h": "h0", "attr": "image_type", "val": ["none"]}]))
    goodl = [["lab", {"bdf": "0000:41:00.%d" % j, "mac": "0C:42:A1:EA:C7:5%d" % j}] for j in range(2)]
    compl = {"op": "add_component", "parent": "h0", "name": "nicl", "nid": "clid", "ctype": "SmartNIC", "model": "ConnectX-6",
             "ns_nid": "clns", "if_nids": ["cli1", "cli2"], "kw": []}
    out.append(("oracle-only/add_component/interface_labels/ok", base + [dict(compl, if_labels=goodl)]))
    for pos in range(2):
        for tag, badv in (("str", ["str", "x"]), ("cap", ["cap", {"bw": 1}]), ("none", ["none"])):
            ll = list(goodl)
            ll[pos] = badv
            out.append(("oracle-only/add_component/interface_labels/bad-%s@%d" % (tag, pos), base + [dict(compl, if_labels=ll)]))
    out.append(("oracle-only/add_component/interface_labels/short", base + [dict(compl, if_labels=goodl[:1])]))
    out.append(("oracle-only/add_component/interface_labels/good+taken-id", base + [
        dict(compl, if_labels=goodl, if_nids=["cli1", "c2i1" if sub else "cli1"])]))
    out.append(("oracle-only/add_node/ns_info-taken-id", base + [
        {"op": "add_node_nsinfo", "name": "nq", "nid": "nqid", "ns_nid": "freeid"},
        {"op": "add_node_nsinfo", "name": "nr", "nid": "nrid", "ns_nid": "nqid"}]))
    if sub:
        return out
    # a node's own service created with interfaces (the constructor's rollback, with a parent)
    pre = base + [{"op": "add_service", "name": "pre", "nstype": "L2Bridge", "ifs": ["h4"], "kw": []}]               # h10
    for fault, b in (("bogus", T.BOGUS), ("connected", "h4"), ("repeat", "h3")):
        for n in (1, 2, 3):
            goods = ["h3", "h6", "h7"][:n - 1]
            for pos in range(n):
                if fault == "repeat" and "h3" not in goods:
                    continue
                ifs = goods[:pos] + [b] + goods[pos:]
                out.append(("node_add_service/ifs/%s@%d/%d" % (fault, pos, n), pre + [
                    {"op": "node_add_service", "parent": "h1", "name": "own", "nstype": "OVS", "ifs": ifs, "kw": []}]))
    # removal by the wrong call, on a node that has a connected interface and a connected sub-interface
    wrong = base + [
        {"op": "add_child_interface", "port": "h3", "name": "sub1", "kw": [["labels", ["lab", {"vlan": "101"}]]]},     # h10
        {"op": "add_service", "name": "sk", "nstype": "L2Bridge", "ifs": ["h10", "h4", "h7"], "kw": []},              # h11
        {"op": "add_switch", "name": "sw1", "site": "RENC", "nports": 2},                                            # h12; h13 h14
        {"op": "add_facility", "name": "fac1", "site": "RENC", "kw": []},                                            # h15; h16
        {"op": "add_service", "name": "sf", "nstype": "L2STS", "ifs": ["h13", "h16"], "kw": []}]
    out.append(("node_remove_service/no-such-name", wrong + [{"op": "node_remove_service", "parent": "h0", "name": "nope"},
                                                             {"op": "node_remove_service", "parent": "h12", "name": "nope"},
                                                             {"op": "remove_component", "parent": "h0", "name": "nope"}]))
    for call, name in (("remove_facility", "n1"), ("remove_switch", "n1"), ("remove_facility", "sw1"), ("remove_switch", "fac1"),
                       ("remove_node", "fac1"), ("remove_facility", "nope"), ("remove_switch", "nope")):
        out.append(("%s/wrong-type/%s" % (call, name), wrong + [{"op": call, "name": name}]))
    # an interface with two ServicePort peers (add_link accepts a ServicePort of another service): every caller of
    # _disconnect_interfaces then raises after the interfaces before it were disconnected - known findings.
    # Which interface is visited first comes from a set of the store's internal ids, so the loss is made independent of it
    # where the code allows: a connected port is always visited before its own sub-interface (`for ii in (i, *i.interface_list)`).
    two = base + [
        {"op": "add_child_interface", "port": "h3", "name": "sub1", "kw": [["labels", ["lab", {"vlan": "101"}]]]},     # h10
        {"op": "add_service", "name": "sa", "nstype": "L2Bridge", "ifs": ["h3", "h10"], "kw": []},                    # h11 (p2 stays free)
        {"op": "add_service", "name": "sb", "nstype": "L2Bridge", "ifs": [], "kw": []},                              # h12
        {"op": "ns_add_interface", "svc": "h12", "name": "bx", "itype": "ServicePort", "kw": []},                     # h13
        {"op": "add_link", "name": "lx", "ltype": "L2Path", "ifs": ["h10", "h13"], "kw": []}]                         # sub1: 2 peers
    mark = lambda h: {"op": "set_props", "h": h, "kw": [["reservation_info", ["rinfo", "Failed"]]]}
    for tag, rm in (("remove_node", [{"op": "remove_node", "name": "n1"}]),
                    ("remove_component", [{"op": "remove_component", "parent": "h0", "name": "nic1"}]),
                    ("remove_child_interface", [{"op": "remove_child_interface", "port": "h3", "name": "sub1"}]),   # one interface: atomic
                    ("prune", [mark("h0"), {"op": "prune", "state": "Failed"}])):
        out.append(("multi-sp-peer/" + tag, two + rm))
    sws = base + [
        {"op": "add_switch", "name": "sw1", "site": "RENC", "nports": 2},                                            # h10; h11 h12
        {"op": "add_child_interface", "port": "h11", "name": "sub1", "kw": [["labels", ["lab", {"vlan": "101"}]]]},    # h13
        {"op": "add_service", "name": "sa", "nstype": "L2Bridge", "ifs": ["h11", "h13"], "kw": []},                   # h14
        {"op": "add_service", "name": "sb", "nstype": "L2Bridge", "ifs": [], "kw": []},                              # h15
        {"op": "ns_add_interface", "svc": "h15", "name": "bx", "itype": "ServicePort", "kw": []},                     # h16
        {"op": "add_link", "name": "lx", "ltype": "L2Path", "ifs": ["h13", "h16"], "kw": []}]
    for tag, rm in (("remove_switch", {"op": "remove_switch", "name": "sw1"}),
                    ("node_remove_service", {"op": "node_remove_service", "parent": "h10", "name": "sw1-ns"})):
        out.append(("multi-sp-peer/" + tag, sws + [rm]))
    # FacilityPorts and a service's own ports have no sub-interfaces: the loss depends on which of two interfaces is visited
    # first.  Both assignments are run (exactly one of them loses the other interface's connection); oracle only.
    for swap in (0, 1):
        one, dbl = ("h12", "h13") if swap == 0 else ("h13", "h12")
        facs = base + [
            {"op": "add_facility", "name": "fac1", "site": "RENC", "ifs": [["fa", ["lab", {"vlan": "1"}], ["cap", {"bw": 1}]],
                                                                            ["fb", ["lab", {"vlan": "2"}], ["cap", {"bw": 1}]]]},  # h10; h11 h12?
        ]
        # handles: h10 = fac1, then its ports in harvest order h11 h12
        one, dbl = ("h11", "h12") if swap == 0 else ("h12", "h11")
        facs += [
            {"op": "add_service", "name": "sa", "nstype": "L2STS", "ifs": [one, dbl], "kw": []},                      # h13
            {"op": "add_service", "name": "sb", "nstype": "L2Bridge", "ifs": [], "kw": []},                          # h14
            {"op": "ns_add_interface", "svc": "h14", "name": "bx", "itype": "ServicePort", "kw": []},                 # h15
            {"op": "add_link", "name": "lx", "ltype": "L2Path", "ifs": [dbl, "h15"], "kw": []},
            {"op": "remove_facility", "name": "fac1"}]
        out.append(("oracle-only/multi-sp-peer/remove_facility/%d" % swap, facs))
        one, dbl = ("h11", "h12") if swap == 0 else ("h12", "h11")
        tops = base + [
            {"op": "add_service", "name": "so", "nstype": "L2Bridge", "ifs": [], "kw": []},                          # h10
            {"op": "ns_add_interface", "svc": "h10", "name": "o1", "itype": "TrunkPort", "kw": []},                   # h11
            {"op": "ns_add_interface", "svc": "h10", "name": "o2", "itype": "TrunkPort", "kw": []},                   # h12
            {"op": "add_service", "name": "sb", "nstype": "L2Bridge", "ifs": [], "kw": []},                          # h13
            {"op": "ns_add_interface", "svc": "h13", "name": "b1", "itype": "ServicePort", "kw": []},                 # h14
            {"op": "ns_add_interface", "svc": "h13", "name": "b2", "itype": "ServicePort", "kw": []},                 # h15
            {"op": "ns_add_interface", "svc": "h13", "name": "b3", "itype": "ServicePort", "kw": []},                 # h16
            {"op": "add_link", "name": "l1", "ltype": "L2Path", "ifs": [one, "h14"], "kw": []},
            {"op": "add_link", "name": "l2", "ltype": "L2Path", "ifs": [dbl, "h15"], "kw": []},
            {"op": "add_link", "name": "l3", "ltype": "L2Path", "ifs": [dbl, "h16"], "kw": []},
            {"op": "remove_service", "name": "so"}]
        out.append(("oracle-only/multi-sp-peer/remove_service/%d" % swap, tops))
    return out


def corpus_cases():
    out = []
    for fn in sorted(glob.glob(os.path.join(CORPUS, "*.json"))):
        with open(fn) as f:
            c = json.load(f)
        out.append((os.path.basename(fn), c["flavour"], c["ops"]))
    return out


def nontrivial(steps, i):
    st = steps[i]
    ok_before = sum(1 for s in steps[:i] if s["outcome"][0] == "ok")
    return st["outcome"][0] == "err" and ok_before >= 1


# --------------------------------------------------------------------------

def compare_with_model(steps_by_history, res):
    """Pipe every history through the Lean driver and compare call by call."""
    lines, index = [], []
    for hi, steps in enumerate(steps_by_history):
        lines.append(json.dumps({"op": "reset"}))
        index.append(None)
        for si, st in enumerate(steps):
            if st["op"]["op"] in HYP_OPS and st["line"] is not None:
                lines.append(json.dumps({"op": "hyp"}))
                index.append(("hyp", hi, si))
            if st["line"] is None:
                continue
            lines.append(T.lean_line(st["line"]))
            index.append((hi, si))
    replies = LeanDriver("C09").run(lines)
    order_dep = set()        # (history, step): a caller of _disconnect_interfaces in a state where an interface has two ServicePort peers
    diverged = set()         # histories not compared any further (see below)
    for ix, rep in zip(index, replies):
        if ix is None:
            continue
        if ix[0] != "hyp" and ix[0] in diverged:
            res.count("not-compared:after-order-dependent-raise")
            continue
        if ix[0] == "hyp":
            # the decidable state hypotheses of atomic_op / atomic_xop, evaluated by the driver in the state before the call
            st = steps_by_history[ix[1]][ix[2]]
            v = json.loads(rep)[1]
            need = HYP_OPS[st["op"]["op"]]
            holds = all(v[k] for k in need)
            res.count("guard:%s:%s" % (st["op"]["op"], "holds" if holds else "fails:" + "+".join(k for k in need if not v[k])))
            if st["op"]["op"] in DETACH_OPS and not v.get("spPeer1", True):
                order_dep.add((ix[1], ix[2]))
            if holds and st["outcome"][0] == "err" and st["before"] != st["after"]:
                # an instance of the theorem: guard held, call raised, yet the implementation's model changed
                res.disagreements.append({"case": {"history": ix[1], "step": ix[2], "line": st["line"], "ops": st["history"]},
                                          "impl": "state hypotheses of atomic_op hold in the model state, the call raised and the model changed",
                                          "model": v})
            continue
        st = steps_by_history[ix[0]][ix[1]]
        m_out, m_snap = T.parse_reply(rep)
        i_out = st["outcome"]
        res.evaluations += 1
        if (ix[0], ix[1]) in order_dep and (i_out[:2] == ["err", "topology"] or m_out[:2] == ["err", "topology"]):
            # the code reports "more than one peer" at the interface it happens to visit (a set of the store's internal ids decides
            # which one comes first); the model visits in storage order.  What was disconnected before the raise may differ:
            # compare the outcome only and leave the rest of this history to the oracle.
            res.count("order-dependent:" + st["op"]["op"])
            if i_out[:2] != m_out[:2]:
                res.disagreements.append({"case": {"history": ix[0], "step": ix[1], "line": st["line"], "ops": st["history"]},
                                          "impl": {"outcome": {"impl": i_out[:2], "model": m_out[:2]}}, "model": "see impl"})
            diverged.add(ix[0])
            continue
        res.count("op:" + st["op"]["op"])
        res.count("outcome:" + (i_out[0] if i_out[0] == "ok" else "err:" + i_out[1]))
        if "fault" in st["op"]:
            res.count("fault:" + st["op"]["fault"])
        ca = st["cache_after"]
        impl = {"outcome": i_out[:2], "cache": T.canon_cache(ca[0] if i_out[0] == "ok" and ca else (i_out[2] if i_out[0] == "ok" else None)),
                "cache2": T.canon_cache(ca[1]) if i_out[0] == "ok" and ca and len(ca) > 1 else None,
                "snap": st["after"]}
        model = {"outcome": m_out[:2], "cache": T.canon_cache(m_out[2]) if m_out[0] == "ok" else None,
                 "cache2": T.canon_cache(m_out[3]) if m_out[0] == "ok" and len(m_out) > 3 else None, "snap": m_snap}
        if i_out[0] == "ok" and impl["cache"] is None:
            model["cache"] = None
        if i_out[0] == "ok" and impl["cache2"] is None:
            model["cache2"] = None
        if impl != model:
            d = {k: {"impl": impl[k], "model": model[k]} for k in impl if impl[k] != model[k]}
            if "snap" in d:
                a, r, ea, er = T.snap_diff(model["snap"] or {"nodes": [], "edges": []}, impl["snap"])
                d["snap"] = {"impl_only_nodes": a, "model_only_nodes": r, "impl_only_edges": ea, "model_only_edges": er}
            res.disagreements.append({"case": {"history": ix[0], "step": ix[1], "line": st["line"], "flavour": st.get("flavour"),
                                               "ops": st["history"]},
                                      "impl": d, "model": "see impl"})
        if nontrivial(steps_by_history[ix[0]], ix[1]):
            res.nontrivial.add(canon([st["op"]["op"], st["op"].get("fault"), i_out[1], len(st["op"].get("ifs") or [])]))


def order_table(res):
    """hypothesis of C09.order_discipline, evaluated by the Lean driver on the write-order table generated in this run"""
    rep = json.loads(LeanDriver("C09").run([json.dumps({"op": "order"})])[0])
    v = rep[1] if rep and rep[0] == "ok" else {"ok": False, "bad": [["driver", str(rep)[:200]]]}
    res.count("order-table:" + ("in-order" if v["ok"] else "changed"))
    if not v["ok"]:
        res.disagreements.append({"case": {"write-order-table": v["bad"]},
                                  "impl": "these building functions are neither single-write nor of the shape pinned in Proofs/C09.lean "
                                          "(pinnedOrder): a step that can raise now follows a write, or a rollback construct changed",
                                  "model": "orderOk = false"})
    return v["ok"]


def correspondence(ctx, res):
    order_table(res)
    hs = []
    for name, fl, ops in corpus_cases():
        hs.append(run_history(fl, ops))
    for fl in ctx.scale(("exp+d", "sub"), ("exp", "sub", "exp+d", "sub+d")):
        for tag, ops in systematic_cases(fl):
            if not tag.startswith("oracle-only/"):
                hs.append(run_history(fl, ops))
    n = ctx.scale(36, 230)
    for i in range(n):
        fl = stream_flavour(i)
        hs.append(random_history(ctx, "corr/%d" % i, fl, ctx.scale(25, 40), 0.3, ext=(i % 2 == 1)))
    compare_with_model(hs, res)
    for h in hs[-2:]:
        if h:
            res.sample({"line": h[-1]["line"], "impl": h[-1]["outcome"][:2]})


def oracle(ctx, res, budget=None):
    seen_known = set()

    def run_case(label, fl, ops):
        steps = run_history(fl, ops)
        for i, st in enumerate(steps):
            res.evaluations += 1
            if st["outcome"][0] == "err":
                res.count("failing:" + st["op"]["op"] + ":" + st["outcome"][1])
                if nontrivial(steps, i):
                    res.nontrivial.add(canon([label.split("@")[0], st["op"]["op"], st["outcome"][1]]))
            check_step(st, res, {"flavour": fl, "ops": steps[i]["history"], "label": label})
    for name, fl, ops in corpus_cases():
        run_case("corpus:" + name, fl, ops)
    for fl in ctx.scale(("exp", "sub+d"), ("exp", "sub", "exp+d", "sub+d")):       # correspondence() runs the other two in the quick tier
        for tag, ops in systematic_cases(fl):
            run_case(tag, fl, ops)
    n = budget or ctx.scale(50, 350)
    for i in range(n):
        fl = stream_flavour(i)
        rng = ctx.sub_rng("oracle/%d" % i)
        names = T.Names(rng)
        sess_ops = []

        def gen(sess):
            b = maybe_backup(rng, sess)
            if b is not None:
                return b
            op = X.loosen(rng, sess, X.gen_op_x(rng, sess, names, 0.45, ext=(i % 4 in (1, 2)), oracle_only=True), p=0.08)
            # the snapshot is taken before EVERY call: names / ids that collide with what the model holds go into creating calls,
            # rename, set_property / set_properties(name=) and the attribute assignment `element.name = ...`
            op = T.collide(rng, sess, op, p_name=0.35, p_id=0.06, set_name=True)
            sess_ops.append(op)
            return op
        steps = run_history(fl, gen, nmax=ctx.scale(25, 40))
        for j, st in enumerate(steps):
            res.evaluations += 1
            if st["outcome"][0] == "err":
                res.count("failing:" + st["op"]["op"] + ":" + st["outcome"][1])
                if nontrivial(steps, j):
                    res.nontrivial.add(canon([st["op"]["op"], st["op"].get("fault"), st["outcome"][1]]))
            res.count("backend:" + ("disjoint" if fl.endswith("+d") else "shared"))
            if "collide" in st["op"]:
                res.count("collide:%s:%s:%s" % (st["op"]["collide"], st["op"]["op"], "ok" if st["outcome"][0] == "ok" else st["outcome"][1]))
            if "loose" in st["op"]:
                res.count("loose-value:%s:%s:%s" % (st["op"]["op"], st["op"]["loose"], "ok" if st["outcome"][0] == "ok" else st["outcome"][1]))
            if st.get("others_before"):
                res.count("copies-alive:%d:%s" % (len(st["others_before"]), "ok" if st["outcome"][0] == "ok" else "err"))
            check_step(st, res, {"flavour": fl, "ops": steps[j]["history"], "label": "random"})
    res.sample({"oracle": "snapshot(before) == snapshot(after) and cache unchanged for every raising call", "histograms": dict(list(res.hist.items())[:8])})


def search(ctx, res, broken):
    # first: the cases on which implementation and model differed, through the property oracle itself
    for link, detail in broken:
        if link != "correspondence" or not isinstance(detail, list):
            continue
        for d in detail:
            case = d.get("case") or {}
            ops = case.get("ops")
            if not ops:
                continue
            fl = "sub" if (case.get("line") or {}).get("fl") == "sub" else "exp"
            fl = case.get("flavour") or fl
            try:
                steps = run_history(fl, ops)
            except Exception:
                continue
            for i, st in enumerate(steps):
                res.evaluations += 1
                check_step(st, res, {"flavour": fl, "ops": steps[i]["history"], "label": "correspondence-difference"})
    if res.violations:
        return
    oracle(ctx, res, budget=ctx.scale(600, 4000))


def replay(ctx, payload):
    c = payload["case"]
    r = core.Result()
    steps = run_history(c["flavour"], c["ops"])
    if not steps:
        return False
    check_step(steps[-1], r, c)
    for v in r.violations:
        print("  ", v["signature"], v["what"])
        print("   observed:", json.dumps(v.get("observed"))[:1500])
    return bool(r.violations)
