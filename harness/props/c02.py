"""C02 - sliver <-> graph / dictionary / JSON conversion preserves every settable field; set/get/unset on elements."""
import json
import os

from core import LeanDriver, err_kind, canon, CORPUS_DIR
from gen import slivermap
from gen import fields as genfields

ID = "C02"


# Generated/Fields.lean (C03's class tables of the JSONField classes: members, defaults, what to_json drops) is what the
# rich value model of C02 (`Model/SliverRich.lean`) encodes / decodes structured property values with: regenerate it in a
# C02 run too, so that a changed codec helper module reaches C02's theorems (`flags_never_absent` needs `drop := .keepAll`)
# (registered under the extractor's own name `fields.generate`, which gen/baseline/owners.json knows: an unrecognised source
# shape falls back to the baseline Fields.lean, and correspondence + oracle decide)
GENERATORS = [slivermap.generate, genfields.generate]
LEAN_MODULES = ["FimVerif.Proofs.C02", "FimVerif.Proofs.Lemmas.C02Codec", "FimVerif.Proofs.Lemmas.C02Rich"]
P = "FimVerif.C02."
THEOREMS = [P + t for t in (
    "tables_ok", "props_roundtrip_partial", "props_roundtrip_counterexample", "settable_rebuilt",
    "set_get", "set_frame", "unset_get", "unset_identity_rejected", "unset_frame",
    "unset_table_ok_partial", "unset_counterexample", "dict_roundtrip_partial", "image_join_split",
    "image_type_comma_counterexample", "graph_roundtrip_partial", "graph_roundtrip_component_partial",
    "graph_children_perm", "rowLaw_of_roundTrips", "rowLaw_jsonfield",
    "routes_ok", "rows_ok", "set_get_every_route", "unset_get_every_route", "unset_identity_every_route",
    "history_last_op_decides", "attr_unset_image_type_counterexample",
    # several handles of one element; the model graph read from every element of a written tree
    "handles_share_one_store", "history_last_op_decides_any_handle",
    "graph_roundtrip_every_element_partial", "graph_roundtrip_every_element_component_partial",
    "graph_at_nested_dedicated_counterexample",
    # several elements: an interleaved history falls apart into the histories of the single elements
    "elements_do_not_share", "untouched_element_unchanged", "history_last_op_decides_any_element",
    # several properties of one element: a write to one leaves the others (fresh-sliver defaults probed into the tables)
    "frame_ok", "step_leaves_other_property", "other_properties_leave_property", "history_last_op_on_property_decides",
    "frame_hyps_of_tables", "other_properties_leave_property_repo", "frame_stitch_counterexample",
    # the codec hypothesis discharged for the value model that carries C03's and C12's codec models
    "rich_rowLaw", "fieldLaw_rich", "typed_wf", "rich_rows_ok", "fieldLaw_discharged", "props_roundtrip_typed_partial",
    "dict_roundtrip_typed_partial", "graph_roundtrip_typed_partial", "graph_roundtrip_component_typed_partial",
    # falsy-but-valid structured values: a Flags object is never written as the empty text (all-False included)
    "flags_never_absent", "flags_value_typed", "flags_all_false_wellTyped", "flags_all_false_typed")]
TRUSTED_BASE = [
    "gen/slivermap.py: the mapping tables are read from the AST of the *_sliver_to_graph_properties_dict / *_from_graph_properties_dict family "
    "and cross-checked on every run against a behavioural probe of the same functions (sample value per setter, falsy-but-valid values, the "
    "comma-joined pair); where a rewrite defeats the AST patterns the probed table stands in (evidence: ast_fallback). SLIVER_PROPERTY_TO_GRAPH "
    "from the AST; setters of the sliver classes from the AST; element routes (every python property of every element class of fim.user, what "
    "`el.a = v` / `el.a = None` / set_property(p, None) hand on, the shape of set_property / set_properties / get_property / unset_property) "
    "from probes on a recording stub, no source text matched",
    "Model/Sliver.lean `concrete` codecs (objects represented by their to_json text, json.dumps/loads of safe strings, ',' join/split): differential only",
    "codec law `FieldLaw`: a *theorem* (fieldLaw_discharged, *_roundtrip_typed_partial) for the value model SliverRich.rich, whose encoders/decoders are "
    "C03's and C12's Lean models dispatched by the generated (Dec, arg) pair - JSONField classes, Tags, Gateway, PathInfo, ERO, MaintenanceInfo, "
    "JSONData, Delegations, string tuples, booleans, enums, ip addresses, plain strings, the ImageRef pair; what stays outside Lean is the "
    "json.dumps/json.loads text layer between a stored string and its parsed form (as in C03 / C12) and the `rich` dispatch itself, which is "
    "not run against the code (its parts are, by C03's and C12's correspondence; `concrete` is, by this one)",
    "Model/Sliver.lean graph store: per-NodeID node list and adjacency; add_node's id-taken check and add_link's lookup of the parent are modelled; "
    "the set order of neighbours is not (children are compared up to order)",
    "CPython json.dumps/json.loads in JSONSliver (string-valued dictionaries)",
    "oracle only (no Lean model): update_labels / update_capacities / rename(), properties handed to the constructors (add_node(**kw) ...), "
    "element.get_sliver() on the live topology (its graph-level counterpart, build_deep_*_sliver started at every element of a written "
    "tree, is modelled: graphAt / graph_roundtrip_every_element_partial, correspondence op `grapha`)",
    "handles: the model gives a handle of an element one piece of state, the name it caches (runHandles / the driver's per-handle name array); "
    "that the python objects handed out by the lookup views hold nothing else that a property read depends on is what the correspondence "
    "checks (histories alternating over three handles, every handle reading after every step)",
    "the converters are pure functions in the Lean model by construction; that the python ones neither alter their argument nor answer "
    "differently the second time is checked by the oracle (check_inputs) and by the `dict` correspondence op, which converts one dictionary "
    "object twice and reports the second result and the dictionary as it is afterwards",
    "several elements: in the Lean model a read depends on the element's own stored properties only (elements_do_not_share: an interleaved "
    "history falls apart into per-element histories); that the python readers keep no decoded object between calls - no table shared by "
    "elements carrying an equal text, no object handed out twice - is an oracle fact: every object a getter / converter hands out is changed "
    "in place, deeply, before the next read (element histories, check_alias over equal values on three elements, the third call of check_inputs)",
    "fresh slivers: what `<SliverClass>()` holds before any setter ran is probed per class on every run (gen/slivermap.py fresh_defaults -> "
    "Generated freshDefaults; frame_ok decides over it, the driver's set routes start from it); that a fresh sliver of an element's write is "
    "not influenced by earlier objects of the class (no class-level default shared between objects) is an oracle / correspondence fact "
    "(histories over several properties on pooled topologies, hundreds of fresh slivers per process)",
    "the size limit of mf_data / user_data / layout_data is read from the class under check (MAX_SIZE); texts exactly at and one under it in "
    "seven spellings are pool values (every run, every path); the text layer itself stays trusted as above",
]
ASSUMPTIONS = [
    "identity-encoded properties hold str values, node_map holds strings without characters that json escapes, management_ip is in canonical form",
    "an all-default JSONField object (Capacities(), Labels(), ...) is stored as the empty text, which reads back as absent: C03 roundtrip_iff "
    "characterises exactly this class; the oracle accepts absent-or-equal for it and nothing else",
    "sibling children have distinct names (they live in a dict keyed by name); node ids are distinct within a tree (a taken id is exercised "
    "in the correspondence only: add_node rejects it)",
    "sub-interfaces, for the graph path, are SubInterface-typed children of a DedicatedPort interface (what Interface.add_child_interface creates); arbitrary interface nesting is exercised through the dictionary / JSON forms only",
    "element.name is the handle's cached name: it is compared after assignments to the attribute and after rename(), not after set_property('name', v), "
    "and only on the handle the assignment went through",
    "graph read from an inner element: the children of an interface are not themselves DedicatedPorts (SubsPlain; "
    "graph_at_nested_dedicated_counterexample shows a DedicatedPort nested in a DedicatedPort is rebuilt with its parent as a child)",
]
RULE = ("sliver trees (depth <= 4, <= 12 elements) with a random subset of every class's list_properties() set to values from a per-type pool "
        "(adversarial strings, every enum member, codec objects), through props / deep dict / JSONSliver / NetworkX graph (also below a present / "
        "missing parent, and with a node id taken twice); on elements at 16 positions of a topology (node, component, its service, its interface, "
        "sub-interface, top-level service and its port, switch / facility node with service and port, port-mirror service, composite node, link) "
        "every settable name as a *history* v1 -> v2 -> unset -> v3 -> v1 -> unset -> v2 -> unset -> unset over three values (falsy ones "
        "included: False, '', (), empty objects, JSON 0 / \"\" / [] / null) in which every set route (set_property, set_properties, attribute) "
        "and unset route (unset_property, set_property(None), attribute = None) is taken and both readers follow every step; several keywords "
        "in one set_properties; histories over SEVERAL properties of one element ('+' cases: each of 2-4 properties set in turn - every member "
        "of type / layer / mirror_direction / stitch_node once as the value that has to survive, the rare ones included - then the first "
        "overwritten, the second unset, the last overwritten, the first overwritten again, the last unset, routes and two handles rotating; "
        "after every step EVERY property of the case is read through both handles, and the element's deep sliver after the first phase and "
        "at the end: a write or unset of one property leaves every other reading what it read before); constructor keywords; every history runs over three handles of the element (the object the constructing call "
        "returned, one from a lookup view - topo.nodes[..], node.components[..], interface_list, ... - and one from the constructor on the "
        "existing id), writes rotating over them and every handle reading after every step; deterministic chain trees through every nesting "
        "position (node/component/service/DedicatedPort/SubInterface and its suffixes, with siblings) and every tree with children: written "
        "once, the graph reader started at every element; every converter called twice on one argument object, the argument deep-compared "
        "before / after, and a third time after the first result was changed in place; what every getter hands out in an element history "
        "(get_property, attribute, get_sliver) is changed in place - lists inside Labels / StructuralInfo / Tags / JSON blobs, fields, children "
        "tables - before the next read; equal values (list-valued fields first) on three elements, get - modify - set on the first, the others "
        "compared with the value frozen before any read and their stored text; JSON blobs exactly at / one under / one over MAX_SIZE in "
        "standard, compact, blank-padded, raw non-ASCII and escaped spellings; get_sliver() at every position of a live topology through every handle; non-trivial = depth >= 2 or >= 3 properties set (trees), every element history; distinct by canonical JSON of the case")

KINDS = ["node", "component", "service", "interface", "link"]
SAFE = "abcdefghijklmnopqrstuvwxyzABCDEFGHIJKLMNOPQRSTUVWXYZ0123456789_-.:"
STRS = ["a", "", "x y", "a,b", ",", "a,b,c", "null", "None", "0", "false", "{}", "[]", "\"q\"", "it's", "back\\slash", "üß", "日本",
        "tab\there", "line\nbreak", " lead", "trail ", "A" * 300, "http://h:8080/p?q=1&r=2", "1.2.3.4"]
STR_KEYS = ["model", "details", "site", "allocation_constraints", "controller_url", "boot_script", "image_ref", "image_type",
            "technology", "service_endpoint", "mirror_port", "mirror_vlan"]
STRUCTURAL = {"network_service_info"}


# --------------------------------------------------------------------------
# the repo's types


class R:
    """lazy import of everything used from /repo"""
    _d = None

    @classmethod
    def get(cls):
        if cls._d is None:
            d = {}
            import fim.graph.abc_property_graph as apg
            import fim.slivers.network_node as nn
            import fim.slivers.network_service as ns
            import fim.slivers.interface_info as ii
            import fim.slivers.attached_components as ac
            import fim.slivers.network_link as nl
            import fim.slivers.capacities_labels as cl
            import fim.slivers.delegations as dl
            import fim.slivers.tags as tg
            import fim.slivers.json_data as jd
            import fim.slivers.gateway as gw
            import fim.slivers.path_info as pi
            import fim.slivers.maintenance_mode as mm
            import fim.slivers.json as sj
            for m in (apg, nn, ns, ii, ac, nl, cl, dl, tg, jd, gw, pi, mm, sj):
                d.update({k: v for k, v in vars(m).items() if not k.startswith("_")})
            d["G"] = apg.ABCPropertyGraph
            d["SLIVER"] = {"node": nn.NodeSliver, "component": ac.ComponentSliver, "service": ns.NetworkServiceSliver,
                           "interface": ii.InterfaceSliver, "link": nl.NetworkLinkSliver}
            d["TYPE"] = {"node": nn.NodeType, "component": ac.ComponentType, "service": ns.ServiceType,
                         "interface": ii.InterfaceType, "link": nl.LinkType}
            G = apg.ABCPropertyGraph
            d["TO"] = {"node": G.node_sliver_to_graph_properties_dict, "component": G.component_sliver_to_graph_properties_dict,
                       "service": G.network_service_sliver_to_graph_properties_dict,
                       "interface": G.interface_sliver_to_graph_properties_dict, "link": G.link_sliver_to_graph_properties_dict}
            d["FROM"] = {"node": G.node_sliver_from_graph_properties_dict, "component": G.component_sliver_from_graph_properties_dict,
                         "service": G.network_service_sliver_from_graph_properties_dict,
                         "interface": G.interface_sliver_from_graph_properties_dict, "link": G.link_sliver_from_graph_properties_dict}
            d["FROMDICT"] = {"node": G.build_deep_node_sliver_from_dict, "component": G.build_deep_component_sliver_from_dict,
                             "service": G.build_deep_ns_sliver_from_dict, "interface": G.build_deep_interface_sliver_from_dict,
                             "link": G.build_deep_link_sliver_from_dict}
            cls._d = d
        return cls._d


def settable(kind):
    return [k for k in sorted(R.get()["SLIVER"][kind].list_properties()) if k not in STRUCTURAL]


# --------------------------------------------------------------------------
# value descriptions (JSON) -> python objects


def mk_value(desc):
    r = R.get()
    t, v = desc[0], desc[1:]
    if t == "s":
        return v[0]
    if t == "b":
        return v[0]
    if t == "e":
        return getattr(r[v[0]], v[1])
    if t == "t":
        return tuple(v[0])
    if t == "ip":
        return v[0]
    if t == "F":                       # JSONField subclass from keyword arguments
        return r[v[0]](**v[1])
    if t == "J":                       # JSONData subclass from JSON text
        return r[v[0]](v[1])
    if t == "tags":
        return r["Tags"](*v[0])
    if t == "gw":
        return r["Gateway"](r["Labels"](**v[0]))
    if t == "deleg":                   # [atype, [[format, id, pool, details-kw]...]]
        at = getattr(r["DelegationType"], v[0])
        ds = r["Delegations"](atype=at)
        for fmt, did, pool, det in v[1]:
            d = r["Delegation"](atype=at, aformat=getattr(r["DelegationFormat"], fmt), delegation_id=did, pool_id=pool)
            if det is not None:
                d.set_details(r["Capacities"](**det) if v[0] == "CAPACITY" else r["Labels"](**det))
            ds.add_delegations(d)
        return ds
    if t in ("ero", "pinfo"):
        # [payload, strict?]: payload = [a2z] (symmetric) | [a2z, z2a] | "graph id" | None
        pl = v[0]
        pt = r["PathRepresentationType"]
        ptype = pt.Graph if isinstance(pl, str) else pt.Path
        if t == "ero":
            o = r["ERO"](ptype, strict=bool(v[1])) if len(v) > 1 else r["ERO"](ptype)
        else:
            o = r["PathInfo"](ptype)
        if isinstance(pl, str):
            o.set(payload=pl)
        elif pl is not None:
            p = r["Path"]()
            if len(pl) == 1:
                p.set_symmetric(list(pl[0]))
            else:
                p.set(a2z=list(pl[0]), z2a=list(pl[1]))
            o.set(payload=p)
        return o
    if t == "maint":
        mi = r["MaintenanceInfo"]()
        for e in v[0]:
            kw = {}
            if len(e) > 2 and e[2]:
                kw["deadline"] = e[2]
            if len(e) > 3 and e[3]:
                kw["expected_end"] = e[3]
            mi.add(e[0], minfo=r["MaintenanceEntry"](state=getattr(r["MaintenanceState"], e[1]), **kw))
        mi.finalize()
        return mi
    raise ValueError("bad value description %r" % (desc,))


def std_codec(v):
    """the standalone C03 codec of a value (None when the value is not a codec object)"""
    r = R.get()
    if isinstance(v, r["Delegations"]):
        return r["Delegations"].from_json(json_str=v.to_json(), atype=v.type)
    if isinstance(v, r["JSONData"]):
        return type(v)(v.json)
    if isinstance(v, (r["JSONField"], r["Tags"], r["Gateway"], r["ERO"], r["PathInfo"], r["MaintenanceInfo"])):
        return type(v).from_json(v.to_json())
    return None


def ocanon(v):
    """oracle-side canonical form of a property value (independent of to_json wherever the class allows)"""
    import enum
    import ipaddress
    r = R.get()
    if v is None:
        return None
    if isinstance(v, bool):
        return ["b", v]
    if isinstance(v, str):
        return ["s", v]
    if isinstance(v, enum.Enum):
        return ["e", type(v).__name__, v.name]
    if isinstance(v, (tuple, list)):
        return ["t", list(v)]
    if isinstance(v, (ipaddress.IPv4Address, ipaddress.IPv6Address)):
        return ["ip", str(v)]
    if isinstance(v, r["JSONField"]):
        return ["F", type(v).__name__, {k: x for k, x in sorted(v.__dict__.items())}]
    if isinstance(v, r["JSONData"]):
        return ["J", type(v).__name__, json.loads(v.json)]
    if isinstance(v, r["Tags"]):
        return ["tags", list(v.tags)]
    if isinstance(v, r["Gateway"]):
        return ["gw", None if v.lab is None else {k: x for k, x in sorted(v.lab.__dict__.items())}]
    if isinstance(v, r["Delegations"]):
        return ["deleg", v.type.name, v.to_json()]
    if isinstance(v, r["PathInfo"]):        # ERO is a PathInfo with a strict flag
        pl = v.payload
        if isinstance(pl, r["Path"]):
            pl = {"a2z": pl.a2z, "z2a": pl.z2a}
        out = [type(v).__name__, getattr(v.type, "name", v.type), pl]
        if isinstance(v, r["ERO"]):
            out.append(["strict", v.strict])
        return out
    if isinstance(v, r["MaintenanceInfo"]):
        ents = []
        for name, e in sorted(v.list_details(), key=lambda x: x[0]):
            ents.append([name, getattr(e.state, "name", e.state),
                         getattr(e, "deadline", None).isoformat() if getattr(e, "deadline", None) else None,
                         getattr(e, "expected_end", None).isoformat() if getattr(e, "expected_end", None) else None])
        return ["MaintenanceInfo", ents]
    if hasattr(v, "to_json"):
        return [type(v).__name__, v.to_json()]
    return ["other", type(v).__name__, repr(v)]


def wire(v):
    """value as the Lean driver represents it"""
    import enum
    import ipaddress
    r = R.get()
    if v is None:
        return None
    if isinstance(v, bool):
        return ["b", v]
    if isinstance(v, str):
        return ["s", v]
    if isinstance(v, enum.Enum):
        return ["e", type(v).__name__, v.name]
    if isinstance(v, (tuple, list)):
        return ["t", list(v)]
    if isinstance(v, (ipaddress.IPv4Address, ipaddress.IPv6Address)):
        return ["ip", str(v)]
    if isinstance(v, r["JSONData"]):
        return ["j", type(v).__name__, v.json]
    if isinstance(v, r["Delegations"]):
        return ["o", "Delegations." + v.type.name, v.to_json()]
    if isinstance(v, r["JSONField"]):
        return ["o", type(v).__name__, spec_text(v)]       # the text C03 specifies, not the object's own to_json
    if hasattr(v, "to_json"):
        t = v.to_json()
        return ["o", type(v).__name__, "" if t is None else t]
    return ["other", type(v).__name__]


# --------------------------------------------------------------------------
# generators


def gen_name(rng, kind, i):
    base = rng.choice(["n", "node-%d" % i, "eth%d" % i, "p1", "ab", "x.y_z-%d" % i, "N%d" % i, "über%d" % i])
    if kind in ("interface", "link") and rng.random() < 0.3:
        base = base + rng.choice(["/1", ":2", "+3", " 4"])
    if len(base) < 2:
        base += "%d" % i
    return base + "_%d" % i


LABEL_KW = [{"vlan": "100"}, {"vlan_range": "1-100"}, {"ipv4": "192.168.1.1", "ipv4_subnet": "192.168.1.0/24"}, {"mac": "00:11:22:33:44:55"},
            {"bdf": "0000:41:00.0", "numa": "1"}, {"local_name": "p1", "device_name": "dev, with comma"}, {"asn": "65000", "ipv6": "2001:db8::1"},
            {"vlan_range": ["1-10", "20-30"]}, {"local_name": "ü"}, {"instance_parent": "i1", "region": "us-east-1"}]
CAP_KW = [{"core": 2}, {"cpu": 1, "core": 32, "ram": 128, "disk": 10}, {"bw": 100, "unit": 1}, {"mtu": 9000}, {"disk": 2 ** 40}, {"burst_size": 5, "bw": 1}]


FLAG_BITS = ["auto_config", "auto_mount", "ipv4_management", "ptp"]
JSON_TEXTS = ['{}', '{"a": 1}', '{"k": ["x", {"y": null}], "z": "\\u00fc"}', '[1, 2, 3]', '"str"', '{"a":1,  "b":2}', '17',
              '{"t": true, "f": false, "n": null, "i": 0, "x": 1.5, "neg": -2, "nest": {"on": true, "off": false, "l": [true, false, 1, 0]}}',
              'true', 'false', '[{"deep": [{"deeper": {"flag": true, "num": 1e3}}]}]']
ENUMERATED = {"type", "layer", "mirror_direction", "stitch_node", "flags", "ero", "path_info", "gateway", "maintenance_info",
              "mf_data", "user_data", "layout_data", "capacity_delegations", "label_delegations", "reservation_info",
              "structural_info", "location", "capacity_hints", "tags", "management_ip"}


_BOUNDARY = {}


def boundary_texts(cls):
    """JSON texts at the size limit of a size-limited property (`MAX_SIZE` of the class, read from the class under check):
    exactly at the limit and one under it, in every spelling that is legal JSON text but not what `json.dumps` writes -
    standard separators, compact separators (re-spelled they are longer), blanks (re-spelled shorter), non-ASCII characters
    written raw (escaped they are longer) and escaped (raw they are shorter), object / array / string at top level.  An accepted value
    must come back through every reader.  -> [(tag, text)]; `over_limit_texts`: one over the limit (must be refused)."""
    if cls in _BOUNDARY:
        return _BOUNDARY[cls]
    m = int(R.get()[cls].MAX_SIZE)
    out = []

    def fit(tag, mk, n):
        """mk(k) -> text growing by one character per unit of k: the text of length exactly n"""
        base = len(mk(0))
        t = mk(n - base)
        if len(t) == n:
            out.append(("%s:%s" % (tag, "at" if n == m else "under%d" % (m - n)), t))
    for n in (m, m - 1):
        fit("string", lambda k: '"' + "a" * k + '"', n)
        fit("object", lambda k: json.dumps({"k": "v" * k, "n": [1, 2, {"x": None}]}), n)
        fit("array", lambda k: json.dumps([1, "b" * k, True]), n)
        fit("compact", lambda k: json.dumps({"k%d" % i: i for i in range(m // 12)} | {"pad": "p" * k}, separators=(",", ":")), n)
        fit("blanks", lambda k: '{"a":   1,' + " " * k + '"b": [ 1 , 2 ]}', n)
        fit("nonascii", lambda k: json.dumps({"title": "\u00e9t\u00e9 " * (m // 12), "pad": "p" * k}, ensure_ascii=False), n)
        fit("escaped", lambda k: json.dumps({"title": "\u00fc\u65e5" * (m // 40), "pad": "p" * k}), n)
    _BOUNDARY[cls] = out
    return out


def over_limit_texts(cls):
    m = int(R.get()[cls].MAX_SIZE)
    return [("string:over1", '"' + "a" * (m - 1) + '"'), ("compact:over1", json.dumps({"pad": "p" * (m - 9)}, separators=(",", ":")))]


def value_pool(kind, key):
    """every value description the generator can produce for property `key` of a sliver of `kind`.  For the keys in
    ENUMERATED the pool covers every member of every enum and every non-default value of every boolean / flag /
    type-tag sub-field of the structured value, and it is run exhaustively (deterministic part of every run)."""
    r = R.get()
    if key == "type":
        return [["e", r["TYPE"][kind].__name__, m.name] for m in r["TYPE"][kind]]
    if key == "layer":
        return [["e", "NSLayer", m.name] for m in r["NSLayer"]]
    if key == "mirror_direction":
        return [["e", "MirrorDirection", m.name] for m in r["MirrorDirection"]]
    if key in STR_KEYS:
        return [["s", x] for x in STRS]
    if key == "stitch_node":
        return [["b", True], ["b", False]]
    if key == "management_ip":
        return [["ip", x] for x in ["192.168.1.1", "10.0.0.254", "::1", "2001:db8::1", "255.255.255.255", "fe80::1"]]
    if key in ("capacities", "capacity_allocations"):
        fields = list(r["Capacities"]().__dict__.keys())
        return [["F", "Capacities", kw] for kw in CAP_KW + [{}] + [{f: 3} for f in fields]]
    if key == "capacity_hints":
        return [["F", "CapacityHints", {"instance_type": x}] for x in ["fabric.c2.m8.d10", "x", "a,b"]]
    if key in ("labels", "label_allocations", "peer_labels"):
        return [["F", "Labels", kw] for kw in LABEL_KW + [{}]]
    if key == "reservation_info":
        return [["F", "ReservationInfo", kw] for kw in [{"reservation_id": "r-1", "reservation_state": "Active"},
                                                       {"error_message": "it \"failed\", badly"}, {"reservation_id": "\u00fc"},
                                                       {"reservation_state": "Failed"},
                                                       {"reservation_id": "r", "reservation_state": "Ticketed", "error_message": "e"}]]
    if key == "structural_info":
        return [["F", "StructuralInfo", kw] for kw in [{"sub_graph_id": "g1"}, {"parent_graph_id": "p", "adm_graph_ids": ["a", "b"]},
                                                      {"adm_graph_ids": ["only"]}, {"sub_graph_id": "s", "parent_graph_id": "p"}]]
    if key == "location":
        return [["F", "Location", kw] for kw in [{"postal": "100 Europa Dr., Chapel Hill, NC 27517"}, {"lat": 35.9, "lon": -79.0},
                                                {"lat": 0.0, "lon": 10.5}, {"postal": "x", "lat": 1.5, "lon": 2.5}, {"lat": -0.5},
                                                {"lon": 180.0}, {"lat": 0.0, "lon": 0.0}]]
    if key == "flags":
        # every single bit, every pair, all, none
        out = [["F", "Flags", {b: True}] for b in FLAG_BITS]
        out += [["F", "Flags", {a: True, b: True}] for i, a in enumerate(FLAG_BITS) for b in FLAG_BITS[i + 1:]]
        out += [["F", "Flags", {b: True for b in FLAG_BITS}], ["F", "Flags", {}], ["F", "Flags", {"auto_config": False, "ptp": True}]]
        return out
    if key in ("mf_data", "user_data", "layout_data"):
        cls = {"mf_data": "MeasurementData", "user_data": "UserData", "layout_data": "LayoutData"}[key]
        return [["J", cls, t] for t in JSON_TEXTS] + [["J", cls, t] for tag, t in boundary_texts(cls)
                                                      if tag.endswith(":at") or tag.split(":")[0] in ("compact", "nonascii")]
    if key == "tags":
        return [["tags", x] for x in [["t1"], ["blue", "green"], ["a-b", "c_d", "\u00fc9"], []]]
    if key == "gateway":
        v4 = {"ipv4": "192.168.1.1", "ipv4_subnet": "192.168.1.0/24"}
        v6 = {"ipv6": "2001:db8::1", "ipv6_subnet": "2001:db8::/64"}
        mac = {"mac": "00:11:22:33:44:55"}
        return [["gw", v4], ["gw", dict(v4, **mac)], ["gw", v6], ["gw", dict(v6, **mac)], ["gw", dict(v4, **v6)]]
    if key in ("capacity_delegations", "label_delegations"):
        at = "CAPACITY" if key.startswith("capacity") else "LABEL"
        det = {"core": 4} if at == "CAPACITY" else {"vlan_range": "1-100"}
        return [["deleg", at, x] for x in [[["SinglePool", "del1", None, det]],
                                           [["PoolDefinition", "del2", "pool1", det], ["PoolReference", "del3", "pool1", None]],
                                           [["SinglePool", "d1", None, det], ["SinglePool", "d2", None, det]],
                                           [["PoolDefinition", "d", "p", det]]]]
    if key in ("ero", "path_info"):
        tag = "ero" if key == "ero" else "pinfo"
        payloads = [[["a", "b", "c"]], [["a", "b"], ["b", "a"]], [["x"]], "graph-id-1", None]
        if key == "ero":     # [payload, strict]: both values of the flag with every payload form
            return [[tag, pl, st] for pl in payloads for st in (True, False)]
        return [[tag, pl] for pl in payloads]
    if key == "maintenance_info":
        states = [m.name for m in r["MaintenanceState"]]
        out = [["maint", [["node1", st]]] for st in states]
        out += [["maint", [["node1", "Maint", "2026-01-02T03:04:05", "2026-01-03T00:00:00+00:00"], ["w2", "PreMaint", "2026-05-06T07:08:09", None]]],
                ["maint", [["ALL", "Active"]]], ["maint", [[n, st] for n, st in zip(["a1", "b2", "c3", "d4"], states)]]]
        return out
    return None


def gen_value(rng, kind, key, idx=0):
    """value description for property `key` of a sliver of `kind` (JSON-serialisable)"""
    if key == "name":
        return ["s", gen_name(rng, kind, idx)]
    if key == "node_map":
        return ["t", ["".join(rng.choice(SAFE) for _ in range(rng.randrange(0, 9))) for _ in range(2)]]
    pool = value_pool(kind, key)
    if pool is None:
        raise KeyError("no generator for property %s" % key)
    return rng.choice(pool)


# classes whose every member is an explicit value (a boolean that is False *is* a value): no instance of them is "nothing set"
# (C03: "Flags ... keeps false values"); for the other JSONField classes "nothing set" means every member still has the value a
# fresh object has.  Decided here, NOT by asking the code under check (`to_json() == ""`): a codec that starts to write a valid
# value as the empty text would otherwise switch off the demand for exactly the value it loses.
EXPLICIT_CLASSES = ("Flags",)


def spec_empty(v):
    """`v` is a JSONField object with nothing set (its text is the empty text - the encoding of an absent value; C03
    `roundtrip_iff`).  Independent of the codec under check."""
    r = R.get()
    if not isinstance(v, r["JSONField"]) or type(v).__name__ in EXPLICIT_CLASSES:
        return False
    fresh = dict(FRESH.get(type(v).__name__) or {})
    return all(x is None or (k in fresh and x == fresh[k]) for k, x in v.__dict__.items())


# members of a fresh object of every JSONField class (the constructors' defaults, recorded once per process from the class
# definitions' constructors before any case runs)
class _Fresh(dict):
    def get(self, name, default=None):
        if name not in self:
            try:
                self[name] = dict(R.get()[name]().__dict__)
            except Exception:
                self[name] = {}
        return self[name]


FRESH = _Fresh()


def spec_text(v):
    """the text C03 specifies for a JSONField object: members that are set, keys sorted; the empty text when nothing is set;
    every member for the EXPLICIT_CLASSES.  Computed here (not by the object's own `to_json`)."""
    if type(v).__name__ in EXPLICIT_CLASSES:
        return json.dumps(dict(v.__dict__), skipkeys=True, sort_keys=True)
    if spec_empty(v):
        return ""
    fresh = FRESH.get(type(v).__name__)
    return json.dumps({k: x for k, x in v.__dict__.items() if x is not None and not (k in fresh and x == fresh[k])},
                      skipkeys=True, sort_keys=True)


def usable(desc):
    """A value the conversions can be asked to preserve.  The one class left out is an all-default JSONField object
    (`Capacities()`, `Labels()`, ...; never a `Flags`): it encodes to the empty text, which *is* the encoding of None (C03
    `roundtrip_iff` characterises exactly this).  Anything else is demanded, whichever layer loses it."""
    try:
        v = mk_value(desc)
    except Exception:
        return False
    return not spec_empty(v)


def gen_fields(rng, kind, idx, density, res=None):
    f = {}
    for k in settable(kind):
        need = k == "name" or (k == "type" and kind in ("component",))
        if need or rng.random() < density:
            d = gen_value(rng, kind, k, idx)
            if usable(d):
                f[k] = d
            elif res is not None:
                res.count("skipped:empty-jsonfield:" + k)
    return f


CHILD = {"node": ["component", "service"], "component": ["service"], "service": ["interface"], "interface": ["interface"], "link": []}


def gen_tree(rng, kind, budget, depth, density, res=None, counter=None, wild=False, sub=False):
    """`wild`: interfaces nest arbitrarily (dictionary / JSON forms only).  Otherwise sub-interfaces are what the
    model graph knows: SubInterface-typed children of a DedicatedPort interface, one level."""
    counter = counter if counter is not None else [0]
    counter[0] += 1
    idx = counter[0]
    t = {"k": kind, "id": "id-%d" % idx, "f": gen_fields(rng, kind, idx, density, res), "c": []}
    kinds = list(CHILD[kind])
    if kind == "interface" and not wild:
        if sub:
            t["f"]["type"] = ["e", "InterfaceType", "SubInterface"]
            kinds = []
        elif depth > 0 and budget[0] > 0 and rng.random() < 0.5:
            t["f"]["type"] = ["e", "InterfaceType", "DedicatedPort"]
        else:
            kinds = []
            if t["f"].get("type") == ["e", "InterfaceType", "DedicatedPort"]:
                pass        # a dedicated port without sub-interfaces
    if depth > 0:
        for ck in kinds:
            n = rng.choice([0, 0, 1, 1, 2, 3]) if budget[0] > 0 else 0
            for _ in range(n):
                if budget[0] <= 0:
                    break
                budget[0] -= 1
                t["c"].append(gen_tree(rng, ck, budget, depth - 1, density, res, counter, wild, sub=(kind == "interface")))
    return t


def tree_stats(t):
    n, d, p = 1, 1, len(t["f"])
    for c in t["c"]:
        cn, cd, cp = tree_stats(c)
        n += cn
        d = max(d, 1 + cd)
        p = max(p, cp)
    return n, d, p


def chain_case(rng, kinds, res=None, twins=True):
    """a tree with one branch through the given kinds (outermost first), an interface below an interface being a
    DedicatedPort with two SubInterface children; `twins`: every inner level has a sibling, so that a rebuild started
    at an inner element has neighbours it must leave out (its parent, its siblings)"""
    counter = [0]

    def mk(i, sub=False):
        counter[0] += 1
        idx = counter[0]
        k = kinds[i]
        t = {"k": k, "id": "id-%d" % idx, "f": gen_fields(rng, k, idx, 0.2, res), "c": []}
        if sub:
            t["f"]["type"] = ["e", "InterfaceType", "SubInterface"]
        elif k == "interface" and i + 1 < len(kinds):
            t["f"]["type"] = ["e", "InterfaceType", "DedicatedPort"]
        elif k == "interface" and t["f"].get("type") == ["e", "InterfaceType", "DedicatedPort"] and rng.random() < 0.5:
            t["f"]["type"] = ["e", "InterfaceType", "AccessPort"]
        if i + 1 < len(kinds):
            for _ in range(2 if (twins or k == "interface") else 1):
                t["c"].append(mk(i + 1, sub=(k == "interface")))
        return t
    return mk(0)


CHAINS = [["node", "component", "service", "interface", "interface"], ["node", "service", "interface", "interface"],
          ["component", "service", "interface", "interface"], ["service", "interface", "interface"], ["interface", "interface"],
          ["node", "component", "service", "interface"], ["node", "component"], ["component", "service"]]


def gen_cases(ctx, rng, n, res=None):
    cases = []
    # every nesting position of every kind, sub-interfaces included (the model-graph reader is started at each of them)
    for ch in CHAINS:
        cases.append(chain_case(rng, ch, res, twins=len(ch) < 5 or ctx.thorough))
    # deterministic corner cases first: every kind bare, every kind with every property
    for kind in KINDS:
        cases.append(gen_tree(rng, kind, [0], 0, 0.0, res))
        cases.append(gen_tree(rng, kind, [0], 0, 1.0, res))
        for nm in ("ab", "n" * 255):        # the other size-limited property: names of 2 .. 255 characters, both ends
            t = gen_tree(rng, kind, [0], 0, 0.0, res)
            t["f"]["name"] = ["s", nm]
            cases.append(t)
        for k in settable(kind):            # one property at a time next to the name
            if k in ENUMERATED:             # every member / every non-default sub-field value, every run
                descs = value_pool(kind, k)
            elif k in STR_KEYS and ctx.thorough:
                descs = value_pool(kind, k)
            else:
                descs = [gen_value(rng, kind, k, 1) for rep in range(ctx.scale(1, 2))]
            for d in descs:
                if usable(d):
                    t = gen_tree(rng, kind, [0], 0, 0.0, res)
                    t["f"][k] = d
                    cases.append(t)
    for i in range(n):
        kind = rng.choice(["node", "node", "node", "component", "service", "service", "interface", "link"])
        wild = rng.random() < 0.2
        t = gen_tree(rng, kind, [rng.randrange(0, 12)], rng.randrange(0, 5), rng.choice([0.1, 0.3, 0.6, 1.0]), res, wild=wild)
        if wild:
            t["wild"] = True
        cases.append(t)
    return cases


# --------------------------------------------------------------------------
# real slivers <-> trees


def build_sliver(t):
    r = R.get()
    s = r["SLIVER"][t["k"]]()
    s.node_id = t.get("id")
    for k, d in t["f"].items():
        s.set_property(k, mk_value(d))
    kids = {}
    for c in t["c"]:
        kids.setdefault(c["k"], []).append(build_sliver(c))
    if t["k"] == "node":
        if "component" in kids:
            s.attached_components_info = r["AttachedComponentsInfo"]()
            for c in kids["component"]:
                s.attached_components_info.add_device(c)
    if t["k"] in ("node", "component"):
        if "service" in kids:
            s.network_service_info = r["NetworkServiceInfo"]()
            for c in kids["service"]:
                s.network_service_info.add_network_service(c)
    if t["k"] in ("service", "interface"):
        if "interface" in kids:
            s.interface_info = r["InterfaceInfo"]()
            for c in kids["interface"]:
                s.interface_info.add_interface(c)
    return s


def kind_of(s):
    r = R.get()
    for k, c in r["SLIVER"].items():
        if isinstance(s, c):
            return k
    raise TypeError(type(s))


def sliver_kids(s):
    out = []
    aci = getattr(s, "attached_components_info", None)
    if aci is not None:
        out += list(aci.devices.values())
    nsi = getattr(s, "network_service_info", None)
    if nsi is not None:
        out += list(nsi.network_services.values())
    ifi = getattr(s, "interface_info", None)
    if ifi is not None:
        out += list(ifi.interfaces.values())
    return out


def observe(s, conv, sort_kids=False):
    kind = kind_of(s)
    f = {}
    for k in settable(kind):
        v = s.get_property(k)
        if v is not None:
            f[k] = conv(v)
    kids = [observe(c, conv, sort_kids) for c in sliver_kids(s)]
    if sort_kids:
        kids.sort(key=lambda c: (c["k"], canon(c["f"].get("name"))))
    return {"k": kind, "id": s.node_id, "f": f, "c": kids}


def wire_tree(t):
    """case tree -> driver tree (values as the sliver stores them after its setters)"""
    return observe(build_sliver(t), wire)


# --------------------------------------------------------------------------
# the conversions under test, on the implementation


def impl_props(t):
    """-> ('ok', props, back-fields) | ('err', kind)"""
    r = R.get()
    s = build_sliver(t)
    props = r["TO"][t["k"]](s)
    try:
        back = r["FROM"][t["k"]](dict(props))
    except Exception as e:
        return props, ["err", err_kind(e)]
    return props, back


def canon_dict(kind, d):
    """deep dictionary of sliver_to_dict -> the driver's shape {p: {g: str}, c: [[slot, dict]...]} (empty child lists dropped)"""
    slots = {"node": [("components", "component"), ("network_services", "service")], "component": [("network_services", "service")],
             "service": [("interfaces", "interface")], "interface": [("interfaces", "interface")], "link": []}[kind]
    names = [sl for sl, _ in slots]
    p = {k: v for k, v in d.items() if k not in names}
    c = []
    for sl, ck in slots:
        for x in d.get(sl) or []:
            c.append([sl, canon_dict(ck, x)])
    return {"p": p, "c": c}


def path_dict(t):
    """sliver -> deep dictionary -> sliver; the SAME dictionary object is converted twice and the second result (and the
    dictionary as it is after both conversions) is what is compared: a function of its argument gives the first again"""
    r = R.get()
    s = build_sliver(t)
    d = r["G"].sliver_to_dict(s)
    r["FROMDICT"][t["k"]](props=d)
    return d, r["FROMDICT"][t["k"]](props=d)


def path_json(t):
    r = R.get()
    s = build_sliver(t)
    js = r["JSONSliver"].sliver_to_json(s)
    if t["k"] == "node":
        return r["JSONSliver"].node_sliver_from_json(js)
    if t["k"] == "service":
        return r["JSONSliver"].network_service_sliver_from_json(js)
    # the other kinds have no JSONSliver entry point: the same text through the dictionary builder
    return r["FROMDICT"][t["k"]](props=json.loads(js))


_gid = [0]


def path_graph(t):
    from fim.graph.networkx_property_graph import NetworkXPropertyGraph, NetworkXGraphImporter
    r = R.get()
    s = build_sliver(t)
    _gid[0] += 1
    g = NetworkXPropertyGraph(graph_id="c02-graph-%d" % _gid[0], importer=NetworkXGraphImporter())
    try:
        k = t["k"]
        if k == "node":
            g.add_network_node_sliver(sliver=s)
            return g.build_deep_node_sliver(node_id=s.node_id)
        if k == "link":
            g.add_network_link_sliver(lsliver=s, interfaces=[])
            return g.build_deep_link_sliver(node_id=s.node_id)
        if k == "service":
            g.add_network_service_sliver(parent_node_id=None, network_service=s)
            return g.build_deep_ns_sliver(node_id=s.node_id)
        if k == "interface":
            g.add_interface_sliver(parent_node_id=None, interface=s)
            return g.build_deep_interface_sliver(node_id=s.node_id)
        if k == "component":
            g.add_node(node_id="c02-parent", label=r["G"].CLASS_NetworkNode, props={"Name": "parent"})
            g.add_component_sliver(parent_node_id="c02-parent", component=s)
            return g.build_deep_component_sliver(node_id=s.node_id)
    finally:
        g.delete_graph()


BUILD_DEEP = {"node": "build_deep_node_sliver", "component": "build_deep_component_sliver", "service": "build_deep_ns_sliver",
              "interface": "build_deep_interface_sliver", "link": "build_deep_link_sliver"}


def flat_elems(t, where=None):
    """pre-order [(subtree, kind path from the root)]"""
    where = (where + "/" if where else "") + t["k"]
    out = [(t, where)]
    for c in t["c"]:
        out += flat_elems(c, where)
    return out


def path_graph_all(t):
    """the tree written once into a fresh model graph, then `build_deep_<kind>_sliver` started at EVERY element of it
    (what `element.get_sliver()` does on a live model) -> [(subtree, kind path, rebuilt sliver | ["err", kind])];
    raises what the writer raises"""
    from fim.graph.networkx_property_graph import NetworkXPropertyGraph, NetworkXGraphImporter
    r = R.get()
    s = build_sliver(t)
    _gid[0] += 1
    g = NetworkXPropertyGraph(graph_id="c02-graph-%d" % _gid[0], importer=NetworkXGraphImporter())
    try:
        k = t["k"]
        if k == "node":
            g.add_network_node_sliver(sliver=s)
        elif k == "link":
            g.add_network_link_sliver(lsliver=s, interfaces=[])
        elif k == "service":
            g.add_network_service_sliver(parent_node_id=None, network_service=s)
        elif k == "interface":
            g.add_interface_sliver(parent_node_id=None, interface=s)
        else:
            g.add_node(node_id="c02-parent", label=r["G"].CLASS_NetworkNode, props={"Name": "parent"})
            g.add_component_sliver(parent_node_id="c02-parent", component=s)
        out = []
        for sub, where in flat_elems(t):
            try:
                out.append((sub, where, getattr(g, BUILD_DEEP[sub["k"]])(node_id=sub["id"])))
            except Exception as e:
                out.append((sub, where, ["err", err_kind(e)]))
        return out
    finally:
        g.delete_graph()


def snapshot(x):
    """a deep, comparable picture of a converter argument: a dictionary / list as canonical JSON text, a sliver as the
    observation of every settable property and every child (node ids included)"""
    r = R.get()
    if isinstance(x, r["BaseSliver"]):
        return canon(observe(x, ocanon))
    return json.dumps(x, sort_keys=True, default=repr)


def check_inputs(t, res):
    """The converters are functions of their argument: none of them may consume or alter it (the caller's dictionary,
    the caller's sliver), and asked twice with the same object they answer the same.  Every converter of the family,
    each called TWICE on one argument object, the argument deep-compared before / after."""
    import copy
    r = R.get()
    G = r["G"]
    kind = t["k"]
    case = {"tree": t, "inputs": True}
    try:
        s = build_sliver(t)
    except Exception as e:
        res.count("build-failed:" + err_kind(e))
        return

    def twice(name, fn, arg, view):
        """fn(arg) two times; -> second result (None when it raises)"""
        before = snapshot(arg)
        try:
            a = fn(arg)
            mid = snapshot(arg)
            b = fn(arg)
            after = snapshot(arg)
        except Exception as e:
            if snapshot(arg) != before:
                res.violation("C02:input-mutated:%s:%s" % (kind, name), "%s alters the %s it is given (and then raises %s)" % (
                    name, type(arg).__name__, err_kind(e)), case, expected=before[:300], observed=snapshot(arg)[:300])
            return None
        res.count("inputs:" + name)
        if mid != before or after != before:
            res.violation("C02:input-mutated:%s:%s" % (kind, name), "%s alters the %s it is given: converting the same object again "
                          "(or forwarding it) no longer means the same sliver" % (name, type(arg).__name__), case,
                          expected=before[:400], observed=(mid if mid != before else after)[:400])
        va, vb = view(a), view(b)
        if va != vb:
            res.violation("C02:repeat-differs:%s:%s" % (kind, name), "%s called twice on the same %s gives two different results" % (
                name, type(arg).__name__), case, expected=va[:400], observed=vb[:400])
        # what a converter hands out is the caller's: the first result changed in place (deeply - lists inside Labels,
        # children tables of a sliver, ...) must not show in the next result for the same argument, nor in the argument
        try:
            marks = scribble(a)
        except Exception:
            marks = 0
        if marks:
            res.count("inputs:result-changed-in-place:" + name)
            if snapshot(arg) != before:
                res.count("inputs:result-shares-with-argument:" + name)
                return b
            try:
                vc = view(fn(arg))
            except Exception as e:
                vc = "raises " + err_kind(e)
            if vc != vb:
                res.violation("C02:result-aliased:%s:%s" % (kind, name), "%s hands out an object it keeps: changing the first result in "
                              "place changes what the next call on the same %s returns" % (name, type(arg).__name__), case,
                              expected=vb[:400], observed=vc[:400])
        return b

    def sview(x):
        return canon(observe(x, ocanon, sort_kids=True))

    def jview(x):
        return json.dumps(x, sort_keys=True, default=repr)

    # sliver -> flat properties / deep dictionary / JSON text: the sliver stays as it is
    props = twice("%s_sliver_to_graph_properties_dict" % kind, r["TO"][kind], s, jview)
    d = twice("sliver_to_dict", G.sliver_to_dict, s, jview)
    js = twice("sliver_to_json", r["JSONSliver"].sliver_to_json, s, lambda x: x)
    # flat properties / deep dictionary -> sliver: the caller's dictionary stays as it is (same object both times)
    if props is not None:
        twice("%s_sliver_from_graph_properties_dict" % kind, r["FROM"][kind], props, sview)
    if d is not None:
        sent = json.dumps(d, sort_keys=True, default=repr)
        back = twice("build_deep_%s_sliver_from_dict" % kind, lambda x: r["FROMDICT"][kind](props=x), d, sview)
        # ... and the dictionary forwarded as JSON after it has been converted still describes the sliver
        if back is not None and kind in ("node", "service") and all(isinstance(v, (str, list)) for v in d.values()):
            try:
                fwd = (r["JSONSliver"].node_sliver_from_json if kind == "node" else r["JSONSliver"].network_service_sliver_from_json)(json.dumps(d))
                if sview(fwd) != sview(back) or json.dumps(d, sort_keys=True, default=repr) != sent:
                    res.violation("C02:repeat-differs:%s:dict-forwarded-as-json" % kind, "a deep dictionary forwarded as JSON after it was "
                                  "converted once gives a different sliver", case, expected=sview(back)[:400], observed=sview(fwd)[:400])
            except Exception as e:
                res.violation("C02:repeat-differs:%s:dict-forwarded-as-json:raises:%s" % (kind, err_kind(e)),
                              "a deep dictionary forwarded as JSON after it was converted once cannot be read", case)
    if js is not None and kind in ("node", "service"):
        fn = r["JSONSliver"].node_sliver_from_json if kind == "node" else r["JSONSliver"].network_service_sliver_from_json
        twice("%s_sliver_from_json" % kind, fn, js, sview)
    # sliver -> model graph: the writer leaves the sliver as it is; the reader asked twice answers the same
    if not t.get("wild"):
        from fim.graph.networkx_property_graph import NetworkXPropertyGraph, NetworkXGraphImporter
        _gid[0] += 1
        g = NetworkXPropertyGraph(graph_id="c02-graph-%d" % _gid[0], importer=NetworkXGraphImporter())
        try:
            before = snapshot(s)
            try:
                if kind == "node":
                    g.add_network_node_sliver(sliver=s)
                elif kind == "link":
                    g.add_network_link_sliver(lsliver=s, interfaces=[])
                elif kind == "service":
                    g.add_network_service_sliver(parent_node_id=None, network_service=s)
                elif kind == "interface":
                    g.add_interface_sliver(parent_node_id=None, interface=s)
                else:
                    g.add_node(node_id="c02-parent", label=G.CLASS_NetworkNode, props={"Name": "parent"})
                    g.add_component_sliver(parent_node_id="c02-parent", component=s)
                wrote = True
            except Exception:
                wrote = False
            if snapshot(s) != before:
                res.violation("C02:input-mutated:%s:add_%s_sliver" % (kind, kind), "writing a sliver into a model graph alters the sliver",
                              case, expected=before[:400], observed=snapshot(s)[:400])
            if wrote:
                res.count("inputs:add+build_deep")
                twice(BUILD_DEEP[kind], lambda i: getattr(g, BUILD_DEEP[kind])(node_id=i), s.node_id, sview)
        finally:
            g.delete_graph()


PARENT_CLASS = {"component": "NetworkNode", "service": "Component", "interface": "NetworkService"}


def path_graph_parent(t, mode, pid="c02-px"):
    """the graph path of a component / service / interface sliver below a parent node that exists (`present`) or does
    not (`missing`: add_link's `_find_node` of the parent raises)"""
    from fim.graph.networkx_property_graph import NetworkXPropertyGraph, NetworkXGraphImporter
    r = R.get()
    s = build_sliver(t)
    _gid[0] += 1
    g = NetworkXPropertyGraph(graph_id="c02-graph-%d" % _gid[0], importer=NetworkXGraphImporter())
    try:
        k = t["k"]
        if mode == "present":
            g.add_node(node_id=pid, label=PARENT_CLASS[k], props={})
        if k == "component":
            g.add_component_sliver(parent_node_id=pid, component=s)
            return g.build_deep_component_sliver(node_id=s.node_id)
        if k == "service":
            g.add_network_service_sliver(parent_node_id=pid, network_service=s)
            return g.build_deep_ns_sliver(node_id=s.node_id)
        g.add_interface_sliver(parent_node_id=pid, interface=s)
        return g.build_deep_interface_sliver(node_id=s.node_id)
    finally:
        g.delete_graph()


def clash_ids(rng, t):
    """a copy of the tree in which one element takes the node id of another (add_node rejects an id the graph holds,
    whatever the class of the holder)"""
    import copy
    t2 = copy.deepcopy(t)
    flat = []

    def walk(x):
        flat.append(x)
        for c in x["c"]:
            walk(c)
    walk(t2)
    if len(flat) < 2:
        return None
    a, b = rng.sample(flat, 2)
    b["id"] = a["id"]
    return t2


PATHS = {"props": lambda t: impl_props(t)[1], "dict": lambda t: path_dict(t)[1], "json": path_json, "graph": path_graph}


# --------------------------------------------------------------------------
# correspondence


def correspondence(ctx, res):
    rng = ctx.sub_rng("corr")
    cases = load_corpus("tree") + gen_cases(ctx, rng, ctx.scale(60, 1500), res)
    reqs, impl, meta = [], [], []
    for t in cases:
        try:
            wt = wire_tree(t)
        except Exception as e:
            res.count("build-failed:" + err_kind(e))
            continue
        # 1. flat property dictionary of the top sliver
        props, back = impl_props(t)
        if all(isinstance(v, str) for v in props.values()):
            reqs.append(["props", t["k"], wt["f"]])
            b = back if isinstance(back, list) else observe(back, wire)["f"]
            impl.append(["ok", {"props": props, "back": b}])
            meta.append(t)
        else:
            res.count("skipped:non-string-graph-value")
        # 2. deep dictionary
        try:
            d, backs = path_dict(t)
            b = observe(backs, wire)
            b = strip_ids(b)
            cd = canon_dict(t["k"], d)
        except Exception as e:
            r = R.get()
            cd = canon_dict(t["k"], r["G"].sliver_to_dict(build_sliver(t)))
            b = ["err", err_kind(e)]
        reqs.append(["dict", wt])
        impl.append(["ok", {"dict": cd, "back": b}])
        meta.append(t)
        # 3. model graph (add_*_sliver + build_deep_*_sliver); children come back in no particular order
        try:
            b = sort_tree(observe(path_graph(t), wire))
        except Exception as e:
            b = ["err", err_kind(e)]
        reqs.append(["graph", wt])
        impl.append(["ok", {"back": b}])
        meta.append(t)
        # 3a. the same graph, the rebuild started at every element of the tree (sub-interface, service of a component, ...)
        if t["c"]:
            try:
                b = [[sub["id"], x if isinstance(x, list) else sort_tree(observe(x, wire))] for sub, _, x in path_graph_all(t)]
            except Exception as e:
                b = ["err", err_kind(e)]
            reqs.append(["grapha", wt])
            impl.append(["ok", b])
            meta.append(t)
            res.count("graph-at:starts", len(b) if b and b[0] != "err" else 0)
        # 3b. below a parent that is / is not in the graph (add_link looks both ends up), and with a node id taken twice
        if t["k"] in PARENT_CLASS and not t.get("wild") and rng.random() < 0.5:
            mode = rng.choice(["present", "missing"])
            try:
                b = sort_tree(observe(path_graph_parent(t, mode), wire))
            except Exception as e:
                b = ["err", err_kind(e)]
            reqs.append(["graphx", wt, ["present", "c02-px", PARENT_CLASS[t["k"]]] if mode == "present" else ["missing", "c02-px"]])
            impl.append(["ok", {"back": b}])
            meta.append(t)
            res.count("graph-parent:" + mode)
        if t["c"] and not t.get("wild") and rng.random() < 0.3:
            t2 = clash_ids(rng, t)
            if t2 is not None:
                try:
                    wt2 = wire_tree(t2)
                    try:
                        b = sort_tree(observe(path_graph(t2), wire))
                    except Exception as e:
                        b = ["err", err_kind(e)]
                    reqs.append(["graph", wt2])
                    impl.append(["ok", {"back": b}])
                    meta.append(t2)
                    res.count("graph-id-clash:" + (b[1] if isinstance(b, list) else "accepted"))
                except Exception as e:
                    res.count("build-failed:" + err_kind(e))
    # 4. every route to a property (set_property / set_properties / attribute, get_property / attribute,
    #    unset_property / set_property(None) / attribute = None) on real elements at every position
    thin = ctx.sub_rng("corr-frames")
    for case in load_corpus("elem") + gen_elem_cases(ctx, ctx.sub_rng("corr-elem"), ctx.scale(1, 4), full=ctx.thorough):
        if "elemb" in case and not ctx.thorough:
            # quick tier: every several-property history that starts from an enum member, a third of the others (the oracle runs all)
            case = {"elemb": [tr for tr in case["elemb"] if tr[1] != "+" or tr[2][0][0] in FRAME_ENUMS or thin.random() < 0.34]}
        out = run_elem_case(case)
        for st_, o in zip(out["streams"], out["obs"]):
            cls, gprops, ops, replies = st_[:4]
            reqs.append(["elemc", cls, gprops, ops] + ([st_[4]] if len(st_) > 4 else []))
            impl.append(["ok", replies])
            meta.append({"elem": [[o["pos"], o["key"], o["value"], o["opts"]]]})
            res.count("elem-pos:" + o["pos"])
            res.count("elem-class:" + cls)
            for st in o["steps"]:
                res.count("route:%s:%s" % (st["op"], st["route"]))
    POOL.release()
    model = run_driver([json.dumps(r) for r in reqs])
    for r, i, m, t in zip(reqs, impl, model, meta):
        res.evaluations += 1
        res.count("op:" + r[0])
        mj = json.loads(m)
        if r[0] == "elemc" and mj[0] == "ok":
            mj[1] = [canon_data(x) for x in mj[1]]
        if r[0] in ("graph", "graphx") and mj[0] == "ok" and isinstance(mj[1].get("back"), dict):
            mj[1]["back"] = sort_tree(mj[1]["back"])
        if r[0] == "grapha" and mj[0] == "ok" and isinstance(mj[1], list):
            mj[1] = [[x[0], sort_tree(x[1]) if isinstance(x[1], dict) else x[1]] if isinstance(x, list) and len(x) == 2 and isinstance(x[0], str)
                     and x[0] != "err" else x for x in mj[1]]
        if r[0] == "grapha":
            res.nontrivial.add(canon(r))
        elif r[0] in ("props", "dict", "graph", "graphx"):
            n, d, p = tree_stats(t)
            if d >= 2 or p >= 3:
                res.nontrivial.add(canon(r))
            back = i[1]["back"]
            if isinstance(back, list):
                res.count("err:" + back[1])
        else:
            res.nontrivial.add(canon(r))
            for x in i[1]:
                if isinstance(x, list) and x and x[0] == "err":
                    res.count("err:" + x[1])
        if canon(mj) != canon(i):
            # `orig` is the case description the oracle understands: search() replays it through the property oracle
            res.disagreements.append({"case": r, "impl": i, "model": mj, "orig": t if "elem" in t else {"tree": t}})
    if reqs:
        res.sample({"request": reqs[3], "impl": impl[3], "model": json.loads(model[3])})
        res.sample({"request": reqs[-1], "impl": impl[-1], "model": json.loads(model[-1])})


def run_driver(lines, chunk=700):
    """the interpreted driver in bounded batches: no single run holds the build lock for long"""
    out = []
    for i in range(0, len(lines), chunk):
        out.extend(LeanDriver("C02").run(lines[i:i + chunk]))
    return out


def canon_data(x):
    """a JSON blob as its `.data` getter shows it: the python object (JSON null is indistinguishable from absent)"""
    if isinstance(x, list) and len(x) == 2 and x[0] == "data":
        v = json.loads(x[1])
        return None if v is None else ["data", json.dumps(v, sort_keys=True)]
    return x


def sort_tree(t):
    kids = [sort_tree(c) for c in t["c"]]
    kids.sort(key=lambda c: (c["k"], canon(c["f"].get("name")), canon(c)))
    return {"k": t["k"], "id": t["id"], "f": t["f"], "c": kids}


def strip_ids(t):
    return {"k": t["k"], "id": t["id"], "f": t["f"], "c": [strip_ids(c) for c in t["c"]]}


# --------------------------------------------------------------------------
# elements: every route to a property of a model element, on elements at every position of a topology


ELEM_CLASS = {"node": "Node", "component": "Component", "service": "NetworkService", "interface": "Interface", "link": "Link"}

# position in the topology -> sliver kind (the first five are the positions of the first-round harness)
POS_KIND = {"node": "node", "component": "component", "service": "service", "interface": "interface", "link": "link",
            "subinterface": "interface", "topservice": "service", "serviceport": "interface",
            "switch": "node", "switchservice": "service", "switchport": "interface",
            "facility": "node", "facservice": "service", "facport": "interface",
            "mirror": "service", "composite": "node"}
BASE_POS = ["node", "component", "service", "interface", "link"]
FULL_POS = BASE_POS + ["mirror", "composite", "subinterface"]      # every element class, and the deepest nesting
SET_ROUTES = ["set_property", "set_properties", "attr"]
UNSET_ROUTES = ["unset_property", "set_property_none", "attr_none"]
PAIR_KEYS = ("image_ref", "image_type")


GROUP_B = ["switch", "switchservice", "switchport", "facility", "facservice", "facport", "composite"]


class Els(dict):
    """position -> element (the handle the constructing call returned); `aux`: elements that are no position of their
    own (the DedicatedPort above the sub-interface); `handles`: further handles of the same elements, see other_handles"""
    def __init__(self):
        super().__init__()
        self.aux, self.handles = {}, {}


HANDLE_VIEWS_TOPO = ("nodes", "facilities", "links", "network_services", "interface_list")
HANDLE_VIEWS_ELEM = ("components", "network_services", "interface_list", "interfaces")


HANDLE_NEAR = {"node": [("topo", "nodes")], "component": [("node", "components")], "service": [("component", "network_services")],
               "interface": [("component", "interface_list"), ("service", "interfaces")], "link": [("topo", "links")],
               "subinterface": [], "topservice": [("topo", "network_services")], "serviceport": [("topservice", "interface_list")],
               "mirror": [("topo", "network_services")], "switch": [("topo", "nodes")], "switchservice": [("switch", "network_services")],
               "switchport": [("switchservice", "interface_list"), ("switch", "interfaces")], "facility": [("topo", "facilities")],
               "facservice": [("facility", "network_services")], "facport": [("facservice", "interface_list"), ("facility", "interfaces")],
               "composite": []}


def other_handles(topo, els, pos, want=2):
    """Further handles of the element at `pos`: other python objects for the same graph node, obtained the way user code
    obtains them - from the lookup views of the topology (`topo.nodes[..]`, `.facilities`, `.links`, `.network_services`,
    `.interface_list`) and of the enclosing elements (`node.components[..]`, `.network_services`, `.interface_list`,
    `.interfaces`; every access makes new objects), and by the constructor on an existing id (`check_existing=True`,
    which is what the views call).  -> [(how, handle)], kept for the life of the topology (handles are long-lived)."""
    if pos in els.handles:
        return els.handles[pos]
    from fim.user.model_element import ModelElement
    el = els[pos]
    found, seen = [], {id(el)}
    # the views that list the element, nearest first (every view builds an object per listed element: the full sweep
    # over all views of all elements is the fallback)
    near = HANDLE_NEAR.get(pos, [])
    owners = [(o, topo if o == "topo" else els.get(o) or els.aux.get(o), (v,)) for o, v in near]
    owners = [x for x in owners if x[1] is not None]
    sweep = [("topo", topo, HANDLE_VIEWS_TOPO)] + [(p, e, HANDLE_VIEWS_ELEM) for p, e in list(els.items()) + list(els.aux.items())]
    # a fresh handle of the port above the sub-interface lists its children anew
    if pos == "subinterface" and "component" in els:
        try:
            owners.append(("port'", els["component"].interface_list[1], HANDLE_VIEWS_ELEM))
        except Exception:
            pass
    for group in ((owners, sweep) if pos != "composite" else (owners,)):      # (no view lists a CompositeNode)
        for oname, owner, views in group:
            for vn in views:
                try:
                    v = getattr(owner, vn)
                    items = list(v.values()) if hasattr(v, "values") else list(v or [])
                except Exception:
                    continue
                for h in items:
                    if isinstance(h, ModelElement) and h.node_id == el.node_id and type(h) is type(el) and id(h) not in seen:
                        seen.add(id(h))
                        found.append(("%s.%s" % (oname, vn), h))
        if found or want <= 1:
            break
    try:
        _, props = topo.graph_model.get_node_properties(node_id=el.node_id)
        h = type(el)(name=props.get("Name", el.name), node_id=el.node_id, topo=topo, check_existing=True)
        found.append(("ctor", h))
    except Exception:
        try:
            found.append(("ctor", type(el)(name=el.name, node_id=el.node_id, topo=topo)))
        except Exception:
            pass
    # the most different routes first: one view handle and the constructor handle
    pick = []
    hows = set()
    for how, h in found:
        key = how.split(".")[0] if how != "ctor" else "ctor"
        if key not in hows:
            hows.add(key)
            pick.append((how, h))
    pick = (pick[:1] + [x for x in pick if x[0] == "ctor" and x not in pick[:1]] + pick[1:])
    out, ids = [], set()
    for how, h in pick + found:
        if id(h) not in ids and len(out) < want:
            ids.add(id(h))
            out.append((how, h))
    while out and len(out) < want:      # no view hands out another object for this element: the constructor again
        try:
            out.append(("ctor", type(el)(name=out[-1][1].name, node_id=el.node_id, topo=topo)))
        except Exception:
            break
    els.handles[pos] = out
    return out


def make_topology(full=False, group=None):
    """a slice model with an element at every nesting position; returns (topology, {position: element}).
    `full=False`: only the five base positions.  `group`: "A" = the base positions and the ones built on them,
    "B" = switch / facility / composite node (two smaller graphs: every graph operation scans the node list)."""
    from fim.user.topology import ExperimentTopology
    r = R.get()
    t = ExperimentTopology()
    els = Els()
    if group != "B":
        n1 = t.add_node(name="n1", node_id="n1-id", site="RENC", ntype=r["NodeType"].VM)
        n2 = t.add_node(name="n2", node_id="n2-id", site="UKY", ntype=r["NodeType"].VM)
        c1 = n1.add_component(name="nic1", node_id="c1-id", ctype=r["ComponentType"].SmartNIC, model="ConnectX-6")
        c2 = n2.add_component(name="nic2", node_id="c2-id", ctype=r["ComponentType"].SmartNIC, model="ConnectX-6")
        i1, i1b = c1.interface_list
        i2, i2b = c2.interface_list
        svc = list(c1.network_services.values())[0]
        link = t.add_link(name="l1", node_id="l1-id", ltype=r["LinkType"].Patch, interfaces=[i1, i2])
        els.update({"node": n1, "component": c1, "service": svc, "interface": i1, "link": link})
        if not full:
            return t, els
        n3 = t.add_node(name="n3", node_id="n3-id", site="UKY", ntype=r["NodeType"].VM)
        c3 = n3.add_component(name="nic3", node_id="c3-id", ctype=r["ComponentType"].SmartNIC, model="ConnectX-6")
        i3, i3b = c3.interface_list
        els["subinterface"] = i1b.add_child_interface(name="sub1", node_id="sub1-id", labels=r["Labels"](vlan="100"))
        els.aux["port"] = i1b
        top = t.add_network_service(name="s1", node_id="s1-id", nstype=r["ServiceType"].L2Bridge, interfaces=[i2b, i3])
        els["topservice"] = top
        els["serviceport"] = top.interface_list[0]
        els["mirror"] = t.add_port_mirror_service(name="pm", node_id="pm-id", from_interface_name="p1", to_interface=i3b)
    if group != "A":
        from fim.user.composite_node import CompositeNode
        G = r["G"]
        sw = t.add_switch(name="sw", node_id="sw-id", site="RENC")
        els["switch"] = sw
        els["switchservice"] = list(sw.network_services.values())[0]
        els["switchport"] = sw.interface_list[0]
        fac = t.add_facility(name="fac", node_id="fac-id", site="RENC", capacities=r["Capacities"](bw=10), labels=r["Labels"](vlan="100"))
        els["facility"] = fac
        els["facservice"] = list(fac.network_services.values())[0]
        els["facport"] = fac.interface_list[0]
        t.graph_model.add_node(node_id="comp-id", label=G.CLASS_CompositeNode,
                               props={G.PROP_NAME: "site1", G.PROP_TYPE: "Server", G.PROP_STITCH_NODE: "false"})
        els["composite"] = CompositeNode(name="site1", node_id="comp-id", topo=t)
    return t, els


FALSY = {  # falsy-but-valid values, run on every position in every run
    "node_map": [["t", []], ["t", ["", ""]]],
    "tags": [["tags", []]],
    "flags": [["F", "Flags", {}]],
    "capacities": [["F", "Capacities", {}], ["F", "Capacities", {"core": 0}]],
    "labels": [["F", "Labels", {}]],
    "capacity_hints": [["F", "CapacityHints", {}]],
    "location": [["F", "Location", {}], ["F", "Location", {"lat": 0.0, "lon": 0.0}]],
    "reservation_info": [["F", "ReservationInfo", {}]],
    "mf_data": [["J", "MeasurementData", x] for x in ("{}", "0", '""', "[]", "false", "null")],
    "user_data": [["J", "UserData", x] for x in ("{}", "0", '""', "[]", "false", "null", "0.0")],
    "layout_data": [["J", "LayoutData", x] for x in ("{}", "0", '""', "[]", "false", "null")],
    "details": [["s", ""]], "site": [["s", ""]], "boot_script": [["s", ""]], "model": [["s", ""]],
    "stitch_node": [["b", False]],
    "mirror_vlan": [["s", ""], ["s", "0"]], "mirror_port": [["s", ""]], "controller_url": [["s", ""]],
}


def usable_elem(desc):
    try:
        mk_value(desc)
        return True
    except Exception:
        return False


def gen_elem_cases(ctx, rng, reps, full=True):
    """-> list of cases {"elemb": [[position, key, value description, opts], ...]}: the triples of one case run on one
    fresh topology, at most one per position (elements do not share graph nodes).  Every triple runs every route:
    set through set_property / set_properties / attribute assignment, read through get_property and the attribute,
    unset through unset_property / set_property(None) / attribute = None (pairings rotate with `rot`).
    First pass: every settable name of every element position, with the falsy values and (base positions, thorough:
    every position) every pool value of the enumerated keys; further passes: random values."""
    per_pos = {}
    for pos, kind in POS_KIND.items():
        base = pos in BASE_POS
        lst = []
        for rep in range(reps):
            for k in settable(kind):
                if not ctx.thorough and pos not in FULL_POS and rng.random() < 0.6:
                    continue        # quick tier: the positions that add no new element class get a sample of the names per run
                if rep == 0:
                    descs = list(FALSY.get(k, []))
                    if k in ENUMERATED and (full or k == "stitch_node") and (base or ctx.thorough):
                        pool = value_pool(kind, k)
                        descs += pool[:3] if k == "type" else pool
                    else:
                        descs += [gen_value(rng, kind, k, 7) for _ in range(3 if base else 2)]
                else:
                    descs = [gen_value(rng, kind, k, 7) for _ in range(3)]
                descs = [d for d in descs if usable_elem(d)]
                if not descs:
                    continue
                # every triple is a history over three values: v1, overwritten by v2, ... ; with stride 1 every value
                # (the falsy ones in particular) is once the first write, once the overwrite, once the write after an unset
                stride = 1 if (base and (ctx.thorough or k in FALSY)) else 2 if base else 3
                for i in range(0, len(descs), stride):
                    more = [descs[(i + 1) % len(descs)], descs[(i + 2) % len(descs)]]
                    lst.append([pos, k, descs[i], {"rot": rng.randrange(0, 9), "raw": rng.choice(["inst", "obj", "text"]), "more": more}])
                if k in PAIR_KEYS and rep == 0:     # with the other half of the image pair already stored
                    a, b = gen_value(rng, kind, k, 7), gen_value(rng, kind, k, 7)
                    lst.append([pos, k, a, {"rot": rng.randrange(0, 9), "ctx": "image-stored", "more": [b, a]}])
        for _ in range(2 * reps):     # several keywords in one set_properties call
            keys = [k for k in settable(kind) if k not in ("name", "type", "stitch_node") and k not in PAIR_KEYS]
            ks = rng.sample(keys, min(len(keys), rng.randrange(2, 6)))
            kw = {k: gen_value(rng, kind, k, 7) for k in ks}
            if kind == "node" and rng.random() < 0.5:
                kw["image_ref"], kw["image_type"] = ["s", rng.choice(STRS)], ["s", rng.choice(["qcow2", "raw", "a b"])]
            if all(usable_elem(d) for d in kw.values()):
                lst.append([pos, "*", kw, {}])
        lst.extend(gen_frame_cases(ctx, rng, pos, kind, reps))
        per_pos[pos] = lst
    cases = []
    n = max(len(v) for v in per_pos.values())
    for i in range(n):
        batch = [per_pos[pos][i] for pos in POS_KIND if i < len(per_pos[pos])]
        cases.append({"elemb": batch})
    return cases


FRAME_SKIP = {"name"} | set(PAIR_KEYS)      # the handle's cached name / the fate-sharing image pair have histories of their own
FRAME_ENUMS = ("type", "layer", "mirror_direction", "stitch_node")


def gen_frame_cases(ctx, rng, pos, kind, reps):
    """-> [[position, "+", [[key, v1, v2], ...], opts]]: histories over SEVERAL properties of one element - each is set
    (every member of every enum once as the value that has to survive, the rare ones included; the fresh sliver's own
    defaults too), then the others are set / overwritten / unset through every route, and after every step every property
    of the case is read: a write to one property leaves every other one as it read before (`frame`)."""
    keys = [k for k in settable(kind) if k not in FRAME_SKIP]
    if len(keys) < 2:
        return []
    base = pos in BASE_POS
    out = []

    def others(k, n):
        rest = [x for x in keys if x != k and x != "stitch_node"]
        return rng.sample(rest, min(len(rest), n))

    def entry(k, d1=None):
        d1 = d1 or gen_value(rng, kind, k, 7)
        return [k, d1, gen_value(rng, kind, k, 7)]

    for rep in range(reps):
        for k in keys:
            if k == "stitch_node" and rep:
                continue
            if k in FRAME_ENUMS and rep == 0:
                firsts = value_pool(kind, k)
                if not (base or ctx.thorough):
                    firsts = rng.sample(firsts, min(len(firsts), 2))
            else:
                if not ctx.thorough and pos not in FULL_POS and rng.random() < 0.6:
                    continue
                firsts = list(FALSY.get(k, []))[:1] if rep == 0 and rng.random() < 0.5 else []
                firsts = firsts or [gen_value(rng, kind, k, 7)]
            for d1 in firsts:
                ent = [entry(k, d1)] + [entry(x) for x in others(k, rng.randrange(1, 4))]
                if all(usable_elem(e[1]) and usable_elem(e[2]) for e in ent):
                    out.append([pos, "+", ent, {"rot": rng.randrange(0, 9)}])
    return out


def run_frame(topo, els, tr):
    """[position, "+", [[key, v1, v2], ...], opts]: set every key (v1) in turn, overwrite the first (v2), unset the second,
    set the last again (v2), overwrite the first again through the next route; after every step EVERY key of the case is read
    (get_property through two handles; the deep sliver of the element at the end of the first phase and at the end)."""
    r = R.get()
    pos, ent = tr[0], tr[2]
    opts = tr[3] if len(tr) > 3 else {}
    kind = POS_KIND[pos]
    el = els[pos]
    rot = int(opts.get("rot", 0))
    _, props = topo.graph_model.get_node_properties(node_id=el.node_id)
    gprops = {g: x for g, x in props.items() if g in model_gprops() and isinstance(x, str)}
    extra = other_handles(topo, els, pos, want=2)[:1]      # (the list is cached per position: ask for what the single-key histories ask)
    handles = [el] + [h for _, h in extra]
    hows = ["returned"] + [how for how, _ in extra]
    names0 = [wire(h.name) for h in handles]
    keys = [e[0] for e in ent]
    vals = {}
    for k, d1, d2 in ent:
        lst = []
        for d in (d1, d2):
            v = mk_value(d)
            fresh = r["SLIVER"][kind]()
            fresh.set_property(k, v)
            lst.append((v, fresh.get_property(k)))
        vals[k] = lst
    ops, replies, steps = [], [], []

    def hx(hi):
        return [hi] if hi else []

    def read_all():
        out = {}
        for k in keys:
            gs = []
            for hi, h in enumerate(handles):
                g = elem_get(h, k)
                ops.append(["get", k] + hx(hi))
                replies.append(wire(g[1]) if g[0] == "ok" else g)
                gs.append(g)
            out[k] = gs
        return out

    def read_sliver():
        out = {}
        try:
            sl = el.get_sliver()
        except Exception as e:
            return {k: ["err", err_kind(e)] for k in keys}
        for k in keys:
            try:
                out[k] = ["ok", sl.get_property(k)]
            except Exception as e:
                out[k] = ["err", err_kind(e)]
        return out

    start = read_all()
    last = [start]
    n = [0]

    def step(op, k, vi=0):
        w = (n[0] + rot) % len(handles)
        h = handles[w]
        has_get, has_set = attr_info(h, k) if isinstance(k, str) else (False, False)
        if op == "setmulti":       # one set_properties call with several keywords (k: the list of them)
            route = "set_properties-multi"
            res = call(lambda: h.set_properties(**{x: vals[x][vi][0] for x in k}))
            ops.append(["setprops", [[x, wire(vals[x][vi][1])] for x in k]] + hx(w))
        elif op == "set":
            sroutes = [s for s in SET_ROUTES if s != "attr" or (has_set and not isinstance(vals[k][vi][0], r["JSONData"]))]
            route = sroutes[(n[0] + rot) % len(sroutes)]
            v, stored = vals[k][vi]
            if route == "set_property":
                res = call(lambda: h.set_property(k, v))
                ops.append(["set", k, wire(stored)] + hx(w))
            elif route == "set_properties":
                res = call(lambda: h.set_properties(**{k: v}))
                ops.append(["setprops", [[k, wire(stored)]]] + hx(w))
            else:
                res = call(lambda: setattr(h, k, v))
                ops.append(["attrset", k, wire(stored)] + hx(w))
        else:
            uroutes = [u for u in UNSET_ROUTES if u != "attr_none" or has_set]
            route = uroutes[(n[0] + rot) % len(uroutes)]
            if route == "unset_property":
                res = call(lambda: h.unset_property(k))
                ops.append(["unset", k] + hx(w))
            elif route == "set_property_none":
                res = call(lambda: h.set_property(k, None))
                ops.append(["setnone", k] + hx(w))
            else:
                res = call(lambda: setattr(h, k, None))
                ops.append(["attrset", k, None] + hx(w))
        n[0] += 1
        replies.append(res)
        g = read_all()
        steps.append({"op": op, "route": route, "key": k, "res": res, "prev": last[0], "got": g, "writer": w})
        last[0] = g

    for k in keys:
        step("set", k, 0)
    steps[-1]["sliver"] = read_sliver()
    step("set", keys[0], 1)
    step("unset", keys[1])
    step("set", keys[-1], 1)
    step("set", keys[0], 0)
    if len(keys) > 2:
        step("setmulti", keys[1:], 1)
    step("unset", keys[-1])
    steps[-1]["sliver"] = read_sliver()
    # pooled topologies: put the element back as it was found (not part of the history)
    for k in keys:
        b = start[k][0]
        try:
            now = elem_get(el, k)
            if b[0] == "ok" and now[0] == "ok" and canon(ocanon(now[1])) != canon(ocanon(b[1])):
                if b[1] is None:
                    el.unset_property(k)
                else:
                    el.set_property(k, b[1])
        except Exception:
            pass
    stream = (type(el).__name__, gprops, ops, replies, names0[0] if len(handles) == 1 else {"names": names0})
    obs = {"pos": pos, "kind": kind, "cls": type(el).__name__, "key": "+", "value": ent, "opts": opts, "steps": steps, "hows": hows,
           "start": start}
    return stream, obs


def check_frame(o, c, res):
    """a write (or unset, or rejected operation) on one property leaves every other property of the element reading what
    it read before, through every handle and in the element's deep sliver"""
    cls = ELEM_CLASS[o["kind"]]
    found = {}
    for st in o["steps"]:
        kt = st["key"]
        for k, gs in st["got"].items():
            if k == kt or (isinstance(kt, list) and k in kt):
                continue
            for hi, g in enumerate(gs):
                p = st["prev"][k][hi]
                if canon(rd_canon(g)) == canon(rd_canon(p)):
                    continue
                if g[0] != "ok":
                    what = "get-raises:" + g[1]
                elif p[0] != "ok":
                    continue
                elif g[1] is None:
                    what = "lost"
                elif canon(ocanon(g[1])) == canon(ocanon(default_of(o["kind"], k))):
                    what = "reset-to-default"
                else:
                    what = "changed"
                found.setdefault((k, what, st["op"]), (kt, st["route"], rd_canon(p), rd_canon(g)))
                break
        sl = st.get("sliver")
        if sl:
            for k, g in sl.items():
                g0 = st["got"][k][0]
                if canon(rd_canon(g)) != canon(rd_canon(g0)):
                    found.setdefault((k, "sliver-get-differs", st["op"]), (st["key"], st["route"], rd_canon(g0), rd_canon(g)))
    for (k, what, op), (kt, route, exp, obs) in sorted(found.items()):
        tag = k if k == "stitch_node" else "%s:%s" % (cls, k)       # (the base sliver's default: one finding for all classes)
        res.violation("C02:frame:%s:%s:by=%s" % (tag, what, "set" if op == "setmulti" else op),
                      "%s of %s on a %s (position %s) through %s: %s read %s before and reads %s after" % (
                          op, kt, o["cls"], o["pos"], route, k, canon(exp), canon(obs)), c, expected=exp, observed=obs)


MODEL_GPROPS = None


def model_gprops():
    global MODEL_GPROPS
    if MODEL_GPROPS is None:
        r = R.get()
        K = r["G"]
        MODEL_GPROPS = {getattr(K, a) for a in dir(K) if a.startswith("PROP_")}
    return MODEL_GPROPS


def scribble(x, _seen=None, _depth=0):
    """A value a getter / converter handed out belongs to the caller: change it in place, deeply, the way user code does
    before writing it back (`lab = n.labels; lab.vlan_range.append(..); n.labels = lab`) - every list gets an element,
    every dict a key, every set a member, every public attribute of a value object of the repo's classes is reassigned or
    (containers) changed in place; slivers are walked through their children.  Enum members, strings, numbers and
    address objects are shared by design and left alone.  Nothing read afterwards - from this element or any other -
    may show the marks.  -> number of places changed."""
    import enum
    import ipaddress
    r = R.get()
    seen = _seen if _seen is not None else set()
    if x is None or isinstance(x, (str, bytes, int, float, bool, enum.Enum, ipaddress.IPv4Address, ipaddress.IPv6Address,
                                   ipaddress.IPv4Network, ipaddress.IPv6Network, type)) or id(x) in seen or _depth > 8:
        return 0
    seen.add(id(x))
    n = 0
    if isinstance(x, list):
        for y in list(x):
            n += scribble(y, seen, _depth + 1)
        x.append("scribble")
        return n + 1
    if isinstance(x, dict):
        for y in list(x.values()):
            n += scribble(y, seen, _depth + 1)
        x["scribble"] = "scribble"
        return n + 1
    if isinstance(x, set):
        x.add("scribble")
        return 1
    if isinstance(x, tuple):
        for y in x:
            n += scribble(y, seen, _depth + 1)
        return n
    mod = getattr(type(x), "__module__", "") or ""
    if not mod.startswith("fim.") or not hasattr(x, "__dict__"):
        return 0
    for a, y in list(vars(x).items()):
        if isinstance(y, (list, dict, set, tuple)) or (hasattr(y, "__dict__") and not isinstance(y, (enum.Enum, type))):
            n += scribble(y, seen, _depth + 1)
        elif not a.startswith("_") and isinstance(x, (r["JSONField"],)) and not isinstance(y, bool):
            # a scalar field of a Labels / Capacities / ... object handed out: reassigned on the caller's copy
            try:
                setattr(x, a, "scribble" if not isinstance(y, (int, float)) or y is None else y + 7)
                n += 1
            except Exception:
                pass
    return n


def elem_get(el, k):
    try:
        return ["ok", el.get_property(k)]
    except Exception as e:
        return ["err", err_kind(e)]


def attr_get(el, k):
    try:
        return ["ok", getattr(el, k)]
    except Exception as e:
        return ["err", err_kind(e)]


def call(fn):
    try:
        fn()
        return "ok"
    except Exception as e:
        return ["err", err_kind(e)]


def attr_info(el, k):
    """(has a python property of that name, it has a setter) - by introspection of the class, nothing else"""
    p = getattr(type(el), k, None)
    if not isinstance(p, property):
        return False, False
    return True, p.fset is not None


def data_view(stored):
    """what a `.data` getter shows of a stored JSONData value"""
    return ["data", json.dumps(json.loads(stored.json), sort_keys=True)]


def attr_reply(el, k, got):
    """attribute read on the wire: JSON blobs are shown as python objects by their getters"""
    if got[0] != "ok":
        return got
    v = got[1]
    if k in ("mf_data", "user_data", "layout_data") and v is not None:
        return ["data", json.dumps(v, sort_keys=True)]
    if k in ("mf_data", "user_data", "layout_data"):
        return None
    return wire(v)


def run_multi(topo, els, tr):
    """[position, "*", {key: value description}, opts]: one set_properties(**kw) call with several keywords, then every
    keyword read back"""
    r = R.get()
    pos, _, kw = tr[0], tr[1], tr[2]
    opts = tr[3] if len(tr) > 3 else {}
    kind = POS_KIND[pos]
    el = els[pos]
    _, props = topo.graph_model.get_node_properties(node_id=el.node_id)
    gprops = {g: x for g, x in props.items() if g in model_gprops() and isinstance(x, str)}
    vals, stored = {}, {}
    for k, d in kw.items():
        vals[k] = mk_value(d)
        fresh = r["SLIVER"][kind]()
        fresh.set_property(k, vals[k])
        stored[k] = fresh.get_property(k)
    before = {k: elem_get(el, k) for k in kw}
    # written through another handle of the element, read through the one that has read before
    oh = other_handles(topo, els, pos, want=2)
    wh = oh[0][1] if oh else el
    res = call(lambda: wh.set_properties(**vals))
    ops = [["setprops", [[k, wire(stored[k])] for k in kw]]]
    replies = [res]
    got = {}
    for k in kw:
        got[k] = elem_get(el, k)
        ops.append(["get", k])
        replies.append(wire(got[k][1]) if got[k][0] == "ok" else got[k])
    stream = (type(el).__name__, gprops, ops, replies)
    obs = {"pos": pos, "kind": kind, "cls": type(el).__name__, "key": "*", "value": kw, "opts": opts, "stored": stored,
           "before": before, "res": res, "got": got, "steps": []}
    return stream, obs


def run_elem_triple(topo, els, tr):
    """one (position, key, values) through every route, as a *history* on one element: set v1, overwrite with v2
    (the last write must win, falsy values included), unset, set v3, overwrite, unset, ... ; every set and unset route
    is taken, each followed by both readers.  Returns (driver stream, oracle observation).
    `opts`: rot (rotation of routes), more ([v2, v3] value descriptions), raw (how a JSON blob is assigned to the
    attribute), ctx ("image-stored": the image pair is in the graph when a set route is taken)."""
    r = R.get()
    if tr[1] == "*":
        return run_multi(topo, els, tr)
    if tr[1] == "+":
        return run_frame(topo, els, tr)
    pos, k, d = tr[0], tr[1], tr[2]
    opts = tr[3] if len(tr) > 3 else {}
    kind = POS_KIND[pos]
    el = els[pos]
    rot = int(opts.get("rot", 0))
    _, props = topo.graph_model.get_node_properties(node_id=el.node_id)
    gprops = {g: x for g, x in props.items() if g in model_gprops() and isinstance(x, str)}
    has_get, has_set = attr_info(el, k)
    # several handles of the one element: the object the constructing call returned, and objects handed out by the lookup
    # views / the constructor on the existing id.  Writes rotate over them, every handle reads after every step.
    nh = int(opts.get("handles", 3))
    extra = other_handles(topo, els, pos, want=max(0, nh - 1)) if nh > 1 else []
    handles = [el] + [h for _, h in extra]
    hows = ["returned"] + [how for how, _ in extra]
    names0 = [wire(h.name) for h in handles]    # each handle's cached name (it follows assignments to the attribute, not set_property)
    name0 = names0[0]
    descs = [d] + [x for x in (opts.get("more") or []) if usable_elem(x)]
    vals = []       # (value, what the sliver's setter stores, what is assigned to the attribute, what that stores)
    for i, dd in enumerate(descs):
        v = mk_value(dd)
        fresh = r["SLIVER"][kind]()
        fresh.set_property(k, v)
        stored = fresh.get_property(k)
        assigned, stored_attr = v, stored
        if isinstance(v, r["JSONData"]) and has_set:
            raw = ["inst", "obj", "text"][(["inst", "obj", "text"].index(opts.get("raw", "inst")) + i) % 3]
            obj = json.loads(v.json)
            if raw == "text":
                assigned = v.json
            elif raw == "obj" and obj is not None and not isinstance(obj, str):
                try:
                    assigned, stored_attr = obj, type(v)(obj)
                except Exception:       # the object's own spelling is over the size limit: the text it is
                    assigned, stored_attr = v.json, stored
        vals.append((v, stored, assigned, stored_attr))
    ops, replies, steps = [], [], []
    marks = [0]

    def hx(hi):
        return [hi] if hi else []

    def read():
        gs = []
        for hi, h in enumerate(handles):
            g1 = elem_get(h, k)
            ops.append(["get", k] + hx(hi))
            replies.append(wire(g1[1]) if g1[0] == "ok" else g1)
            g2 = None
            if has_get:
                g2 = attr_get(h, k)
                ops.append(["attrget", k] + hx(hi))
                replies.append(attr_reply(h, k, g2))
            gs.append((g1, g2))
        # what the getters hand out is the caller's: one more object from every getter of every handle, changed in place
        # (deeply) and dropped.  Every later read - through any handle, of any element - must be free of the marks.
        if opts.get("scribble", True):
            for h in handles:
                for fn in ((lambda: h.get_property(k)), (lambda: getattr(h, k)) if has_get else None):
                    if fn is not None:
                        try:
                            marks[0] += scribble(fn())
                        except Exception:
                            pass
        return gs

    nstep = [0]

    def writer():
        nstep[0] += 1
        return (nstep[0] - 1 + rot) % len(handles)

    before_all = read()
    before = before_all[0]
    last = [before_all]
    sroutes = [s for s in SET_ROUTES if s != "attr" or has_set]
    uroutes = [u for u in UNSET_ROUTES if u != "attr_none" or has_set]

    def do_set(ri, vi, first=False):
        sr = sroutes[(ri + rot) % len(sroutes)]
        v, stored, assigned, stored_attr = vals[vi % len(vals)]
        want = stored
        w = writer()
        el = handles[w]
        if opts.get("ctx") == "image-stored":
            # the other half of the image pair is in the graph when the route is taken
            res = call(lambda: el.set_properties(image_ref="stored-image", image_type="qcow2"))
            ops.append(["setprops", [["image_ref", ["s", "stored-image"]], ["image_type", ["s", "qcow2"]]]] + hx(w))
            replies.append(res)
            last[0] = read()
        if sr == "set_property":
            res = call(lambda: el.set_property(k, v))
            ops.append(["set", k, wire(stored)] + hx(w))
        elif sr == "set_properties":
            res = call(lambda: el.set_properties(**{k: v}))
            ops.append(["setprops", [[k, wire(stored)]]] + hx(w))
        else:
            res = call(lambda: setattr(el, k, assigned))
            ops.append(["attrset", k, wire(stored_attr)] + hx(w))
            want = stored_attr
        replies.append(res)
        g = read()
        steps.append({"op": "set", "route": sr, "res": res, "want": want, "prev": last[0][w], "got": g[w], "vi": vi % len(vals),
                      "writer": w, "gots": g, "prevs": last[0]})
        if first:
            # the third reader: the deep sliver of the element (build_deep_*_sliver on the live topology)
            try:
                marks[0] += scribble(el.get_sliver())        # (a first deep sliver, changed in place and dropped)
                steps[-1]["sliver"] = ["ok", el.get_sliver().get_property(k)]
            except Exception as e:
                steps[-1]["sliver"] = ["err", err_kind(e)]
        last[0] = g

    def do_unset(ri, op="unset"):
        ur = uroutes[(ri + rot // 3) % len(uroutes)]
        w = writer()
        el = handles[w]
        if ur == "unset_property":
            res = call(lambda: el.unset_property(k))
            ops.append(["unset", k] + hx(w))
        elif ur == "set_property_none":
            res = call(lambda: el.set_property(k, None))
            ops.append(["setnone", k] + hx(w))
        else:
            res = call(lambda: setattr(el, k, None))
            ops.append(["attrset", k, None] + hx(w))
        replies.append(res)
        g = read()
        steps.append({"op": op, "route": ur, "res": res, "prev": last[0][w], "got": g[w], "writer": w, "gots": g, "prevs": last[0]})
        last[0] = g

    # the history: overwrite (v1 -> v2), unset, set after unset (v3), overwrite (-> v1), unset, set (v2), unset, unset again
    do_set(0, 0, first=True)
    do_set(1, 1)
    do_unset(0)
    do_set(2, 2)
    do_set(0, 0)
    do_unset(1)
    if len(uroutes) > 2:
        do_set(1, 1)
        do_unset(2)
    # unsetting what is not there (any more): whatever the route answers, the property reads absent afterwards
    do_unset(rot + 1, op="unset-absent")
    # every other property must still be readable
    # (one rebuild of the node's sliver, which is what each get_property does)
    others = {}
    try:
        _, nprops = topo.graph_model.get_node_properties(node_id=el.node_id)
        sl = r["FROM"][kind](nprops)
        for k2 in settable(kind):
            try:
                sl.get_property(k2)
                others[k2] = "ok"
            except Exception as e:
                others[k2] = err_kind(e)
    except Exception as e:
        others = {k2: err_kind(e) for k2 in settable(kind)}
    stream = (type(el).__name__, gprops, ops, replies, name0 if len(handles) == 1 else {"names": names0})
    obs = {"pos": pos, "kind": kind, "cls": type(el).__name__, "key": k, "value": d, "opts": opts, "stored": vals[0][1],
           "has_get": has_get, "has_set": has_set, "before": before, "steps": steps, "others": others, "hows": hows, "marks": marks[0]}
    return stream, obs


class TopoPool:
    """batched cases reuse the topologies for a few batches (every sequence leaves its property unset, each triple
    hands the driver the node as it is at that moment, and findings are confirmed on a fresh topology): building a
    topology is most of the cost of a batch"""
    def __init__(self, uses=6):
        self.uses, self.n, self.cur = uses, 0, None

    def get(self):
        if self.cur is None or self.n >= self.uses:
            self.release()
            self.cur = [make_topology(full=True, group="A"), make_topology(full=True, group="B")]
            self.n = 0
        self.n += 1
        return self.cur

    def release(self):
        if self.cur is not None:
            for t, _ in self.cur:
                try:
                    t.graph_model.delete_graph()
                except Exception:
                    pass
        self.cur = None


POOL = TopoPool()


def run_elem_case(case):
    """`elem`: every triple on its own fresh topology (minimised / corpus cases); `elemb`: all triples of the case on one"""
    streams, obs = [], []
    if "elemb" in case:
        (ta, ea), (tb, eb) = POOL.get()
        try:
            for tr in case["elemb"]:
                topo, els = (tb, eb) if tr[0] in GROUP_B else (ta, ea)
                s, o = run_elem_triple(topo, els, tr)
                streams.append(s)
                obs.append(o)
        except Exception:
            POOL.release()
            raise
        return {"streams": streams, "obs": obs}
    for tr in case["elem"]:
        topo, els = make_topology(full=tr[0] not in BASE_POS, group="B" if tr[0] in GROUP_B else "A")
        try:
            s, o = run_elem_triple(topo, els, tr)
            streams.append(s)
            obs.append(o)
        finally:
            topo.graph_model.delete_graph()
    return {"streams": streams, "obs": obs}


# --------------------------------------------------------------------------
# oracle


def compare_trees(orig, back, out):
    """orig/back: observe(.., ocanon, sort_kids=True) trees; out collects (kind, key-or-'children', what, expected, observed)"""
    kind = orig["k"]
    for k in settable(kind):
        a, b = orig["f"].get(k), back["f"].get(k)
        if canon(a) != canon(b):
            what = "lost" if b is None else ("appeared" if a is None else "changed")
            if k == "image_type" and what == "changed" and a and "," in a[1]:
                what += ":image_type-comma"
            if k == "image_ref" and what == "changed" and orig["f"].get("image_type") and "," in orig["f"]["image_type"][1]:
                what += ":image_type-comma"
            out.append((kind, k, what, a, b))
    on = [(c["k"], canon(c["f"].get("name"))) for c in orig["c"]]
    bn = [(c["k"], canon(c["f"].get("name"))) for c in back["c"]]
    if sorted(on) != sorted(bn):
        missing = sorted({k for k, _ in set(on) - set(bn)})
        extra = sorted({k for k, _ in set(bn) - set(on)})
        out.append((kind, "children", "missing=%s:extra=%s" % (",".join(missing), ",".join(extra)), on, bn))
        return
    bmap = {x: c for x, c in zip(bn, back["c"])}
    for x, c in zip(on, orig["c"]):
        compare_trees(c, bmap[x], out)


ALL_PATHS = ("props", "dict", "json", "graph")


def check_tree(t, res, paths=ALL_PATHS):
    """the property itself: every path gives back the same fields and the same children.  A finding is identified by
    (sliver kind, property, kind of difference) and the set of paths on which it shows."""
    try:
        orig = observe(build_sliver(t), ocanon, sort_kids=True)
    except Exception as e:
        res.count("build-failed:" + err_kind(e))
        return
    if t.get("wild"):
        paths = tuple(p for p in paths if p != "graph")
    found = {}          # (kind, key, what) -> {path: (expected, observed)}
    deep = bool(t["c"])
    for path in paths:
        o = dict(orig, c=[]) if path == "props" else orig
        try:
            back = PATHS[path](t)
            if isinstance(back, list):          # impl_props error marker
                found.setdefault((t["k"], "*", "raises:%s%s" % (back[1], raise_hint(t))), {})[path] = (None, back[1])
                continue
            b = observe(back, ocanon, sort_kids=True)
        except Exception as e:
            # (also what observing the rebuilt sliver raises, e.g. on a containment cycle)
            found.setdefault((t["k"], "*", "raises:%s%s" % (err_kind(e), raise_hint(t))), {})[path] = (None, "%s: %s" % (type(e).__name__, str(e)[:120]))
            continue
        if path == "props":
            b = dict(b, c=[])
        out = []
        compare_trees(o, b, out)
        for kind, k, what, a, bb in out:
            found.setdefault((kind, k, what), {})[path] = (a, bb)
    # the model graph read from EVERY element of the tree: each rebuild is the corresponding subtree of what was written
    if "graph" in paths and t["c"] and not any("graph" in bp and w.startswith("raises") for (_, _, w), bp in found.items()):
        subs = {}

        def index(o):
            subs[o["id"]] = o
            for c in o["c"]:
                index(c)
        index(orig)
        try:
            rebuilt = path_graph_all(t)
        except Exception as e:
            rebuilt = []
            res.violation("C02:roundtrip:graph-at:%s:*:raises:%s" % (t["k"], err_kind(e)), "writing the tree a second time raises", {"tree": t, "paths": ["graph"]})
        for sub, where, back in rebuilt[1:]:        # [0] is the root, compared above
            res.count("graph-at:" + where)
            if isinstance(back, list):
                res.violation("C02:roundtrip:graph-at:%s:*:raises:%s" % (where, back[1]), "build_deep_%s_sliver started at an inner element "
                              "(%s) of a written tree raises" % (sub["k"], where), {"tree": t, "paths": ["graph"]}, observed=back[1])
                continue
            out = []
            try:
                compare_trees(subs[sub["id"]], observe(back, ocanon, sort_kids=True), out)
            except Exception as e:
                res.violation("C02:roundtrip:graph-at:%s:*:raises:%s" % (where, err_kind(e)), "the sliver rebuilt from an inner element (%s) "
                              "cannot be read" % where, {"tree": t, "paths": ["graph"]})
                continue
            for kind, k, what, a, bb in out:
                if (kind, k, what) in found and "graph" in found[(kind, k, what)]:
                    continue        # the same difference already shows on the rebuild started at the root
                res.violation("C02:roundtrip:graph-at:%s:%s:%s:%s" % (where, kind, k, what),
                              "a %s rebuilt from the model graph starting at the element itself (%s of the written tree): %s %s" % (
                                  sub["k"], where, k, what), {"tree": t, "paths": ["graph"]}, expected=a, observed=bb)
    for (kind, k, what), by_path in sorted(found.items()):
        ran = [p for p in paths if not (p == "props" and kind != t["k"])]
        hit = [p for p in paths if p in by_path]
        # a difference below the top sliver cannot show on the flat props path
        relevant = [p for p in paths if p != "props" or (kind == t["k"] and k != "children")]
        where = "all-paths" if set(hit) >= set(relevant) and len(paths) >= 3 else "paths=" + "+".join(hit)
        a, bb = by_path[hit[0]]
        res.violation("C02:roundtrip:%s:%s:%s:%s" % (where, kind, k, what),
                      "%s of a %s sliver: %s through %s" % (("property " + k) if k not in ("*", "children") else ("conversion" if k == "*" else "children"),
                                                          kind, what, where), {"tree": t, "paths": list(paths)}, expected=a, observed=bb)


def raise_hint(t):
    """names the input class of a raising conversion from the case itself"""
    hints = []

    def walk(x):
        ir = x["f"].get("image_ref")
        it = x["f"].get("image_type")
        if ir and it and ("," in ir[1] or "," in it[1]):
            hints.append("image_ref-comma")
        if "name" not in x["f"]:
            hints.append("no-name")
        for c in x["c"]:
            walk(c)
    walk(t)
    return (":" + "+".join(sorted(set(hints)))) if hints else ""


def default_of(kind, k):
    return R.get()["SLIVER"][kind]().get_property(k)


def is_empty_codec(v):
    """an all-default JSONField object: its text is the empty string, which is also how an absent value is stored
    (C03 `roundtrip_iff` characterises exactly this class) - reading it back as absent is what C03 states.  `spec_empty`:
    decided by the oracle, not by the codec under check"""
    return spec_empty(v)


def attr_view(k, v):
    """what the attribute getter shows for a stored value (oracle side)"""
    r = R.get()
    if isinstance(v, r["JSONData"]):
        obj = json.loads(v.json)
        return None if obj is None else ["pyobj", json.dumps(obj, sort_keys=True)]     # JSON null *is* python None
    return ocanon(v)


def attr_seen(k, v):
    if k in ("mf_data", "user_data", "layout_data") and v is not None and not isinstance(v, R.get()["JSONData"]):
        return ["pyobj", json.dumps(v, sort_keys=True)]
    return ocanon(v)


def rd_canon(g, attr_key=None):
    """a reading (["ok", value] | ["err", kind]) in oracle-canonical form"""
    if g[0] != "ok":
        return ["err", g[1]]
    return ["ok", attr_seen(attr_key, g[1]) if attr_key else ocanon(g[1])]


def check_elem(case, res):
    """the property itself on elements: after a set through any route both readers return an equal value; after an
    unset through any route both read absent; a rejected operation changes nothing; nothing else becomes unreadable.
    A finding is identified by (element class of the kind, property, what) and by the routes on which it shows
    (no route suffix when it shows on every route that was run)."""
    out = run_elem_case(case)
    for o in out["obs"]:
        kind, k, cls = o["kind"], o["key"], ELEM_CLASS[o["kind"]]
        c = {"elem": [[o["pos"], k, o["value"], o["opts"]]]}
        if k == "*":
            check_multi(o, c, res)
            continue
        if k == "+":
            check_frame(o, c, res)
            continue
        tag = "%s:%s" % (cls, k)
        ctx_s = (":ctx=" + o["opts"]["ctx"]) if o["opts"].get("ctx") else ""
        dflt = canon(ocanon(default_of(kind, k)))
        found = {}      # (family, what) -> {route: (expected, observed)}
        ran = {"set": [], "unset": []}

        def add(fam, what, route, exp=None, obs=None):
            found.setdefault((fam, what), {})[route] = (exp, obs)

        for st in o["steps"]:
            g1, g2 = st["got"]
            p1, p2 = st["prev"]
            route = st["route"]
            # every other handle of the element reads what the writing handle reads (value or error alike); the cached
            # `name` attribute is the one piece of state a handle owns
            fam_ = "set_get" if st["op"] == "set" else "unset_get"
            for hi, (h1, h2) in enumerate(st.get("gots") or []):
                if hi == st.get("writer"):
                    continue
                how = (o.get("hows") or [])[hi].split(".")[-1] if hi < len(o.get("hows") or []) else "other"
                if canon(rd_canon(h1)) != canon(rd_canon(g1)):
                    add(fam_, "other-handle-differs", route, rd_canon(g1), rd_canon(h1))
                    res.count("handle-differs:" + how)
                elif k != "name" and g2 is not None and h2 is not None and canon(rd_canon(h2, k)) != canon(rd_canon(g2, k)):
                    add(fam_, "other-handle-attr-differs", route, rd_canon(g2, k), rd_canon(h2, k))
                    res.count("handle-differs:" + how)
            if st["op"] == "set":
                want = st["want"]
                # a set route counts where the write is visible (the element held something else)
                if p1[0] != "ok" or canon(ocanon(p1[1])) != canon(ocanon(want)):
                    ran["set"].append(route)
                if st["res"] != "ok":
                    add("set_get", "set-raises:" + st["res"][1], route)
                    # a rejected set changes nothing
                    if g1[0] == "ok" and p1[0] == "ok" and canon(ocanon(g1[1])) != canon(ocanon(p1[1])):
                        add("set_get", "rejected-but-changed", route)
                    continue
                if g1[0] != "ok":
                    add("set_get", "get-raises:" + g1[1], route)
                    continue
                ok_vals = [canon(ocanon(want))] + ([canon(None)] if is_empty_codec(want) else [])
                if canon(ocanon(g1[1])) not in ok_vals:
                    was = canon(ocanon(p1[1])) if p1[0] == "ok" else None
                    what = "dropped" if canon(ocanon(g1[1])) == was else "changed"
                    if k == "image_type" and what == "changed" and isinstance(want, str) and "," in want:
                        what += ":image_type-comma"
                    add("set_get", what, route, ocanon(want), ocanon(g1[1]))
                elif st.get("sliver") is not None and (st["sliver"][0] != "ok" or canon(ocanon(st["sliver"][1])) not in ok_vals):
                    add("set_get", "sliver-get-differs" if st["sliver"][0] == "ok" else "sliver-get-raises:" + st["sliver"][1], route,
                        ocanon(want), ocanon(st["sliver"][1]) if st["sliver"][0] == "ok" else None)
                elif g2 is not None and (k != "name" or route == "attr"):
                    # `el.name` is the handle's cached name: it follows assignments to the attribute (and rename()), not set_property
                    if g2[0] != "ok":
                        add("set_get", "attr-get-raises:" + g2[1], route)
                    elif canon(attr_seen(k, g2[1])) not in [canon(attr_view(k, want))] + ([canon(None)] if is_empty_codec(want) else []):
                        add("set_get", "attr-get-differs", route, attr_view(k, want), attr_seen(k, g2[1]))
            else:
                # an unset route counts where there was something to unset (the element held a non-default value)
                held = p1[0] == "ok" and p1[1] is not None and canon(ocanon(p1[1])) != dflt
                if st["op"] == "unset" and held:
                    ran["unset"].append(route)
                if st["res"] != "ok":
                    # rejected: must change nothing (either reader)
                    ch1 = g1[0] == "ok" and p1[0] == "ok" and canon(ocanon(g1[1])) != canon(ocanon(p1[1]))
                    ch2 = g2 is not None and g2[0] == "ok" and p2[0] == "ok" and canon(attr_seen(k, g2[1])) != canon(attr_seen(k, p2[1]))
                    if ch1 or ch2:
                        add("unset_get", "rejected-but-changed", route, ocanon(p1[1]) if ch1 else attr_seen(k, p2[1]),
                            ocanon(g1[1]) if ch1 else attr_seen(k, g2[1]))
                    if st["op"] == "unset":
                        continue
                if g1[0] != "ok":
                    add("unset_get", "get-raises:" + g1[1], route)
                    continue
                if st["res"] == "ok" and g1[1] is not None and canon(ocanon(g1[1])) != dflt:
                    add("unset_get", "still-set", route, None, ocanon(g1[1]))
                elif st["res"] == "ok" and g2 is not None and g2[0] == "ok" and g2[1] is not None and canon(attr_seen(k, g2[1])) != dflt \
                        and k != "name":
                    add("unset_get", "attr-still-set", route, None, attr_seen(k, g2[1]))
                elif st["op"] == "unset-absent" and st["res"] != "ok" and g1[1] is not None and canon(ocanon(g1[1])) != dflt \
                        and canon(ocanon(g1[1])) != canon(ocanon(p1[1]) if p1[0] == "ok" else None):
                    add("unset_get", "appeared-after-failed-unset", route, None, ocanon(g1[1]))
        bad_others = sorted(x for x, y in o["others"].items() if y != "ok")
        if bad_others and not any(w.startswith("get-raises") for (_, w) in found):
            res.violation("C02:set_get:%s:other-reads-raise" % tag, "after set/unset of %s other properties cannot be read: %s" % (k, bad_others), c)
        for (fam, what), by_route in sorted(found.items()):
            hit = [x for x in (SET_ROUTES if fam == "set_get" else UNSET_ROUTES) if x in by_route]
            all_run = ran["set" if fam == "set_get" else "unset"]
            everywhere = set(hit) >= set(all_run)
            rs = "" if everywhere else ":routes=" + "+".join(hit)
            exp, obs = by_route[hit[0]]
            if fam == "unset_get" and what == "still-set":
                # the unset table is shared by all element classes: the property name identifies the finding
                sig = "C02:unset_get:%s:still-set%s%s" % (k, ctx_s, rs)
                txt = "unsetting %s on a %s (position %s) leaves it readable" % (k, o["cls"], o["pos"])
            elif fam == "unset_get":
                sig = "C02:unset_get:%s:%s%s%s" % (tag, what, ctx_s, rs)
                txt = "unset of %s on a %s (position %s): %s" % (k, o["cls"], o["pos"], what)
            else:
                sig = "C02:set_get:%s:%s%s%s" % (tag, what, ctx_s, rs)
                txt = "setting %s on a %s (position %s) and reading it back: %s" % (k, o["cls"], o["pos"], what)
            txt += " - through %s" % ("every route" if everywhere else "+".join(hit))
            res.violation(sig, txt, c, expected=exp, observed=obs)


def check_multi(o, c, res):
    """several keywords in one set_properties call: every one of them reads back (the two halves of the image pair only
    when both are given - alone they are the known fate-sharing findings)"""
    cls = ELEM_CLASS[o["kind"]]
    kw = o["value"]
    if o["res"] != "ok":
        res.violation("C02:set_get:%s:*:set_properties-raises:%s" % (cls, o["res"][1]),
                      "set_properties(%s) on a %s (position %s) raises" % (sorted(kw), o["cls"], o["pos"]), c)
        return
    for k in sorted(kw):
        if k in PAIR_KEYS and not all(x in kw for x in PAIR_KEYS):
            continue
        g = o["got"][k]
        want = o["stored"][k]
        if g[0] != "ok":
            res.violation("C02:set_get:%s:%s:get-raises:%s:routes=set_properties-multi" % (cls, k, g[1]),
                          "get_property(%s) after set_properties(%s) raises" % (k, sorted(kw)), c)
        elif canon(ocanon(g[1])) not in [canon(ocanon(want))] + ([canon(None)] if is_empty_codec(want) else []):
            what = "changed"
            if k == "image_type" and isinstance(want, str) and "," in want:
                what += ":image_type-comma"
            res.violation("C02:set_get:%s:%s:%s:routes=set_properties-multi" % (cls, k, what),
                          "set_properties(%s) on a %s (position %s): %s does not read back" % (sorted(kw), o["cls"], o["pos"], k), c,
                          expected=ocanon(want), observed=ocanon(g[1]))


CTOR_SKIP = {"node": {"name", "type", "site"}, "component": {"name", "type", "model", "details"},
             "service": {"name", "type", "layer", "technology", "site"}, "interface": {"name", "type"},
             "link": {"name", "type", "layer", "technology"}}


def check_ctor_routes(ctx, rng, res):
    """properties handed to the constructors (`add_node(**kw)`, `add_component(**kw)`, `add_network_service(**kw)`,
    `add_interface(**kw)`, `add_link(**kw)`): they reach the graph through sliver.set_properties + add_*_sliver and read
    back through get_property.  Oracle only; a constructor that rejects the combination (constraint validation) is not a finding."""
    from fim.user.topology import ExperimentTopology
    r = R.get()
    work = []
    for kind in KINDS:
        for k in settable(kind):
            if k in CTOR_SKIP[kind] or k in PAIR_KEYS:
                continue
            for d in list(FALSY.get(k, []))[:1] + [gen_value(rng, kind, k, 9)]:
                if usable_elem(d):
                    work.append((kind, k, d))
    if not ctx.thorough:
        work = rng.sample(work, min(len(work), 90))
    # small topologies: the name-uniqueness checks of the add_* calls scan the whole graph
    for i in range(0, len(work), 10):
        t = ExperimentTopology()
        try:
            host = t.add_node(name="host", site="RENC")
            hsvc = t.add_network_service(name="hsvc", nstype=r["ServiceType"].L2Bridge, interfaces=[])
            for j, (kind, k, d) in enumerate(work[i:i + 10]):
                nm = "e%d" % j
                v = mk_value(d)
                fresh = r["SLIVER"][kind]()
                fresh.set_property(k, v)
                want = fresh.get_property(k)
                c = {"ctor": [kind, k, d]}
                try:
                    if kind == "node":
                        el = t.add_node(name=nm, site="RENC", **{k: v})
                    elif kind == "component":
                        el = host.add_component(name=nm, ctype=r["ComponentType"].GPU, model="RTX6000", **{k: v})
                    elif kind == "service":
                        el = t.add_network_service(name=nm, nstype=r["ServiceType"].L2Bridge, interfaces=[], **{k: v})
                    elif kind == "interface":
                        el = hsvc.add_interface(name=nm, itype=r["InterfaceType"].ServicePort, **{k: v})
                    else:
                        a = host.add_component(name=nm + "a", ctype=r["ComponentType"].SharedNIC, model="ConnectX-6")
                        b = host.add_component(name=nm + "b", ctype=r["ComponentType"].SharedNIC, model="ConnectX-6")
                        el = t.add_link(name=nm, ltype=r["LinkType"].Patch, interfaces=[a.interface_list[0], b.interface_list[0]], **{k: v})
                except Exception as e:
                    res.count("ctor-rejected:%s:%s" % (kind, err_kind(e)))
                    continue
                res.evaluations += 1
                res.count("route:ctor:" + kind)
                g = elem_get(el, k)
                if g[0] != "ok":
                    res.violation("C02:set_get:%s:%s:get-raises:%s:routes=ctor" % (ELEM_CLASS[kind], k, g[1]),
                                  "get_property(%s) of a %s created with that keyword raises" % (k, ELEM_CLASS[kind]), c)
                elif canon(ocanon(g[1])) not in [canon(ocanon(want))] + ([canon(None)] if is_empty_codec(want) else []):
                    res.violation("C02:set_get:%s:%s:changed:routes=ctor" % (ELEM_CLASS[kind], k),
                                  "a %s created with %s=... does not read it back" % (ELEM_CLASS[kind], k), c,
                                  expected=ocanon(want), observed=ocanon(g[1]))
        finally:
            t.graph_model.delete_graph()


ALIAS_SKIP = {"name", "type", "layer", "stitch_node", "mirror_direction"} | set(PAIR_KEYS)
ALIAS_EXTRA = {"labels": [["F", "Labels", {"vlan_range": ["100-200"], "local_name": "p1"}],
                          ["F", "Labels", {"bdf": ["0000:41:00.0", "0000:41:00.1"], "mac": ["00:11:22:33:44:55", "00:11:22:33:44:56"]}],
                          ["F", "Labels", {"local_name": ["p1", "p2"], "device_name": ["d1", "d2"], "vlan": ["10", "20"]}]],
               "structural_info": [["F", "StructuralInfo", {"adm_graph_ids": ["a", "b"]}]]}
ALIAS_EXTRA["label_allocations"] = ALIAS_EXTRA["peer_labels"] = ALIAS_EXTRA["labels"]
ALIAS_POS = ["node", "node2", "component", "component2", "service", "interface", "interface2", "link", "topservice", "serviceport",
             "subinterface", "node3", "mirror"]


def alias_elements(topo, els):
    """the positions of make_topology(full, group A) plus the twins of node / component / interface on the other VMs"""
    out = dict(els)
    try:
        out["node2"], out["node3"] = topo.nodes["n2"], topo.nodes["n3"]
        out["component2"] = out["node2"].components["nic2"]
        out["interface2"] = out["component2"].interface_list[0]
    except Exception:
        pass
    return out


def alias_cases(ctx, rng):
    """-> [[key, value description, [position A, position B, position C]]]: every object-valued settable name, values with
    list-valued fields first, on three elements (twins of one class and elements of different classes - a decode cache
    is keyed by value class and text, not by element)"""
    def listy(x):
        return isinstance(x, list) or (isinstance(x, dict) and any(listy(v) for v in x.values()))
    out, seen = [], set()
    for kind in KINDS:
        for k in settable(kind):
            if k in ALIAS_SKIP or k in seen:
                continue
            seen.add(k)
            pool = [d for d in (ALIAS_EXTRA.get(k, []) + (value_pool(kind, k) or [gen_value(rng, kind, k, 3) for _ in range(3)])) if usable_elem(d)]
            pool = [d for d in pool if not is_empty_codec(mk_value(d))]
            first = [d for d in pool if any(listy(x) for x in d[1:])][:ctx.scale(4, 10)]
            rest = [d for d in pool if d not in first]
            pick = first + rng.sample(rest, min(len(rest), ctx.scale(3, 8)))
            holders = [p for p in ALIAS_POS if k in settable(POS_KIND.get(p.rstrip("23"), "node"))]
            for i, d in enumerate(pick):
                if len(holders) >= 3:
                    j = (i * 2) % len(holders)
                    trio = [holders[j], holders[(j + 1) % len(holders)], holders[(j + 2) % len(holders)]]
                    out.append([k, d, trio])
    return out


def check_alias_case(topo, elems, c, res):
    """[key, value, [A, B, C]]: A and B are given equal, separately built values.  Everything A's getters hand out
    (get_property, the attribute, get_sliver()) is changed in place, deeply, and written back to A (get - modify - set).
    B - never touched, its stored text unchanged - still reads what was set on it through every reader; C, given the
    original value afterwards, reads it back; and what B's own getters handed out, changed in place, does not show in
    B's next read.  The expected value is frozen (canonical text of the oracle's own object) before anything is read."""
    r = R.get()
    k, d, (pa, pb, pc) = c
    A, B, C = elems[pa], elems[pb], elems[pc]
    case = {"alias": c}
    kind_b = POS_KIND[pb.rstrip("23")]
    has_get, has_set = attr_info(B, k)

    def frozen(kind):
        fresh = r["SLIVER"][kind]()
        fresh.set_property(k, mk_value(d))
        st = fresh.get_property(k)
        return canon(ocanon(st)), canon(attr_view(k, st))
    exp = {p: frozen(POS_KIND[p.rstrip("23")]) for p in (pa, pb, pc)}
    try:
        A.set_property(k, mk_value(d))
        B.set_property(k, mk_value(d))
    except Exception as e:
        res.count("alias:set-rejected:" + err_kind(e))
        return
    res.evaluations += 1
    res.count("alias:key:" + k)
    _, raw_b = topo.graph_model.get_node_properties(node_id=B.node_id)
    raw_b = json.dumps(raw_b, sort_keys=True, default=repr)

    def readers(el, pos):
        hg, _ = attr_info(el, k)
        out = [("get_property", lambda: canon(ocanon(el.get_property(k))), exp[pos][0]),
               ("get_sliver", lambda: canon(ocanon(el.get_sliver().get_property(k))), exp[pos][0])]
        if hg:
            out.append(("attribute", lambda: canon(attr_seen(k, getattr(el, k))), exp[pos][1]))
        return out

    def judge(el, pos, when, who):
        for rname, fn, want in readers(el, pos):
            try:
                got = fn()
            except Exception as e:
                got = "raises " + err_kind(e)
            if got != want:
                res.violation("C02:alias:%s:%s" % (k, rname), "%s of %s on the element at position %s no longer gives the value "
                              "that was set on it (and that its graph node still holds) %s" % (rname, k, pos, when), case,
                              expected=want[:300], observed=got[:300])
                return False
        return True
    if not judge(B, pb, "right after it was set", "set-get"):
        return
    # get - modify - set on A
    marks = 0
    got = []
    for fn in ((lambda: A.get_property(k)), (lambda: getattr(A, k)) if attr_info(A, k)[0] else None, (lambda: A.get_sliver())):
        if fn is not None:
            try:
                x = fn()
                marks += scribble(x)
                got.append(x)
            except Exception:
                pass
    res.count("alias:marks", marks)
    for x in got[:2]:
        try:
            A.set_property(k, x)
        except Exception:
            res.count("alias:changed-value-refused")
    _, raw_b2 = topo.graph_model.get_node_properties(node_id=B.node_id)
    if json.dumps(raw_b2, sort_keys=True, default=repr) != raw_b:
        res.violation("C02:alias:%s:other-element:stored-changed" % k, "changing a value read from one element and writing it back there "
                      "changed the stored properties of another element (%s -> %s)" % (pa, pb), case)
        return
    if not judge(B, pb, "after an equal value read from the element at %s was changed in place and written back there" % pa, "other-element"):
        return
    # a third element given the original value afterwards
    try:
        C.set_property(k, mk_value(d))
    except Exception as e:
        res.count("alias:set-rejected:" + err_kind(e))
        return
    if not judge(C, pc, "when set after an equal value read elsewhere was changed in place", "later-element"):
        return
    # what B's own getters handed out, changed in place, then B read again
    for fn in ((lambda: B.get_property(k)), (lambda: getattr(B, k)) if has_get else None, (lambda: B.get_sliver())):
        if fn is not None:
            try:
                scribble(fn())
            except Exception:
                pass
    judge(B, pb, "after the object its own getter handed out was changed in place", "same-element")
    for el in (A, B, C):
        try:
            el.unset_property(k)
        except Exception:
            pass


def check_alias(ctx, rng, res, only=None):
    cases = [only] if only is not None else load_corpus("alias") + alias_cases(ctx, rng)
    for i in range(0, len(cases), 40):
        topo, els = make_topology(full=True, group="A")
        try:
            elems = alias_elements(topo, els)
            for c in cases[i:i + 40]:
                if only is not None:
                    check_alias_case(topo, elems, c, res)
                    continue
                from core import Result
                tmp = Result()
                check_alias_case(topo, elems, c, tmp)
                res.evaluations += tmp.evaluations
                for kk, n in tmp.hist.items():
                    res.count(kk, n)
                if tmp.violations:      # reported from a run of the case alone on a fresh topology (replays by itself)
                    t2, e2 = make_topology(full=True, group="A")
                    try:
                        check_alias_case(t2, alias_elements(t2, e2), c, res)
                    finally:
                        t2.graph_model.delete_graph()
        finally:
            topo.graph_model.delete_graph()


def check_over_limit(res):
    """one character over the size limit of a size-limited property: refused by every set route, nothing changes"""
    r = R.get()
    topo, els = make_topology(full=False)
    try:
        for k, cls in (("mf_data", "MeasurementData"), ("user_data", "UserData"), ("layout_data", "LayoutData")):
            for pos in ("node", "component", "interface"):
                el = els[pos]
                if k not in settable(POS_KIND[pos]):
                    continue
                for tag, text in over_limit_texts(cls):
                    res.evaluations += 1
                    res.count("over-limit:" + k)
                    before = elem_get(el, k)
                    try:
                        v = r[cls](text)
                        ok = call(lambda: el.set_property(k, v))
                    except Exception:
                        ok = call(lambda: setattr(el, k, text)) if attr_info(el, k)[1] else ["err", "refused"]
                    after = elem_get(el, k)
                    c = {"overlimit": [pos, k, tag]}
                    if ok == "ok" and after[0] != "ok":
                        res.violation("C02:set_get:%s:%s:get-raises:%s:over-limit-accepted" % (ELEM_CLASS[POS_KIND[pos]], k, after[1]),
                                      "a %s text over the size limit is accepted by the setter and cannot be read back" % k, c)
                    elif ok != "ok" and canon(rd_canon(after)) != canon(rd_canon(before)):
                        res.violation("C02:set_get:%s:%s:rejected-but-changed:over-limit" % (ELEM_CLASS[POS_KIND[pos]], k),
                                      "a refused over-limit %s changed the stored value" % k, c)
                    if ok == "ok":
                        call(lambda: el.unset_property(k))
    finally:
        topo.graph_model.delete_graph()


def check_side_routes(res):
    """the remaining ways to a property, oracle only: rename(), update_labels(), update_capacities(); and that an
    attribute without a setter refuses assignment and changes nothing.  Deterministic, every position."""
    r = R.get()
    topo, els = make_topology(full=True)
    try:
        for pos, el in els.items():
            cls = ELEM_CLASS[POS_KIND[pos]]
            c = {"side": pos}
            res.evaluations += 4
            # written through another handle of the element (where there is one), read through the one that read before
            oh = [h for _, h in other_handles(topo, els, pos, want=2)]
            wh = oh[0] if oh else el
            # frame: the element holds a non-default member of every enum-typed property (the last of the pool) and details;
            # no side route may change any property other than its own
            kind = POS_KIND[pos]
            fkeys = [k for k in settable(kind) if k not in FRAME_SKIP and k != "stitch_node"]
            try:        # (one call: a later write must not be what resets an earlier one)
                el.set_properties(**{k: mk_value(value_pool(kind, k)[-1] if k in FRAME_ENUMS else ["s", "side-frame"])
                                     for k in fkeys if k in FRAME_ENUMS or k == "details"})
            except Exception:
                pass

            def side_frame(op, own, snap):
                now = {k: canon(rd_canon(elem_get(el, k))) for k in fkeys}
                for k in fkeys:
                    if k != own and now[k] != snap[k]:
                        res.violation("C02:frame:%s:%s:changed:by=%s" % (cls, k, op),
                                      "%s on a %s (position %s): %s read %s before and reads %s after" % (
                                          op, type(el).__name__, pos, k, snap[k], now[k]), c, expected=snap[k], observed=now[k])
                return now

            snap = side_frame("none", None, {k: canon(rd_canon(elem_get(el, k))) for k in fkeys})
            for what, cl, kws in (("labels", "Labels", [{"vlan": "5"}, {"local_name": "q", "vlan": "6"}]),
                                  ("capacities", "Capacities", [{"core": 3}, {"ram": 0, "disk": 7}])):
                for kw in kws:
                    before = getattr(el, what)
                    try:
                        getattr(wh, "update_" + what)(**kw)
                        after = getattr(el, what)
                    except Exception as e:
                        res.violation("C02:set_get:%s:%s:update-raises:%s" % (cls, what, err_kind(e)),
                                      "update_%s(%s) on a %s (position %s) raises" % (what, kw, type(el).__name__, pos), c)
                        continue
                    snap = side_frame("update_" + what, what, snap)
                    exp = dict(before.__dict__) if before is not None else dict(r[cl]().__dict__)
                    exp.update(kw)
                    got = dict(after.__dict__) if after is not None else None
                    if got != exp:
                        res.violation("C02:set_get:%s:%s:changed:routes=update" % (cls, what),
                                      "update_%s(%s) on a %s (position %s): the fields read back differ" % (what, kw, type(el).__name__, pos),
                                      c, expected=exp, observed=got)
            # rename
            new = "renamed-" + pos
            try:
                el.rename(new)
                snap = side_frame("rename", "name", snap)
                if el.name != new or el.get_property("name") != new or any(h.get_property("name") != new for h in oh):
                    res.violation("C02:set_get:%s:name:changed:routes=rename" % cls, "rename on a %s (position %s) is not read back" % (
                        type(el).__name__, pos), c, expected=new, observed=[el.name, el.get_property("name")] + [h.get_property("name") for h in oh])
            except Exception as e:
                res.violation("C02:set_get:%s:name:rename-raises:%s" % (cls, err_kind(e)), "rename raises", c)
            # read-only attributes
            for a in dir(type(el)):
                p = getattr(type(el), a, None)
                if isinstance(p, property) and p.fset is None and a in settable(POS_KIND[pos]):
                    b = elem_get(el, a)
                    try:
                        setattr(el, a, "x")
                        res.violation("C02:set_get:%s:%s:readonly-accepts" % (cls, a), "assignment to the read-only attribute is accepted", c)
                    except AttributeError:
                        pass
                    if canon(ocanon(elem_get(el, a)[1])) != canon(ocanon(b[1])):
                        res.violation("C02:set_get:%s:%s:readonly-changed" % (cls, a), "refused assignment changed the value", c)
    finally:
        topo.graph_model.delete_graph()


def kid_names(sl):
    return sorted((kind_of(c), c.get_name()) for c in sliver_kids(sl))


def check_elem_slivers(res):
    """`element.get_sliver()` (the model graph read from that element) at every position of a live topology, through
    every handle: the children it lists are the ones the element was built with - by construction of make_topology, not
    by asking the graph again - and every settable property equals what the element's get_property answers."""
    for group in ("A", "B"):
        topo, els = make_topology(full=True, group=group)
        try:
            expect = {}
            if group == "A":
                n1, c1, svc = els["node"], els["component"], els["service"]
                ports = sorted(("interface", i.name) for i in c1.interface_list)
                expect = {"node": [("component", "nic1")], "component": [("service", svc.name)], "service": ports, "interface": [],
                          "link": [], "subinterface": [], "port": [("interface", "sub1")],
                          "topservice": sorted(("interface", i.name) for i in els["topservice"].interface_list), "serviceport": []}
            else:
                expect = {"switch": [("service", els["switchservice"].name)], "switchport": [], "facport": [],
                          "switchservice": sorted(("interface", i.name) for i in els["switch"].interface_list),
                          "facility": [("service", els["facservice"].name)],
                          "facservice": sorted(("interface", i.name) for i in els["facility"].interface_list), "composite": []}
            for pos, want in sorted(expect.items()):
                el = els.get(pos) or els.aux.get(pos)
                if el is None:
                    continue
                kind = POS_KIND.get(pos, "interface")
                hs = [("returned", el)] + (other_handles(topo, els, pos, want=2) if pos in els else [])
                for how, h in hs:
                    res.evaluations += 1
                    res.count("get_sliver:" + pos)
                    c = {"slivers": pos}
                    try:
                        sl = h.get_sliver()
                    except Exception as e:
                        res.violation("C02:get_sliver:%s@%s:raises:%s" % (ELEM_CLASS[kind], pos, err_kind(e)),
                                      "get_sliver() of the element at position %s raises" % pos, c)
                        continue
                    got = kid_names(sl)
                    if got != want:
                        missing = sorted({k for k, _ in set(want) - set(got)})
                        extra = sorted({k for k, _ in set(got) - set(want)})
                        res.violation("C02:get_sliver:%s@%s:children:missing=%s:extra=%s" % (ELEM_CLASS[kind], pos, ",".join(missing), ",".join(extra)),
                                      "get_sliver() of the %s at position %s (handle: %s) lists other children than the element has" % (
                                          type(h).__name__, pos, how), c, expected=want, observed=got)
                    for k in settable(kind):
                        a, b = elem_get(h, k), ["ok", sl.get_property(k)]
                        if canon(rd_canon(a)) != canon(rd_canon(b)):
                            res.violation("C02:get_sliver:%s@%s:%s:differs" % (ELEM_CLASS[kind], pos, k),
                                          "get_sliver().%s of the element at position %s is not what get_property answers" % (k, pos), c,
                                          expected=rd_canon(a), observed=rd_canon(b))
        finally:
            topo.graph_model.delete_graph()


def check_elem_confirmed(case, res):
    """batched triples share a topology: a finding is reported from a re-run of its triple alone on a fresh topology,
    so that the recorded case replays by itself"""
    from core import Result
    if "elemb" not in case:
        return check_elem(case, res)
    tmp = Result()
    check_elem(case, tmp)
    seen = set()
    for v in tmp.violations:
        key = canon(v["case"])
        if key in seen:
            continue
        seen.add(key)
        check_elem(v["case"], res)


def load_corpus(what):
    out = []
    d = os.path.join(CORPUS_DIR, ID)
    if os.path.isdir(d):
        for fn in sorted(os.listdir(d)):
            if fn.endswith(".json"):
                with open(os.path.join(d, fn)) as f:
                    c = json.load(f)
                if what == "tree" and "tree" in c:
                    out.append(c["tree"])
                if what == "elem" and "elem" in c:
                    out.append({"elem": c["elem"]})
                if what == "elem" and "elemb" in c:
                    out.append({"elemb": c["elemb"]})
                if what == "alias" and "alias" in c:
                    out.extend(c["alias"])
    return out


def oracle(ctx, res, n=None):
    rng = ctx.sub_rng("oracle")
    cases = load_corpus("tree") + gen_cases(ctx, rng, n or ctx.scale(150, 3000), res)
    for t in cases:
        res.evaluations += 1
        nn, d, p = tree_stats(t)
        if d >= 2 or p >= 3:
            res.nontrivial.add(canon(t))
        res.count("kind:" + t["k"])
        res.count("depth:%d" % d)
        check_tree(t, res)
        if t["c"] or p >= 3 or res.evaluations % 4 == 0:
            check_inputs(t, res)
    for case in load_corpus("elem") + gen_elem_cases(ctx, ctx.sub_rng("oracle-elem"), ctx.scale(1, 8)):
        trs = case.get("elemb") or case["elem"]
        res.evaluations += len(trs)
        for tr in trs:
            res.nontrivial.add(canon(tr[:3]))
            res.count("elem-pos:" + tr[0])
        check_elem_confirmed(case, res)
    POOL.release()
    check_side_routes(res)
    check_elem_slivers(res)
    check_ctor_routes(ctx, ctx.sub_rng("oracle-ctor"), res)
    check_alias(ctx, ctx.sub_rng("oracle-alias"), res)
    check_over_limit(res)
    res.sample({"tree": cases[len(cases) // 2], "paths": ["props", "dict", "json", "graph"]})


def search(ctx, res, broken):
    """a link broke and the oracle run reported nothing new: first the differing correspondence cases themselves go
    through the property oracle (per-field comparison on all paths / set-get-unset), then the generator with a larger budget"""
    for link, detail in broken:
        if link == "correspondence" and isinstance(detail, list):
            for d in detail:
                orig = d.get("orig") if isinstance(d, dict) else None
                if not orig:
                    continue
                res.evaluations += 1
                if "tree" in orig:
                    check_tree(orig["tree"], res)
                elif "elem" in orig:
                    check_elem(orig, res)
    if not res.violations:
        oracle(ctx, res, n=ctx.scale(1500, 8000))


def replay(ctx, payload):
    from core import Result
    r = Result()
    c = payload["case"]
    if "tree" in c and c.get("inputs"):
        check_inputs(c["tree"], r)
    elif "tree" in c:
        check_tree(c["tree"], r, paths=tuple(c.get("paths") or ALL_PATHS))
    elif "side" in c:
        check_side_routes(r)
    elif "slivers" in c:
        check_elem_slivers(r)
    elif "ctor" in c:
        check_ctor_routes(ctx, ctx.sub_rng("oracle-ctor"), r)
    elif "alias" in c:
        check_alias(ctx, ctx.sub_rng("oracle-alias"), r, only=c["alias"])
    elif "overlimit" in c:
        check_over_limit(r)
    else:
        check_elem(c, r)
    want = payload.get("signature")
    for v in r.violations:
        print("  ", v["signature"], v["what"])
    return any(v["signature"] == want for v in r.violations) if want else bool(r.violations)
