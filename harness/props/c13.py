"""C13 - partitioning an aggregate model (ARM) yields sound per-delegation models (ADMs).

Real code: NetworkXARMGraph.generate_adms / NetworkXADMGraph.rewrite_delegations on the in-memory store.
Model: FimVerif.Model.Arm (genAdm / generateAdmsS / rekey), configuration fitted to the code by gen/armcfg.py on every run.
"""
import json
import os
import time
import traceback

from core import LeanDriver, err_kind, canon, CORPUS_DIR, Infra
from gen import armcfg
import lib_substrate as L
import lib_armsynth as SY

ID = "C13"
GENERATORS = [armcfg.generate]
LEAN_MODULES = ["FimVerif.Proofs.C13"]
P = "FimVerif.C13."
THEOREMS = [P + t for t in (
    "partition_sound",
    "one_model_per_id", "holders_kept", "only_own_entries", "no_foreign_entries", "sub_model", "stitch_everywhere", "stitch_is_property",
    "closure_service_owner", "closure_link_peer", "kept_interfaces_closed", "partition_exact", "partition_exact_extracted",
    "closure_one_pass_counterexample",
    "arm_untouched", "arm_untouched_needs_fresh", "store_run_is_genAdm",
    "rekey_only_key", "rekey_ok_all", "rekey_partition_ok", "rekey_partition_entry",
    "rekey_compose", "rekey_present_key_id", "rekey_twice_same", "rekey_there_and_back", "rekey_store_frame",
    "closure_in_partition", "holder_in_partition_unique",
    "earlier_partitions_persist", "earlier_partitions_need_fresh")] + [
    # the loop of the repaired generate_adms: termination bound and closedness (Proofs/Lemmas/C13Closure.lean)
    "FimVerif.Arm.linkClose_closed", "FimVerif.Arm.linkClose_sound", "FimVerif.Arm.linkClose_reach"]
TRUSTED_BASE = [
    "gen/armcfg.py: the configuration of the model (query tuples and their roles, number of passes of the link trace, connection-point class, "
    "variant of the second-hop filter, stitch selection) is FITTED to the behaviour of generate_adms / get_first_and_second_neighbor / "
    "get_stitch_nodes on probe graphs (3840 two-hop queries over every subset of a 10-edge menu, 44 probe ARMs); the source text is not matched, "
    "so the tie of the configuration to the code is as strong as the probes are discriminating (exactly one member of the model family must fit) - "
    "the correspondence below re-checks the fitted model on thousands of generated ARMs",
    "Model/Arm.lean mirrors generate_adms / rewrite_delegations by hand over an abstract graph (nodes by NodeID, decoded delegation "
    "properties, undirected edges); checked differentially against NetworkXARMGraph/NetworkXADMGraph on every run",
    "the store is modelled as graph id -> graph (C04/C05 relate the real shared NetworkX store to that abstraction); "
    "Delegations.from_json/to_json of one entry is modelled as the identity on the entry's canonical JSON (C12 covers the codec)",
    "uuid4 freshness of generated graph ids (an explicit hypothesis of arm_untouched / partition_sound); Python set iteration order; the `while` loop of the "
    "link trace is modelled with fuel (number of nodes + 1 passes), linkClose_closed proves that this fuel always reaches the loop's regular exit",
]
ASSUMPTIONS = [
    "NodeIDs are unique within the ARM and every edge joins two nodes of the ARM (what the store guarantees for an imported graph)",
    "a delegation property is absent, the marker 'None', or the JSON text of a Delegations object (malformed JSON is outside the quantifier)",
    "distinct delegation ids are given distinct graph ids, none of them the ARM's own id, when more than one delegation id is present "
    "(otherwise the result depends on Python's set order); the single-id case with the ARM's own id is modelled and shown to destroy the ARM",
    "closure clauses: the edge between a link and its far end / a service and its owner is the only edge between the two (networkx.Graph has no parallel edges)",
]
RULE = ("(a) 2400 (quick) / 14000 (thorough) small synthetic ARMs written straight into the store (harness/lib_armsynth.py: a dataplane switch with service and "
        "ports, workers with components / NIC services / ports, facilities behind a shared facing port, patch and inter-switch links; 5-40 nodes) with 1..4 "
        "delegation ids - every element delegated to its family's id, another id, two ids or nobody; label-only / capacity-only / both; pool definition + "
        "references (also for another id); 'None' marker, empty object; stitch switches/services/ports; links whose ends are delegated differently; "
        "multi-link ports; 12% unstructured graphs over the class/relation vocabulary; every 8th with the run on the store (bystander graph) resp. re-key "
        "chains, every 32nd as a 3-partition history on the SAME ARM object with changes through another wrapper; "
        "(b) substrate models built through SubstrateTopology (sites with workers, NVME/GPU/NIC components, dataplane and P4 switches, facility ports, stitch "
        "nodes) annotated through annotate_delegations_and_pools with 1..3 ids, changed through the topology object between partitions; "
        "(c) the four repo advertisements, corner graphs, corpus. Every partition is also taken through a fresh wrapper where a history is run; partitions "
        "are re-keyed in chains (own graph id twice, present key, a->b->a; delegations named after their graph id). "
        "(d) several generate_adms calls in one process: every 8th synthetic case and every 2nd API-built one partitions a SECOND model of the same store "
        "(another generated model, the first one under other element ids, or a second SubstrateTopology) that shares delegation names with the first, "
        "after 1-3 partitions of the first; graph ids are left to generate_adms in every way a caller can (argument left out, None, {}, a dictionary "
        "naming only some delegation names), handed in, or handed in for one call and left out for the next; the dictionaries handed in and returned are "
        "scribbled afterwards; every partition object returned during a run is read again after the last call: unchanged unless the caller handed its "
        "graph id to a later call, no generated graph id handed out twice, none the id of a model; a call refused on an emptied model followed by a "
        "partition of the refilled model through the same ARM object; 6% of the synthetic cases under falsy / sentinel-like / case- and blank-related "
        "delegation names ('', '0', 'None', 'null', ' d1', 'D1' ...), also as re-key targets. "
        "(e) entry values as other tooling than the library's own Labels objects writes them (a property set directly, a model file): a third of the "
        "label details of the synthetic models, a corner graph, a corpus case and every 3rd API-built model (entries rewritten in place as JSON) carry "
        "list-valued labels in the operator's order (not sorted), with repeats, of one element, empty, or '' values - single entries, pool definitions "
        "and references; entries are compared as JSON values in the partition and after every re-keying step; gen/armcfg.py probes the same on 84 entries. "
        "non-trivial = at least 2 delegation ids; distinct by canonical ARM snapshot")

CP, LINK, NS, NN, COMP = "ConnectionPoint", "Link", "NetworkService", "NetworkNode", "Component"
CLASSES = [CP, LINK, NS, NN, COMP]
RELS = ["connects", "has"]


# ---------------------------------------------------------------------------
# wire format


def to_wire(snap, order=None):
    ids = order or list(snap["nodes"])

    def dp(v):
        if v is None or v is False:
            return v
        return [[k, e] for k, e in v.items()]
    return {"nodes": [[i, snap["nodes"][i]["cls"], [[k, v] for k, v in snap["nodes"][i]["props"].items()],
                       dp(snap["nodes"][i]["ldel"]), dp(snap["nodes"][i]["cdel"])] for i in ids],
            "edges": [[a, b, r, [[k, v] for k, v in p.items()]] for a, b, r, p in snap["edges"]]}


def from_wire(w):
    def dp(v):
        if v is None or v is False:
            return v
        return {k: e for k, e in v}
    out = {"nodes": {}, "edges": []}
    for i, c, ps, l, cd in sorted(w["nodes"], key=lambda n: n[0]):
        out["nodes"][i] = {"cls": c, "props": dict(sorted((k, v) for k, v in ps)), "ldel": dp(l), "cdel": dp(cd)}
    for a, b, r, ps in w["edges"]:
        if b < a:
            a, b = b, a
        out["edges"].append([a, b, r, dict(sorted((k, v) for k, v in ps))])
    out["edges"].sort(key=lambda e: (e[0], e[1], str(e[2])))
    return out


def norm(snap):
    """canonical, order-free form of a snapshot"""
    return from_wire(to_wire(snap))


def load_raw(wire, graph_id, importer=None):
    """Put a wire graph into the store under graph_id; returns a NetworkXPropertyGraph."""
    import networkx as nx
    from fim.graph.networkx_property_graph import NetworkXGraphImporter, NetworkXPropertyGraph
    imp = importer or NetworkXGraphImporter()
    g = nx.Graph()

    def dj(v):
        return "{" + ", ".join(json.dumps(k) + ": " + e for k, e in v) + "}"
    for i, c, ps, l, cd in wire["nodes"]:
        a = {"NodeID": i, "Class": c}
        a.update({k: v for k, v in ps})
        for name, v in ((L.LDEL, l), (L.CDEL, cd)):
            if v is False:
                a[name] = "None"
            elif v is not None:
                a[name] = dj(v)
        g.add_node(i, **a)
    for a, b, r, ps in wire["edges"]:
        g.add_edge(a, b, Class=r, **{k: v for k, v in ps})
    imp.storage.add_graph(graph_id, g)
    return NetworkXPropertyGraph(graph_id=graph_id, importer=imp)


# ---------------------------------------------------------------------------
# cases


def raw_case(rng, n=None):
    """A small graph over the class / relation vocabulary, not necessarily a well-formed substrate model."""
    n = n or rng.randint(2, 9)
    ids = ["d1", "d2", "d3"][:rng.randint(1, 3)]
    nodes = []
    for i in range(n):
        c = rng.choice(CLASSES + [CP, CP, NS])
        ps = [["Name", "n%d" % i]]
        if rng.random() < 0.2:
            ps.append(["StitchNode", rng.choice(["true", "true", "false"])])

        def dp():
            r = rng.random()
            if r < 0.45:
                return None
            if r < 0.52:
                return False
            if r < 0.57:
                return []
            ks = rng.sample(ids, rng.randint(1, len(ids)))
            return [[k, L.cj({"pool": "p%d" % rng.randint(0, 2)})] for k in ks]
        nodes.append(["n%d" % i, c, ps, dp(), dp()])
    edges = {}
    for _ in range(rng.randint(1, 2 * n)):
        a, b = rng.randrange(n), rng.randrange(n)
        if a == b and rng.random() < 0.9:
            continue
        a, b = min(a, b), max(a, b)
        edges[(a, b)] = ["n%d" % a, "n%d" % b, rng.choice(RELS + ["connects"]), []]
    return {"nodes": nodes, "edges": [edges[k] for k in sorted(edges)]}


CORNER_RAW = [
    # one delegation type only on each node (the design-phase defect: unset of an absent property)
    {"nodes": [["a", NN, [["Name", "a"]], [["d1", "{\"pool\":\"p\"}"]], None],
               ["b", COMP, [["Name", "b"]], None, [["d1", "{\"pool\":\"p\"}"]]]],
     "edges": [["a", "b", "has", []]]},
    # two ids, an interface of d2 linked to a port that also faces an interface of d1 (multi-link peer)
    {"nodes": [["f1", NN, [], None, [["d2", "{\"pool\":\"p\"}"]]], ["f1ns", NS, [], None, None],
               ["f1i", CP, [], None, [["d2", "{\"pool\":\"p\"}"]]], ["l1", LINK, [], None, None],
               ["f2", NN, [], None, [["d1", "{\"pool\":\"p\"}"]]], ["f2ns", NS, [], None, None],
               ["f2i", CP, [], None, [["d1", "{\"pool\":\"p\"}"]]], ["l2", LINK, [], None, None],
               ["sw", NN, [], None, None], ["swns", NS, [], None, None], ["p", CP, [], None, [["d1", "{\"pool\":\"p\"}"]]]],
     "edges": [["f1", "f1ns", "has", []], ["f1ns", "f1i", "connects", []], ["f1i", "l1", "connects", []], ["l1", "p", "connects", []],
               ["f2", "f2ns", "has", []], ["f2ns", "f2i", "connects", []], ["f2i", "l2", "connects", []], ["l2", "p", "connects", []],
               ["sw", "swns", "has", []], ["swns", "p", "connects", []]]},
    # 'None' marker next to a real delegation, an empty object, a stitch node without delegations
    {"nodes": [["a", NN, [["StitchNode", "true"]], None, None], ["b", NN, [], False, [["d1", "{\"pool\":\"p\"}"], ["d2", "{\"pool\":\"q\"}"]]],
               ["c", COMP, [], [], None], ["e", COMP, [], False, None]],
     "edges": [["a", "b", "has", []], ["b", "c", "has", []]]},
    # an interface delegated on its own: its service and the service's owners (a Component and a NetworkNode) must follow
    {"nodes": [["w", NN, [], None, None], ["nic", COMP, [], None, None], ["sf", NS, [], None, None],
               ["cp", CP, [], [["d1", "{\"pool\":\"p\"}"]], None], ["sw", NN, [], None, None], ["swns", NS, [], None, None],
               ["swp", CP, [], None, None], ["l", LINK, [], None, None], ["other", NN, [], None, [["d2", "{\"pool\":\"p\"}"]]]],
     "edges": [["w", "nic", "has", []], ["nic", "sf", "has", []], ["sf", "cp", "connects", []], ["cp", "l", "connects", []],
               ["l", "swp", "connects", []], ["swns", "swp", "connects", []], ["sw", "swns", "has", []]]},
    # no delegations at all
    {"nodes": [["a", NN, [], None, None]], "edges": []},
    # entries written by other tooling than the library's own Labels / Capacities objects (a model file, a property set directly):
    # list-valued labels in the operator's order (not sorted), with repeats, of one element, empty, '' values - single entries, a pool
    # definition and its reference; a partition carries the entry the model has, not a normal form of it
    {"nodes": [["w", NN, [], None, [["d1", "{\"capacities\":{\"core\":32,\"ram\":128},\"pool_id\":\"_\"}"]]], ["nic", COMP, [], None, None],
               ["sf", NS, [], None, None],
               ["p1", CP, [], [["d1", "{\"labels\":{\"vlan_range\":[\"3000-3100\",\"1000-1100\"]},\"pool_id\":\"_\"}"],
                               ["d2", "{\"labels\":{\"mac\":\"00:00:00:00:02:01\",\"vlan_range\":[\"200-300\",\"100-150\",\"200-300\"]},\"pool_id\":\"_\"}"]], None],
               ["p2", CP, [], [["d2", "{\"labels\":{\"ipv4_range\":[\"192.168.2.1-192.168.2.10\",\"192.168.1.1-192.168.1.10\"],"
                                      "\"ipv6_range\":[\"2001:db8::10-2001:db8::20\",\"2001:db8::1-2001:db8::5\"],\"local_name\":[\"b\",\"a\",\"b\"]},\"pool_id\":\"pl\"}"]], None],
               ["p3", CP, [], [["d2", "{\"pool\":\"pl\"}"], ["d1", "{\"labels\":{\"local_name\":\"\",\"vlan_range\":[]},\"pool_id\":\"_\"}"]], None],
               ["p4", CP, [], [["d1", "{\"labels\":{\"vlan\":[\"7\"],\"vlan_range\":[\"7-9\"]},\"pool_id\":\"_\"}"]], None]],
     "edges": [["w", "nic", "has", []], ["nic", "sf", "has", []], ["sf", "p1", "connects", []], ["sf", "p2", "connects", []],
               ["sf", "p3", "connects", []], ["sf", "p4", "connects", []]]},
]


def corpus_files():
    d = os.path.join(CORPUS_DIR, ID)
    return sorted(os.path.join(d, f) for f in os.listdir(d)) if os.path.isdir(d) else []


# deterministic histories on small graphs (ops are applied through ANOTHER wrapper of the ARM's graph between partitions)
CORNER_HISTORIES = [
    # two delegated, still unpatched ports; the patch cable arrives after the first partition
    {"wire": {"nodes": [["w", NN, [], None, [["d1", "{\"pool\":\"p\"}"]]], ["nic", COMP, [], None, [["d1", "{\"pool\":\"p\"}"]]],
                        ["sf", NS, [], None, None], ["wp", CP, [], [["d1", "{\"pool\":\"p\"}"]], None],
                        ["wq", CP, [], [["d1", "{\"pool\":\"p\"}"]], None], ["lq", LINK, [], None, None],
                        ["sw", NN, [], None, [["d2", "{\"pool\":\"p\"}"]]], ["swns", NS, [], None, None],
                        ["sp", CP, [], None, [["d2", "{\"pool\":\"p\"}"]]], ["sq", CP, [], None, [["d2", "{\"pool\":\"p\"}"]]]],
              "edges": [["w", "nic", "has", []], ["nic", "sf", "has", []], ["sf", "wp", "connects", []], ["sf", "wq", "connects", []],
                        ["sw", "swns", "has", []], ["swns", "sp", "connects", []], ["swns", "sq", "connects", []],
                        ["wq", "lq", "connects", []], ["lq", "sq", "connects", []]]},
     "history": [[["add_node", "lp", LINK, [], None, None], ["add_link", "wp", "connects", "lp"], ["add_link", "lp", "connects", "sp"]],
                 [["del_node", "lq"], ["add_node", "w2", NN, [], None, [["d2", "{\"pool\":\"p\"}"]]]]]},
    # a call that fails (every node was deleted: the empty model is refused), then the model is filled again - other elements, another
    # delegation name - and the same ARM object partitions it
    {"wire": {"nodes": [["a", NN, [["Name", "a"]], None, [["d1", "{\"pool\":\"p\"}"]]], ["b", COMP, [], None, [["d1", "{\"pool\":\"p\"}"]]]],
              "edges": [["a", "b", "has", []]]},
     "history": [[["del_node", "a"], ["del_node", "b"]],
                 [["add_node", "x", NN, [["Name", "x"]], None, [["d2", "{\"pool\":\"p\"}"]]], ["add_node", "y", COMP, [], [["d1", "{\"pool\":\"q\"}"]], None],
                  ["add_node", "a", NN, [["Name", "a2"]], None, None], ["add_link", "x", "has", "y"]]]},
]


# two models of one process that use the same delegation names, partitioned one after the other (every site of a testbed has e.g. a
# 'primary' delegation); graph ids left to generate_adms in every way a caller can leave them to it
def _site(px, extra=False):
    e = "{\"pool\":\"p\"}"
    nodes = [[px + "w", NN, [["Name", px + "w"]], None, [["primary", e]]], [px + "nic", COMP, [], None, [["primary", e]]],
             [px + "sf", NS, [], None, None], [px + "p1", CP, [], [["primary", e]], None],
             [px + "v", NN, [["Name", px + "v"]], None, [["secondary", e]]],
             [px + "sw", NN, [["StitchNode", "true"]], None, None], [px + "swns", NS, [["StitchNode", "true"]], None, None],
             [px + "sp", CP, [["StitchNode", "true"]], None, None], [px + "l", LINK, [], None, None]]
    edges = [[px + "w", px + "nic", "has", []], [px + "nic", px + "sf", "has", []], [px + "sf", px + "p1", "connects", []],
             [px + "p1", px + "l", "connects", []], [px + "l", px + "sp", "connects", []], [px + "swns", px + "sp", "connects", []],
             [px + "sw", px + "swns", "has", []]]
    if extra:
        nodes.append([px + "w3", NN, [["Name", px + "w3"]], None, [["primary", e]]])
    return {"nodes": nodes, "edges": edges}


CORNER_SECOND = [
    {"wire": _site("A-"), "second": {"wire": _site("B-", True)}, "guids": "default"},
    {"wire": _site("A-"), "second": {"wire": _site("A-", True)}, "guids": "uuid"},           # the same element ids in both models
    {"wire": _site("A-"), "second": {"wire": _site("B-", True)}, "guids": "emptydict"},
    {"wire": _site("A-"), "second": {"wire": _site("B-", True)}, "guids": "partial"},
    {"wire": _site("A-"), "second": {"wire": _site("B-", True)}, "guids": "explicit"},
    {"wire": _site("A-"), "second": {"wire": _site("B-", True)}, "guids": "mix:explicit,default"},
    {"wire": _site("A-"), "second": {"wire": _site("B-", True)}, "guids": "mix:default,explicit"},
]

DEFAULTED = ("default", "uuid", "emptydict")      # every graph id is left to generate_adms

# delegation names that are falsy, look like a sentinel, or differ from each other in case / blanks only
ODD_NAMES = ["", "0", "None", "null", "false", " d1", "D1", "d1 ", "primary", "d", "[]"]


def rename_del_ids(c, mp):
    """the same case under other delegation names (wire, second model, history ops)"""
    def dp(v):
        return [[mp.get(k, k), e] for k, e in v] if isinstance(v, list) else v

    def wire(w):
        return {"nodes": [[n[0], n[1], n[2], dp(n[3]), dp(n[4])] for n in w["nodes"]], "edges": w["edges"]}
    c["wire"] = wire(c["wire"])
    if isinstance(c.get("second"), dict):
        c["second"] = {"wire": wire(c["second"]["wire"])}
    if c.get("history"):
        c["history"] = [[(op[:4] + [dp(op[4]), dp(op[5])]) if op[0] == "add_node" else (op[:3] + [dp(op[3])]) if op[0] == "set_del" else op
                         for op in ops] for ops in c["history"]]


def gen_cases(ctx, rng, n, nsynth=0):
    """case descriptors: corner graphs, corner histories, corpus (the four repo advertisements, minimised past failures), generated"""
    cases = []
    for i, w in enumerate(CORNER_RAW):
        cases.append({"kind": "raw", "name": "corner%d" % i, "wire": w})
    for i, h in enumerate(CORNER_HISTORIES):
        cases.append({"kind": "raw", "name": "history%d" % i, "wire": h["wire"], "history": h["history"], "guids": "named" if i % 2 else "explicit"})
    for i, h in enumerate(CORNER_SECOND):
        cases.append({"kind": "raw", "name": "second%d" % i, "wire": h["wire"], "second": h["second"], "guids": h["guids"], "rounds": 2,
                      "bystander": False})
    for p in corpus_files():
        if p.endswith(".graphml"):
            cases.append({"kind": "ad", "file": p, "rounds": 1 if not ctx.thorough else 2})
        elif p.endswith(".json"):
            with open(p) as f:
                c = json.load(f)
            cases.append({"kind": "raw", "name": os.path.basename(p), "wire": c["wire"], "guids": c.get("guids"),
                          **({"history": c["history"]} if c.get("history") else {}),
                          **({"second": c["second"]} if c.get("second") else {})})
    for i in range(n):
        r = rng.random()
        if r < 0.25:
            cases.append({"kind": "raw", "name": "rand%d" % i, "wire": raw_case(rng), "mseed": "%s/%d" % (ctx.seed, i)})
        else:
            size = rng.choice([0, 1, 1, 1, 2]) if ctx.thorough else rng.choice([0, 0, 0, 1, 1])
            k = rng.choice([1, 2, 2, 3, 3])
            mode = "single" if rng.random() < 0.12 else "mixed"
            cases.append({"kind": "gen", "seed": "%s/%d/%d" % (ctx.seed, i, rng.randrange(10 ** 6)), "size": size,
                          "ids": ["alpha", "beta", "gamma"][:k] if mode == "mixed" else ["primary"], "mode": mode,
                          **({} if ctx.thorough else {"rounds": 2}), **({"second": "build"} if i % 2 == 0 else {}),
                          **({"foreign": True} if i % 3 == 1 else {})})
    # the cheap stream: small synthetic ARMs written straight into the store (lib_armsynth), one partition each; every 8th with the
    # run on the store (bystander graph) and re-key chains, every 16th as a 3-partition history on the same ARM object
    for i in range(nsynth):
        if rng.random() < 0.12:
            w, hist = raw_case(rng), {"shape:unstructured": 1}
        else:
            r = rng.random()
            w, hist = SY.synth_case(rng, big=ctx.thorough and r < 0.05, tiny=r > 0.3)
        c = {"kind": "synth", "name": "synth%d" % i, "wire": w, "mseed": "%s/s%d" % (ctx.seed, i), "features": hist,
             "rounds": 1, "fresh": False, "store": i % 8 == 0, "rekey": i % 8 == 4}
        if i % 32 == 5:
            c.update(history=SY.synth_history(rng, w, 2), fresh=True)
            del c["rounds"]
        if i % 8 == 2:
            # a SECOND model in the same process (another generated model, or this one under other element ids), partitioned
            # after this one; every 16th with two partitions of the first model before that
            c["second"] = {"wire": SY.synth_case(rng, tiny=True)[0]} if rng.random() < 0.6 else "derive"
            if i % 16 == 2:
                c["rounds"] = 2
        if rng.random() < 0.06:
            rename_del_ids(c, dict(zip(SY.IDS, rng.sample(ODD_NAMES, len(SY.IDS)))))
            c["features"] = dict(c["features"], **{"ids:odd-delegation-names": 1})
        cases.append(c)
    # graph-id assignment: explicit distinct ids (most), default uuid4, the delegation's own name ("named": the key is already the
    # graph id when the partition is re-keyed), or - single delegation id only - the ARM's own id
    for c in cases:
        r = rng.random()
        if c.get("guids") is None:
            if c.get("second") or c.get("rounds", 3) > 1 or c.get("history"):
                # several generate_adms calls in the run: the graph ids are left to generate_adms in half of the runs
                # (or to the caller in one call and to generate_adms in the next: "mix:")
                c["guids"] = ("default" if r < 0.25 else "uuid" if r < 0.33 else "emptydict" if r < 0.37 else "partial" if r < 0.45 else
                              "mix:explicit,default" if r < 0.5 else "mix:default,explicit" if r < 0.53 else "mix:named,default" if r < 0.56 else
                              "self" if r < 0.6 else "named" if r < 0.75 else "explicit")
            else:
                c["guids"] = ("default" if r < 0.08 else "uuid" if r < 0.13 else "emptydict" if r < 0.15 else "partial" if r < 0.2 else
                              "self" if r < 0.27 else "named" if r < 0.42 else "explicit")
        if c.get("features", {}).get("ids:odd-delegation-names") and "named" in str(c["guids"]):
            c["guids"] = "explicit"         # a graph id '' is not a sensible thing to ask for; re-keying TO such a name is still exercised
        if "bystander" not in c:
            c["bystander"] = rng.random() < 0.5 and c.get("store", True)
        else:
            rng.random()
        c.setdefault("rounds", 3)
    return cases


# label values as other tooling than the library's own Labels objects writes them onto a model (directly as a property, or into a
# model file): lists in the operator's order, with repeats, of one element, empty; '' values
FOREIGN_LABELS = {"vlan_range": ["3000-3100", "1000-1100", "3000-3100"], "ipv4_range": ["192.168.2.1-192.168.2.10", "192.168.1.1-192.168.1.10"],
                  "ipv6_range": ["2001:db8::10-2001:db8::20", "2001:db8::1-2001:db8::5"], "mac": ["0C:42:A1:EA:C7:61", "0C:42:A1:EA:C7:60"],
                  "local_name": ["p2", "p1", "p2"], "vlan": ["200", "100"], "bdf": ["0000:41:00.1", "0000:41:00.0"], "device_name": "",
                  "instance": [], "ipv4_subnet": ["192.168.2.0/24"]}


def foreign_entries(g, rng, p=0.5):
    """rewrite, in place and as JSON text, every second label entry that carries details: one of its fields gets a FOREIGN_LABELS value"""
    n = 0
    for nid in sorted(g.list_all_node_ids()):
        v = g.get_node_properties(node_id=nid)[1].get(L.LDEL)
        if not v or v == "None":
            continue
        d, ch = json.loads(v), False
        for k in sorted(d):
            if isinstance(d[k].get("labels"), dict) and rng.random() < p:
                f = rng.choice(sorted(FOREIGN_LABELS))
                d[k]["labels"][f] = FOREIGN_LABELS[f]
                ch = True
        if ch:
            g.update_node_property(node_id=nid, prop_name=L.LDEL, prop_val=json.dumps(d))
            n += 1
    return n


def build_case(c):
    """-> (arm graph (NetworkXPropertyGraph), importer, Substrate or None)"""
    import random
    from fim.graph.networkx_property_graph import NetworkXGraphImporter
    L.fresh_store()
    if c["kind"] == "gen":
        rng = random.Random("C13gen/" + c["seed"])
        sub = L.build(rng, c["size"])
        L.annotate(sub, rng, c["ids"], c["mode"])
        g = sub.graph
        if c.get("foreign"):
            foreign_entries(g, random.Random("C13foreign/" + c["seed"]))
        return g, g.importer, sub
    imp = NetworkXGraphImporter()
    if c["kind"] == "ad":
        return L.load_ad(c["file"], imp), imp, None
    return load_raw(c["wire"], "arm-graph", imp), imp, None


def del_ids(snap):
    out = set()
    for n in snap["nodes"].values():
        for v in (n["ldel"], n["cdel"]):
            if v:
                out.update(v)
    return sorted(out)


# ---------------------------------------------------------------------------
# changes of the ARM's model between two partitions


def _dj(v):
    return "{" + ", ".join(json.dumps(k) + ": " + e for k, e in v) + "}"


def apply_ops(other, ops):
    """ops through a wrapper that is NOT the ARM object: add_node / add_link / del_node / set_del"""
    for op in ops:
        if op[0] == "add_node":
            _, i, c, ps, l, cd = op
            props = {k: v for k, v in ps}
            for name, v in ((L.LDEL, l), (L.CDEL, cd)):
                if v is False:
                    props[name] = "None"
                elif v is not None:
                    props[name] = _dj(v)
            other.add_node(node_id=i, label=c, props=props)
        elif op[0] == "add_link":
            other.add_link(node_a=op[1], rel=op[2], node_b=op[3])
        elif op[0] == "del_node":
            other.delete_node(node_id=op[1])
        elif op[0] == "set_del":
            _, i, name, v = op
            if v is None:
                _, props = other.get_node_properties(node_id=i)
                if name in props:
                    other.unset_node_property(node_id=i, prop_name=name)
            else:
                other.update_node_property(node_id=i, prop_name=name, prop_val="None" if v is False else _dj(v))


def diff_ops(a, b):
    """raw ops turning snapshot a into snapshot b (for replays: a topology-level change is replayed as these)"""
    A, B = norm(a), norm(b)
    ops = []
    for i in A["nodes"]:
        if i not in B["nodes"]:
            ops.append(["del_node", i])
    wb = {n[0]: n for n in to_wire(B)["nodes"]}
    for i in B["nodes"]:
        if i not in A["nodes"]:
            n = wb[i]
            ops.append(["add_node", n[0], n[1], n[2], n[3], n[4]])
        else:
            for f, name in (("ldel", L.LDEL), ("cdel", L.CDEL)):
                if A["nodes"][i][f] != B["nodes"][i][f]:
                    ops.append(["set_del", i, name, wb[i][3 if f == "ldel" else 4]])
    ea = {(x, y) for x, y, _, _ in A["edges"]}
    for x, y, r, _ in B["edges"]:
        if (x, y) not in ea or x not in A["nodes"] or y not in A["nodes"]:
            ops.append(["add_link", x, r, y])
    return ops


def free_cps(snap):
    """connection points without a Link neighbour, delegated ones first"""
    N = norm(snap)
    linked = set()
    for a, b, _, _ in N["edges"]:
        if N["nodes"][a]["cls"] == LINK:
            linked.add(b)
        if N["nodes"][b]["cls"] == LINK:
            linked.add(a)
    out = [i for i, n in N["nodes"].items() if n["cls"] == CP and i not in linked and n["props"].get("StitchNode") != "true"]
    out.sort(key=lambda i: (not (N["nodes"][i]["ldel"] or N["nodes"][i]["cdel"]), i))
    return out


def mutate_raw_ops(snap, rng, k, ids):
    """a random change as raw ops"""
    N = norm(snap)
    ids = ids or ["d1"]
    r = rng.random()
    free = free_cps(snap)
    ent = [[rng.choice(ids), L.cj({"pool": "m%d" % k})]]
    if r < 0.5 and len(free) >= 2:
        a, b = free[0], free[1] if rng.random() < 0.7 else rng.choice(free[1:])
        lk = "mut-link-%d" % k
        return [["add_node", lk, LINK, [["Name", lk]], None, None], ["add_link", a, "connects", lk], ["add_link", lk, "connects", b]]
    if r < 0.75 or len(N["nodes"]) < 3:
        nn = "mut-node-%d" % k
        ops = [["add_node", nn, rng.choice([NN, COMP, CP]), [["Name", nn]], None if rng.random() < 0.5 else ent, ent]]
        svc = [i for i, n in N["nodes"].items() if n["cls"] in (NS, NN)]
        if svc:
            ops.append(["add_link", rng.choice(svc), rng.choice(RELS), nn])
        return ops
    victim = rng.choice(sorted(N["nodes"]))
    return [["del_node", victim]]


def mutate_topo(sub, rng, k, ids, snap):
    """a change through the topology object (its own wrapper of the graph): patch two free ports, add a delegated worker, remove a worker"""
    import fim.user as f
    topo = sub.topo
    r = rng.random()
    free = free_cps(snap)
    by_id = {i.node_id: i for i in topo.interface_list}
    free = [x for x in free if x in by_id]
    if r < 0.55 and len(free) == 1:
        # one free port only: give the first dataplane switch service one more (delegated) port to patch it to
        for n in topo.nodes.values():
            if n.type == f.NodeType.Switch and n.network_services:
                ns = list(n.network_services.values())[0]
                pid = "mut-port-%d" % k
                ns.add_interface(name=pid, node_id=pid, itype=f.InterfaceType.TrunkPort, capacities=f.Capacities(bw=100))
                sub.graph.update_node_property(node_id=pid, prop_name=L.CDEL,
                                               prop_val=json.dumps({rng.choice(ids or ["alpha"]): {"pool": "mut%d" % k}}))
                by_id = {i.node_id: i for i in topo.interface_list}
                free.append(pid)
                break
    if r < 0.55 and len(free) >= 2:
        topo.add_link(name="mut-l%d" % k, node_id="mut-l%d" % k, ltype=f.LinkType.Patch, interfaces=[by_id[free[0]], by_id[free[1]]])
        return "topo.add_link(%s,%s)" % (free[0], free[1])
    if r < 0.8 or len(sub.workers) < 2:
        wn = "mut-w%d" % k
        w = topo.add_node(name=wn, node_id=wn, site="S0", ntype=f.NodeType.Server, capacities=f.Capacities(core=4, ram=8, disk=10, unit=1))
        c = w.add_component(name=wn + "-nic", node_id=wn + "-nic", model="ConnectX-6", network_service_node_id=wn + "-nic-sf",
                            interface_node_ids=[wn + "-nic-p1"], interface_labels=[f.Labels(mac="04:3F:72:B7:FF:%02X" % k, vlan_range="1-4096")],
                            ctype=f.ComponentType.SharedNIC, capacities=f.Capacities(unit=4))
        d = rng.choice(ids or ["alpha"])
        for nid in (wn, wn + "-nic"):
            sub.graph.update_node_property(node_id=nid, prop_name=L.CDEL, prop_val=json.dumps({d: {"pool": "mut%d" % k}}))
        sub.graph.update_node_property(node_id=wn + "-nic-p1", prop_name=L.LDEL, prop_val=json.dumps({d: {"pool": "mut%d" % k}}))
        return "topo.add_node(%s)+delegations" % wn
    victim = sub.workers.pop(rng.randrange(len(sub.workers)))
    name = [n.name for n in topo.nodes.values() if n.node_id == victim]
    topo.remove_node(name=name[0])
    return "topo.remove_node(%s)" % victim


# ---------------------------------------------------------------------------
# one run of the real code: partition / re-key chains / change / partition again ...


def mode_of(c, k):
    """how the graph ids of the k-th generate_adms call of a run are chosen; "mix:a,b": a for the first call, b for every later one"""
    m = c["guids"]
    if isinstance(m, str) and m.startswith("mix:"):
        seq = m[4:].split(",")
        return seq[min(k, len(seq) - 1)]
    return m


def _guids_for(mode, ids, arm_id, prefix):
    if isinstance(mode, dict):
        return mode
    if mode == "explicit":
        return {d: prefix + d for d in ids}
    if mode == "named":
        return {d: d for d in ids} if prefix == "adm-of-" else {d: prefix + d for d in ids}
    if mode == "self" and len(ids) == 1 and prefix == "adm-of-":
        return {ids[0]: arm_id}
    if mode == "emptydict":
        return {}
    if mode == "partial":
        return {d: prefix + d for d in ids[:max(1, len(ids) // 2)]}       # the other delegation names get generated ids
    return None


def _partition(arm, guids, mode=None):
    """-> dict(adms, adm_ids) or dict(error, where, msg); second element the graph objects. mode "default": the argument is left out"""
    try:
        if mode == "default" and guids is None:
            adms = arm.generate_adms()
        else:
            adms = arm.generate_adms(delegation_guids=guids)
    except Exception as e:
        tb = traceback.extract_tb(e.__traceback__)
        return {"error": err_kind(e), "where": tb[-1].name if tb else "?", "msg": str(e)[:200]}, {}
    return {"adm_ids": {d: a.graph_id for d, a in adms.items()}, "adms": {d: L.snapshot(a) for d, a in adms.items()}}, adms


def rekey_chain(i, d, x):
    """targets of successive rewrite_delegations calls on one partition (None = the partition's own graph id x)"""
    return [[None, None, "real-" + d], [d, "real-" + d, d], ["real-" + d, None, None]][i % 3]


def run_impl(c):
    """-> {"arm_id", "rounds": [round...]}; round = dict(before, order, ids, guids, change, same{...}, arm_after,
    fresh{...}, arm_after_fresh, [store_before, store_after, rekey{d: [[x, raised, snap]...]}])"""
    import random
    from fim.graph.networkx_property_graph import NetworkXPropertyGraph
    from fim.graph.resources.networkx_arm import NetworkXARMGraph
    from fim.graph.resources.networkx_adm import NetworkXADMGraph
    g, imp, sub = build_case(c)
    arm_id = g.graph_id
    mrng = random.Random("C13mut/" + str(c.get("seed") or c.get("mseed") or c.get("name") or c.get("file")))
    if c.get("bystander"):
        first = L.snapshot(g)
        some = list(first["nodes"])[:3]
        load_raw({"nodes": [n for n in to_wire(first)["nodes"] if n[0] in some], "edges": []}, "bystander", imp)
    arm = sub.arm() if sub is not None else NetworkXARMGraph(graph=g)      # THE ARM object, used for every round
    out = {"arm_id": arm_id, "rounds": []}
    kept, stop = [], False      # (round, the partition objects generate_adms returned in it): re-read when everything is over
    history = c.get("history")
    nrounds = 1 + len(history) if history is not None else c.get("rounds", 3)
    for k in range(nrounds):
        rd = {"change": None}
        if k > 0:
            prev = L.snapshot(g)
            if history is not None:
                apply_ops(NetworkXPropertyGraph(graph_id=arm_id, importer=imp), history[k - 1])
                rd["change"] = "ops"
            elif sub is not None:
                try:
                    rd["change"] = mutate_topo(sub, mrng, k, del_ids(prev), prev)
                except Exception as e:      # the topology API refused this change: make one at graph level instead
                    apply_ops(NetworkXPropertyGraph(graph_id=arm_id, importer=imp), mutate_raw_ops(L.snapshot(g), mrng, k, del_ids(prev)))
                    rd["change"] = "raw-after-%s" % type(e).__name__
            else:
                apply_ops(NetworkXPropertyGraph(graph_id=arm_id, importer=imp), mutate_raw_ops(prev, mrng, k, del_ids(prev)))
                rd["change"] = "raw"
            rd["ops"] = diff_ops(prev, L.snapshot(g))
        before = L.snapshot(g)
        rd.update(before=before, order=list(before["nodes"]), ids=del_ids(before))
        guids = _guids_for(mode_of(c, k), rd["ids"], arm_id, "adm-of-")
        rd["guids"] = dict(guids) if isinstance(guids, dict) else guids        # what was asked for (the dictionary itself is scribbled below)
        want_store = k == 0 and c.get("store", True)
        if want_store:
            rd["store_before"] = {x: norm(L.snapshot(g, x)) for x in L.store_graph_ids(imp)}
        rd["same"], adms = _partition(arm, guids, mode_of(c, k))
        rd["arm_after"] = L.snapshot(g)
        out["rounds"].append(rd)
        kept.append((rd, dict(adms)))
        if "error" in rd["same"]:
            if not before["nodes"] and k + 1 < nrounds:
                continue            # the empty model is refused by design: the SAME ARM object goes on after the failed call
            stop = True
            break
        own = arm_id in rd["same"]["adm_ids"].values()
        if want_store:
            rd["store_after"] = {x: norm(L.snapshot(g, x)) for x in L.store_graph_ids(imp)}
        if (k == 0 or k == nrounds - 1) and c.get("rekey", True):
            rd["rekey"] = {}
            rd["store_pre_rekey"] = {x: norm(L.snapshot(g, x)) for x in L.store_graph_ids(imp)}
            for i, (d, a) in enumerate(sorted(adms.items())):
                if a.graph_id == arm_id:
                    continue
                adm = NetworkXADMGraph(graph_id=a.graph_id, importer=imp)
                steps = []
                for x in rekey_chain(i + k, d, a.graph_id):
                    try:
                        adm.rewrite_delegations(real_adm_id=x)
                        raised = False
                    except Exception as e:
                        raised = err_kind(e)
                    steps.append([a.graph_id if x is None else x, raised, L.snapshot(adm)])
                rd["rekey"][d] = steps
            rd["store_post_rekey"] = {x: norm(L.snapshot(g, x)) for x in L.store_graph_ids(imp)}
        rd["kept_end"] = {d: L.snapshot(a) for d, a in adms.items()}       # the partitions as this round leaves them
        if c.get("scribble", True):
            adms.clear()            # the caller's dictionary now: nothing generate_adms does later may depend on it
            if isinstance(guids, dict):
                for d in list(guids):
                    guids[d] = arm_id       # ... nor on the dictionary of graph ids handed in: remembered, it would now name the model itself
        if own:
            stop = True
            break
        if not c.get("fresh", True):
            continue
        # the same model through a fresh ARM wrapper
        fresh = NetworkXARMGraph(graph=NetworkXPropertyGraph(graph_id=arm_id, importer=imp))
        rd["fresh"], _ = _partition(fresh, _guids_for("explicit", rd["ids"], arm_id, "fresh-of-"))
        rd["arm_after_fresh"] = L.snapshot(g)
    second = c.get("second")
    if second and not stop:
        # a SECOND model in the same store / process that uses (some of) the same delegation names, partitioned the same way
        first_now = L.snapshot(g)
        if second == "build" and sub is not None:
            rng2 = random.Random("C13gen2/" + c["seed"])
            keep_store, L.fresh_store = L.fresh_store, (lambda: None)      # L.build starts from an empty store: not this time
            try:
                sub2 = L.build(rng2, min(c["size"], 1), tag="n")
            finally:
                L.fresh_store = keep_store
            L.annotate(sub2, rng2, c["ids"], c["mode"])
            g2, arm2 = sub2.graph, sub2.arm()
        else:
            w2 = second["wire"] if isinstance(second, dict) else rename_wire(to_wire(first_now), "B-")
            g2 = load_raw(w2, "arm-graph-2", imp)
            arm2 = NetworkXARMGraph(graph=g2)
        before2 = L.snapshot(g2)
        rd = {"change": "second-model", "arm_id": g2.graph_id, "before": before2, "order": list(before2["nodes"]), "ids": del_ids(before2)}
        rd["guids"] = _guids_for(mode_of(c, nrounds), rd["ids"], g2.graph_id, "adm2-of-")
        if before2["nodes"]:
            rd["store_before"] = {x: norm(L.snapshot(g, x)) for x in L.store_graph_ids(imp)}
            rd["same"], adms2 = _partition(arm2, rd["guids"], mode_of(c, nrounds))
            rd["arm_after"] = L.snapshot(g2)
            if "error" not in rd["same"]:
                rd["store_after"] = {x: norm(L.snapshot(g, x)) for x in L.store_graph_ids(imp)}
                rd["kept_end"] = {d: L.snapshot(a) for d, a in adms2.items()}
            kept.append((rd, adms2))
            out["second"] = rd
            out["first_before_second"], out["first_after_second"] = first_now, L.snapshot(g)
    # every partition object handed out during the run, read once more now that all the calls have been made
    out["final"] = [{d: L.snapshot(a) for d, a in adms.items()} for _, adms in kept]
    return out


def rename_wire(w, px):
    """the same model under other element ids"""
    return {"nodes": [[px + n[0]] + list(n[1:]) for n in w["nodes"]], "edges": [[px + e[0], px + e[1]] + list(e[2:]) for e in w["edges"]]}


def calls_of(r):
    """the generate_adms calls of a run whose partitions were kept, in the order they were made"""
    return list(r["rounds"]) + ([r["second"]] if "second" in r else [])


def case_payload(c, r, upto):
    """self-contained replay payload: the first ARM as a raw graph plus the changes as raw ops"""
    r0 = r["rounds"][0]
    return {"wire": to_wire(r0["before"], r0["order"]), "guids": c["guids"] if c["guids"] in ("explicit", "named", "uuid", "self", "default", "emptydict", "partial") or isinstance(c["guids"], dict)
            or str(c["guids"]).startswith("mix:") else "uuid",
            "history": [rd.get("ops", []) for rd in r["rounds"][1:upto + 1]],
            **({"second": {"wire": to_wire(r["second"]["before"], r["second"]["order"])}} if "second" in r and upto >= len(r["rounds"]) - 1 else {}),
            "descr": {k: v for k, v in c.items() if k not in ("wire", "history", "second")}}


# ---------------------------------------------------------------------------
# running many cases: the cheap synthetic stream is spread over a few forked worker processes (every case is self-contained and
# seeded by its descriptor, so the results do not depend on the scheduling); VERIF_C13_PROCS=1 runs everything in this process


def _run_one(c):
    try:
        return run_impl(c)
    except Exception:
        return {"crash": traceback.format_exc()[-1500:]}


def run_many(cases):
    """-> [run_impl(c) for c in cases]; a harness crash on a case is an infrastructure error"""
    procs = int(os.environ.get("VERIF_C13_PROCS", "4"))
    par = [i for i, c in enumerate(cases) if c["kind"] == "synth"]
    out = [None] * len(cases)
    if procs > 1 and len(par) >= 64:
        try:
            import multiprocessing as mp
            with mp.get_context("fork").Pool(procs) as pool:
                for i, r in zip(par, pool.map(_run_one, [cases[i] for i in par], chunksize=16)):
                    out[i] = r
        except (OSError, ImportError, ValueError):
            pass            # no worker processes here: run them below
    for i, c in enumerate(cases):
        if out[i] is None:
            out[i] = _run_one(c)
        if "crash" in out[i]:
            raise Infra("C13 harness could not run case %s: %s" % (canon({k: v for k, v in c.items() if k not in ("wire", "history")})[:200], out[i]["crash"]))
    return out


# ---------------------------------------------------------------------------
# correspondence

_RUNS = []      # (case, result) of the correspondence, re-checked by the oracle


def correspondence(ctx, res):
    rng = ctx.sub_rng("corr")
    cases = gen_cases(ctx, rng, ctx.scale(8, 60), ctx.scale(2400, 14000))
    reqs, expect, meta = [], [], []
    del _RUNS[:]

    def add(rq, ex, c):
        reqs.append(rq)
        expect.append(ex)
        meta.append(c)
    t0 = time.time()
    results = run_many(cases)
    t_impl = time.time() - t0
    for c, r in zip(cases, results):
        _RUNS.append((c, r))
        res.count("kind:" + c["kind"])
        res.count("rounds:%d" % len(r["rounds"]))
        for f, v in c.get("features", {}).items():
            res.count("synth:" + f)
        if c["kind"] != "synth" and r["rounds"] and "before" in r["rounds"][0]:
            for f in sorted({f for n in r["rounds"][0]["before"]["nodes"].values() for dv in (n["ldel"], n["cdel"]) if dv
                             for e in dv.values() for f in SY.entry_features(e)}):
                res.count("%s:%s" % (c["kind"], f))
        if "second" in r:
            res.count("second-model:%s:guids-%s" % ("built" if c["second"] == "build" else "derived" if c["second"] == "derive" else "given",
                                                    c["guids"]))
            shared = set(r["second"]["ids"]) & {d for rd in r["rounds"] for d in rd["ids"]}
            res.count("second-model:shares-%s-delegation-names" % ("no" if not shared else "some"))
        for k, rd in enumerate(calls_of(r)):
            if "same" not in rd:
                continue
            this_arm = rd.get("arm_id", r["arm_id"])
            w = to_wire(rd["before"], rd["order"])
            res.count("ids:%d" % len(rd["ids"]))
            if rd["change"]:
                res.count("change:" + rd["change"].split("(")[0])
            if len(rd["ids"]) >= 2:
                res.nontrivial.add(canon(norm(rd["before"])))
            # 1. pure partition of the model as it is in this round: the same ARM object and a fresh wrapper must both give it
            for which in ("same", "fresh"):
                if which not in rd:
                    continue
                p = rd[which]
                if "error" in p:
                    add(["adms", w], ["err", p["error"]], c)
                    res.count("err:" + p["error"])
                else:
                    add(["adms", w], ["ok", {d: norm(s_) for d, s_ in p["adms"].items()}], c)
                res.count("partition:%s:round%d" % (which, min(k, 2)))
            if "error" in rd["same"]:
                continue
            # 2. the run as store operations (clone under the given graph ids, bystander graph present)
            if "store_before" in rd and "store_after" in rd:
                gmap = rd["same"]["adm_ids"]
                store = [[x, (w if x == this_arm else to_wire(s_))] for x, s_ in rd["store_before"].items()]
                add(["adms_store", store, this_arm, [[d, x] for d, x in sorted(gmap.items())]], ["ok", dict(gmap), rd["store_after"]], c)
                res.count("store:" + ("self" if this_arm in gmap.values() else c["guids"] if isinstance(c["guids"], str) else "explicit")
                          + (":second-model" if "arm_id" in rd else ""))
            # 3. chains of re-keyings of every result
            for d, steps in rd.get("rekey", {}).items():
                add(["rekeys", to_wire(rd["same"]["adms"][d]), [x for x, _, _ in steps]],
                    ["ok", [[bool(raised), norm(after)] for _, raised, after in steps]], c)
                cur = rd["same"]["adm_ids"][d]
                for x, raised, _ in steps:
                    res.count("rekey:" + ("raised:%s" % raised if raised else "to-present-key" if x == cur else "to-new-key"))
                    cur = x if not raised else cur
                if c["guids"] == "named":
                    res.count("rekey:delegation-named-after-graph-id")
            # 4. the same chains as operations on the store: every other graph (ARM, other partitions, bystander) must come out unchanged
            if rd.get("rekey") and "store_pre_rekey" in rd:
                chains = [[rd["same"]["adm_ids"][d], [x for x, _, _ in steps]] for d, steps in sorted(rd["rekey"].items())]
                add(["rekeys_store", [[x, to_wire(s_)] for x, s_ in sorted(rd["store_pre_rekey"].items())], chains],
                    ["ok", {rd["same"]["adm_ids"][d]: [bool(raised) for _, raised, _ in steps] for d, steps in rd["rekey"].items()},
                     rd["store_post_rekey"]], c)
    # rekey on graphs that are not partitions (several entries / none): the raising path, twice in a row
    for i in range(ctx.scale(20, 250)):
        w = raw_case(rng, rng.randint(1, 5))
        L.fresh_store()
        from fim.graph.resources.networkx_adm import NetworkXADMGraph
        g = load_raw(w, "adm-x")
        adm = NetworkXADMGraph(graph_id="adm-x", importer=g.importer)
        order = list(L.snapshot(g)["nodes"])
        xs = [[None, "real"], ["real", None], ["d1", "d1"]][i % 3]
        steps = []
        for x in xs:
            try:
                adm.rewrite_delegations(real_adm_id=x)
                raised = False
            except Exception as e:
                raised = err_kind(e)
            steps.append([bool(raised), norm(L.snapshot(adm))])
            res.count("rekey-raw:" + ("raised:%s" % raised if raised else "ok"))
        add(["rekeys", to_wire(norm(from_wire(w)), order), [x or "adm-x" for x in xs]], ["ok", steps], {"kind": "raw-rekey", "wire": w})
    t0 = time.time()
    model = LeanDriver(ID).run([json.dumps(r) for r in reqs])
    ctx.notes.append("C13 correspondence: %d cases on the implementation in %.1fs, %d requests through the Lean driver in %.1fs"
                     % (len(cases), t_impl, len(reqs), time.time() - t0))
    for rq, ex, m, c in zip(reqs, expect, model, meta):
        res.evaluations += 1
        res.count("op:" + rq[0])
        mj = json.loads(m)
        got = canon_reply(rq[0], mj)
        if canon(got) != canon(ex):
            res.disagreements.append({"case": {k: v for k, v in c.items() if k not in ("wire", "history")}, "request": rq[0],
                                      "impl": diff_hint(ex, got, 0), "model": diff_hint(ex, got, 1), "raw": rq})
    if reqs:
        res.sample({"request": [reqs[0][0], "G with %d nodes" % len(reqs[0][1]["nodes"])], "impl": str(expect[0])[:300],
                    "model": model[0][:300]})


def canon_reply(op, mj):
    if mj[0] != "ok":
        return mj
    if op == "adms":
        return ["ok", {d: from_wire(g) for d, g in mj[1]}]
    if op == "rekey":
        return ["ok", mj[1], from_wire(mj[2])]
    if op == "rekeys":
        return ["ok", [[r, from_wire(g)] for r, g in mj[1]]]
    if op == "rekeys_store":
        return ["ok", {x: r for x, r in mj[1]}, {x: from_wire(g) for x, g in mj[2]}]
    if op == "adms_store":
        return ["ok", {d: x for d, x in mj[1]}, {x: from_wire(g) for x, g in mj[2]}]
    return mj


def diff_hint(ex, got, side):
    """a short description of the first difference (the full request is kept under 'raw')"""
    a, b = canon(ex), canon(got)
    i = 0
    while i < min(len(a), len(b)) and a[i] == b[i]:
        i += 1
    s = (a, b)[side]
    return s[max(0, i - 150):i + 150]


# ---------------------------------------------------------------------------
# oracle: the property itself on the implementation's outputs


def adjacency(snap):
    adj = {i: [] for i in snap["nodes"]}
    for a, b, r, _ in snap["edges"]:
        adj[a].append((b, r))
        if a != b:
            adj[b].append((a, r))
    return adj


def entries(v):
    return v if v else {}


def check_one_partition(A, p, arm_id, arm_after, res, case, tag):
    """All partition clauses of C13 for one generate_adms call: A = ARM snapshot before, p = its result."""
    def bad(sig, what, **kw):
        res.violation("C13:" + sig, what + tag, case, **kw)
    if "error" in p:
        if not A["nodes"] and p["error"] == "query":
            res.count("empty-model:query-exception")     # a model without nodes is refused by design (the Lean model: `none`), nothing to partition
            return
        bad("generate_adms:raises:%s:%s" % (p["error"], p["where"]),
            "generate_adms raised %s in %s on an annotated model: %s" % (p["error"], p["where"], p.get("msg")))
        if norm(arm_after) != A:
            bad("arm_untouched:after-exception", "the ARM differs after generate_adms raised")
        return
    ids = del_ids(A)
    if sorted(p["adms"]) != ids:
        bad("one_model_per_id", "result keys differ from the delegation ids present", expected=ids, observed=sorted(p["adms"]))
    adj = adjacency(A)
    cls = {i: n["cls"] for i, n in A["nodes"].items()}
    stitch = sorted(i for i, n in A["nodes"].items() if n["props"].get("StitchNode") == "true")
    aedges = {(a, b): (rel, pr) for a, b, rel, pr in A["edges"]}
    own_id = arm_id in p["adm_ids"].values()
    if not own_id and norm(arm_after) != A:
        bad("arm_untouched", "the ARM was modified by generate_adms")
    for d in sorted(p["adms"]):
        M = norm(p["adms"][d])
        kept = set(M["nodes"])
        for i, n in A["nodes"].items():
            holds = d in entries(n["ldel"]) or d in entries(n["cdel"])
            if not holds:
                continue
            if i not in kept:
                bad("holders_kept", "a node delegated to %s is missing from its model" % d, observed=i)
                continue
            for f in ("ldel", "cdel"):
                want = {d: entries(n[f])[d]} if d in entries(n[f]) else {}
                have = entries(M["nodes"][i][f])
                if have != want:
                    bad("only_own_entries:" + f, "a kept holder does not carry exactly its own entry", expected=want, observed=have)
        for i, n in M["nodes"].items():
            for f in ("ldel", "cdel"):
                if any(k != d for k in entries(n[f])):
                    bad("no_foreign_entries", "an entry of another delegation id appears in the model of %s" % d, observed=[i, n[f]])
            if i not in A["nodes"]:
                bad("sub_model:node", "a node that is not in the ARM", observed=i)
                continue
            if n["cls"] != A["nodes"][i]["cls"] or n["props"] != A["nodes"][i]["props"]:
                bad("sub_model:props", "class or another property of a kept node changed", observed=i)
        medges = {(a, b): (rel, pr) for a, b, rel, pr in M["edges"]}
        for k, v in medges.items():
            if aedges.get(k) != v:
                bad("sub_model:edge-new", "an edge that is not in the ARM", observed=list(k))
        for (a, b), v in aedges.items():
            if a in kept and b in kept and medges.get((a, b)) != v:
                bad("sub_model:edge-lost", "an ARM edge between two kept nodes is missing", observed=[a, b])
        for i in stitch:
            if i not in kept:
                bad("stitch_everywhere", "a stitch node is missing from the model of %s" % d, observed=i)
        # closure
        for c in sorted(kept):
            if cls.get(c) != CP:
                continue
            n = A["nodes"][c]
            definite = d in entries(n["ldel"]) or d in entries(n["cdel"]) or c in stitch
            for lk, rel in adj[c]:
                if rel != "connects" or cls.get(lk) != LINK:
                    continue
                peers = [q for q, r2 in adj[lk] if r2 == "connects" and cls.get(q) == CP and q != c]
                if not peers:
                    continue
                if lk in kept and all(q in kept for q in peers):
                    continue
                if definite:
                    bad("closure:link-of-definite-interface", "a delegated/stitch interface lost its link or peer", observed=[c, lk, peers])
                else:
                    bad("closure:peer-interface-other-link",
                        "an interface kept only as the far end of a kept link lost another of its links", observed=[c, lk])
            for sv, rel in adj[c]:
                if rel != "connects" or cls.get(sv) != NS:
                    continue
                owners = [o for o, r2 in adj[sv] if r2 == "has" and cls.get(o) in (NN, COMP)]
                if owners and not (sv in kept and all(o in kept for o in owners)):
                    bad("closure:service-owner", "a kept interface lost its owning service or that service's owner", observed=[c, sv, owners])


def check_rekey_chain(B, steps, res, case, tag):
    """re-keying changes only the key - after every step of a chain, compared with the partition before the first step"""
    def bad(sig, what, **kw):
        res.violation("C13:" + sig, what + tag, case, **kw)
    B = norm(B)
    for j, (x, raised, after) in enumerate(steps):
        Z = norm(after)
        if raised:
            bad("rekey:raises:%s" % raised, "rewrite_delegations raised on a generated partition (step %d of the chain, to %s)" % (j + 1, x))
            return
        if Z["edges"] != B["edges"] or sorted(Z["nodes"]) != sorted(B["nodes"]):
            bad("rekey_only_key:structure", "re-keying changed nodes or edges")
            return
        for i, n in B["nodes"].items():
            z = Z["nodes"][i]
            if z["cls"] != n["cls"] or z["props"] != n["props"]:
                bad("rekey_only_key:props", "re-keying changed another property", observed=i)
            for f in ("ldel", "cdel"):
                if entries(n[f]):
                    want = {x: e for _, e in entries(n[f]).items()}
                    if entries(z[f]) != want:
                        bad("rekey_only_key:entry", "after re-keying (step %d, to %s) the entry differs in more than the key" % (j + 1, x),
                            expected=want, observed=z[f])
                elif z[f] != n[f]:
                    bad("rekey_only_key:empty", "a property without entries changed", observed=[i, n[f], z[f]])


def check_run(c, r, res):
    """every clause on every round of one run"""
    for k, rd in enumerate(r["rounds"]):
        case = case_payload(c, r, k)
        A = norm(rd["before"])
        tag = "" if k == 0 else " [partition %d of the same ARM object, after: %s]" % (k + 1, rd["change"])
        check_one_partition(A, rd["same"], r["arm_id"], rd["arm_after"], res, case, tag)
        if "fresh" in rd:
            ftag = " [fresh ARM wrapper%s]" % ("" if k == 0 else ", after: %s" % rd["change"])
            check_one_partition(A, rd["fresh"], r["arm_id"], rd["arm_after_fresh"], res, case, ftag)
            if "adms" in rd["same"] and "adms" in rd["fresh"]:
                a = {d: norm(s_) for d, s_ in rd["same"]["adms"].items()}
                b = {d: norm(s_) for d, s_ in rd["fresh"]["adms"].items()}
                if a != b:
                    res.violation("C13:repartition:same-object-differs-from-fresh-wrapper",
                                  "the ARM object that partitioned before gives other partitions than a fresh wrapper of the same model" + tag, case)
        for d, steps in rd.get("rekey", {}).items():
            check_rekey_chain(rd["same"]["adms"][d], steps, res, case, tag)
        if rd.get("rekey") and "store_pre_rekey" in rd:
            rekeyed = {rd["same"]["adm_ids"][d] for d in rd["rekey"]}
            pre, post = rd["store_pre_rekey"], rd["store_post_rekey"]
            for x in sorted(set(pre) | set(post)):
                if x not in rekeyed and pre.get(x) != post.get(x):
                    res.violation("C13:rekey_only_key:other-graph-changed",
                                  "re-keying the partitions changed another graph of the store (%s)%s"
                                  % ("the ARM" if x == r["arm_id"] else "graph " + x, tag), case, observed=x)
    if "second" in r:
        rd = r["second"]
        case = case_payload(c, r, len(r["rounds"]))
        tag = " [a second model of the same process, partitioned after the first]"
        check_one_partition(norm(rd["before"]), rd["same"], rd["arm_id"], rd["arm_after"], res, case, tag)
        if norm(r["first_before_second"]) != norm(r["first_after_second"]):
            res.violation("C13:arm_untouched:by-partition-of-another-model", "partitioning the second model changed the first model", case)
    check_persistence(c, r, res)


def check_persistence(c, r, res):
    """Every partition is a model of its own and stays what it was: a later generate_adms call - on the same model or on another
    model of the process, whatever delegation names they share - neither re-uses its graph id nor changes it, unless the CALLER
    handed that very graph id to the later call (then the replacement is what was asked for). Also: the ids one call hands out are
    pairwise distinct and none is a model's own id unless asked for."""
    calls = [(rd, fin) for rd, fin in zip(calls_of(r), r.get("final", [])) if "adm_ids" in rd.get("same", {})]
    case = case_payload(c, r, len(r["rounds"]))
    arms = {r["arm_id"]} | ({r["second"]["arm_id"]} if "second" in r else set())

    def n_of(j):
        return "the second model" if "arm_id" in calls[j][0] else "partition call %d of the first model" % (j + 1)
    for j, (rd, fin) in enumerate(calls):
        asked_here = set((rd["guids"] or {}).values())
        ids = rd["same"]["adm_ids"]
        dup = sorted(x for x in set(ids.values()) if list(ids.values()).count(x) > 1 and x not in asked_here)
        if dup:
            res.violation("C13:one_model_per_id:generated-graph-id-shared", "one call generated the same graph id for two delegation ids (%s)" % n_of(j),
                          case, observed=dup)
        own = sorted(x for x in ids.values() if x in arms and x not in asked_here)
        if own:
            res.violation("C13:one_model_per_id:generated-graph-id-is-a-model", "a generated graph id is the id of an aggregate model (%s)" % n_of(j),
                          case, observed=own)
        for d, x in sorted(ids.items()):
            later = calls[j + 1:]
            asked = any(x in (l["guids"] or {}).values() for l, _ in later)
            for i, (l, _) in enumerate(later):
                if x in l["same"]["adm_ids"].values() and x not in (l["guids"] or {}).values():
                    res.violation("C13:one_model_per_id:graph-id-generated-twice",
                                  "a graph id that generate_adms generated itself was handed out before: the partition of %s for %s and a partition of %s "
                                  "are one graph" % (n_of(j), d, n_of(j + 1 + i)), case, observed=[d, sorted(k for k, v in l["same"]["adm_ids"].items() if v == x)])
                    break
            if asked or "kept_end" not in rd:
                continue
            if norm(fin[d]) != norm(rd["kept_end"][d]):
                A, Z = norm(rd["kept_end"][d]), norm(fin[d])
                res.violation("C13:sub_model:earlier-partition-changed-by-later-call",
                              "the partition for %s returned by %s is no longer what it was after the later calls (%s)"
                              % (d, n_of(j), ", ".join(n_of(j + 1 + i) for i in range(len(later)))), case,
                              expected="nodes %s" % sorted(A["nodes"])[:12], observed="nodes %s" % sorted(Z["nodes"])[:12])


def oracle(ctx, res, n=None, nsynth=None):
    rng = ctx.sub_rng("oracle")
    runs = list(_RUNS) if n is None else []
    cases = gen_cases(ctx, rng, n or ctx.scale(4, 30), nsynth or ctx.scale(1500, 10000))
    if runs:
        cases = [c for c in cases if c["kind"] in ("gen", "synth") or c.get("name", "").startswith("rand")]   # corners/corpus were run already
    t0 = time.time()
    runs += list(zip(cases, run_many(cases)))
    t_impl = time.time() - t0
    t0 = time.time()
    for c, r in runs:
        res.evaluations += len(r["rounds"])
        res.count("kind:" + c["kind"])
        for rd in r["rounds"]:
            res.count("ids:%d" % len(rd["ids"]))
            if len(rd["ids"]) >= 2:
                res.nontrivial.add(canon(norm(rd["before"])))
        check_run(c, r, res)
    ctx.notes.append("C13 oracle: %d further cases on the implementation in %.1fs, all clauses checked on %d runs in %.1fs"
                     % (len(cases), t_impl, len(runs), time.time() - t0))
    res.sample({"case": {k: v for k, v in runs[-1][0].items() if k not in ("wire", "history")},
                "checked": "all C13 clauses on every partition (same ARM object and fresh wrapper) and every re-key step"})


def search(ctx, res, broken):
    oracle(ctx, res, n=ctx.scale(30, 300), nsynth=ctx.scale(6000, 40000))


def replay(ctx, payload):
    from core import Result
    r = Result()
    c = payload["case"]
    case = {"kind": "raw", "name": "replay", "wire": c["wire"], "guids": c.get("guids") or "uuid", "bystander": False,
            "history": c.get("history") or [], **({"second": c["second"]} if c.get("second") else {})}
    check_run(case, run_impl(case), r)
    sig = payload.get("signature")
    for v in r.violations:
        print("  ", v["signature"], v["what"])
    return any(v["signature"] == sig for v in r.violations) if sig else bool(r.violations)
