"""C15 - capacity arithmetic and comparison obey their algebraic laws."""
import copy
import json

from core import LeanDriver, err_kind, canon
from gen import capops

ID = "C15"
GENERATORS = [capops.generate]
LEAN_MODULES = ["FimVerif.Proofs.C15"]
P = "FimVerif.C15."
THEOREMS = [P + t for t in (
    "add_sub_cancel", "add_comm", "free_eq_sub", "free_plus_alloc", "negative_fields_exact",
    "lt_iff_sub_nonneg", "gt_iff_sub_nonneg", "gt_iff_lt_swap", "eq_iff", "eq_refl", "eq_symm",
    "eq_iff_toList", "sub_negative_fields", "positive_fields_iff", "lt_add_right",
    "no_operator_hooks", "aug_assign_pure", "running_total")]
TRUSTED_BASE = [
    "gen/capops.py: AST patterns for Capacities.__add__/__sub__/__gt__/__lt__/__eq__/negative_fields/positive_fields and FreeCapacity.__init__",
    "Model/Cap.lean lifts the generated field operators over the field list (loop over __dict__.items()); checked differentially",
    "Python int arithmetic modelled by Lean Int; f'{v:,}' modelled by Cap.fmtComma (differential only)",
]
ASSUMPTIONS = ["both operands are Capacities with the class's current field list (pickles of older versions are outside the quantifier)"]
RULE = ("pairs/triples of capacity values over all eight fields drawn from {0,1,2,small,2^31,2^63,2^64+1,huge}; results with negative "
        "fields are fed back as operands; non-trivial = some field non-zero in each operand; distinct by canonical operand values")

EDGE = [0, 0, 0, 1, 1, 2, 3, 7, 10, 100, 1000, 4096, 2 ** 31 - 1, 2 ** 31, 2 ** 32, 2 ** 63 - 1, 2 ** 63, 2 ** 64 + 1, 10 ** 30]


def _mk(cl, vals):
    c = cl.Capacities()
    for f, v in zip(list(c.__dict__.keys()), vals):
        c.__dict__[f] = v       # negative values only arise as results; build them directly as results would
    return c


def _vals(c):
    return [c.__dict__[f] for f in c.__dict__]


def gen_cases(rng, n, nfields):
    cases = []
    for i in range(n):
        def one(neg_ok):
            k = rng.random()
            vs = []
            for _ in range(nfields):
                if k < 0.15:
                    v = 0 if rng.random() < 0.6 else rng.choice(EDGE)
                else:
                    v = rng.choice(EDGE) if rng.random() < 0.5 else rng.randrange(0, 50)
                if neg_ok and rng.random() < 0.2:
                    v = -v
                vs.append(v)
            return vs
        neg = rng.random() < 0.3
        cases.append((one(neg), one(neg), one(False)))
    # deterministic corner cases first
    z = [0] * nfields
    o = [1] * nfields
    cases = [(z, z, z), (o, z, o), (z, o, o), (o, o, z), ([5] + z[1:], [3] + z[1:], z), (z[:-1] + [2], z[:-1] + [3], o)] + cases
    return cases


def impl_eval(cl, op, a, b=None):
    try:
        if op == "add":
            return ["ok", _vals(_mk(cl, a) + _mk(cl, b))]
        if op == "sub":
            return ["ok", _vals(_mk(cl, a) - _mk(cl, b))]
        if op == "free":
            return ["ok", _vals(cl.FreeCapacity(total=_mk(cl, a), allocated=_mk(cl, b)).free)]
        if op in ("iadd", "isub"):
            A, B = _mk(cl, a), _mk(cl, b)
            acc = A
            if op == "iadd":
                acc += B
            else:
                acc -= B
            return ["ok", [_vals(acc), _vals(A)]]
        if op == "gt":
            return ["ok", bool(_mk(cl, a) > _mk(cl, b))]
        if op == "lt":
            return ["ok", bool(_mk(cl, a) < _mk(cl, b))]
        if op == "eq":
            return ["ok", bool(_mk(cl, a) == _mk(cl, b))]
        if op == "neg":
            return ["ok", _mk(cl, a).negative_fields()]
        if op == "str":
            return ["ok", str(_mk(cl, a))]
        if op == "pos":
            return ["ok", bool(_mk(cl, a).positive_fields(b))]
    except Exception as e:
        return ["err", err_kind(e)]


def correspondence(ctx, res, n=None):
    import fim.slivers.capacities_labels as cl
    fields = list(cl.Capacities().__dict__.keys())
    n = n or ctx.scale(1200, 30000)
    cases = gen_cases(ctx.sub_rng("corr"), n, len(fields))
    reqs = []
    for a, b, c in cases:
        for op in ("add", "sub", "free", "gt", "lt", "eq", "iadd", "isub"):
            reqs.append([op, a, b])
        reqs.append(["neg", a])
        reqs.append(["str", a])
        reqs.append(["pos", a, [f for f, x in zip(fields, c) if x]])
        d = impl_eval(cl, "sub", a, b)
        if d[0] == "ok":
            reqs.append(["neg", d[1]])
            reqs.append(["str", d[1]])
            reqs.append(["add", d[1], b])
    impl = [impl_eval(cl, *r) for r in reqs]
    model = LeanDriver("C15").run([json.dumps(r) for r in reqs])
    for r, i, m in zip(reqs, impl, model):
        res.evaluations += 1
        res.count("op:" + r[0])
        if i[0] == "err":
            res.count("err:" + i[1])
        if any(x != 0 for x in r[1]) and (len(r) < 3 or r[0] == "pos" or any(x != 0 for x in r[2])):
            res.nontrivial.add(canon(r))
        if json.loads(m) != i:
            res.disagreements.append({"case": r, "impl": i, "model": json.loads(m)})
    res.sample({"request": reqs[7], "impl": impl[7], "model": json.loads(model[7])})
    res.sample({"request": reqs[-1], "impl": impl[-1], "model": json.loads(model[-1])})


def check_laws(cl, a, b, c, res):
    """The property itself, evaluated on the implementation."""
    A, B, C = _mk(cl, a), _mk(cl, b), _mk(cl, c)
    snap = (copy.deepcopy(A.__dict__), copy.deepcopy(B.__dict__))
    case = {"a": a, "b": b, "c": c}

    def bad(sig, what, **kw):
        res.violation("C15:" + sig, what, case, **kw)
    try:
        s = (A + B) - B
        if s.__dict__ != A.__dict__:
            bad("add_sub_cancel", "(a+b)-b != a", expected=a, observed=_vals(s))
        if (A + B).__dict__ != (B + A).__dict__:
            bad("add_comm", "a+b != b+a")
        fc = cl.FreeCapacity(total=A, allocated=B)
        if (fc.free + B).__dict__ != A.__dict__:
            bad("free_plus_alloc", "free + allocated != total", observed=_vals(fc.free + B))
        if fc.free.__dict__ != (A - B).__dict__:
            bad("free_eq_sub", "free != total - allocated")
        for f in A.__dict__:
            if getattr(fc, f) != A.__dict__[f] - B.__dict__[f]:
                bad("free_attr", "FreeCapacity attribute %s is not total - allocated" % f)
        d = B - A
        negs = d.negative_fields()
        if negs != [f for f in A.__dict__ if B.__dict__[f] - A.__dict__[f] < 0]:
            bad("negative_fields_exact", "negative_fields does not name exactly the negative fields", observed=negs)
        if bool(A < B) != (len(negs) == 0):
            bad("lt_iff_sub_nonneg", "a fits in b (a<b) disagrees with negative fields of b-a", observed=[bool(A < B), negs])
        if bool(B > A) != (len(negs) == 0):
            bad("gt_iff_sub_nonneg", "b>a disagrees with negative fields of b-a", observed=[bool(B > A), negs])
        if not (A == A):
            bad("eq_refl", "a != a")
        if bool(A == B) != bool(B == A):
            bad("eq_symm", "== not symmetric")
        if bool(A == B) != (A.__dict__ == B.__dict__):
            bad("eq_iff", "== disagrees with fieldwise equality")
        try:
            str(d); repr(d); d.to_json(); str(fc)
        except Exception as e:
            bad("sub_total", "result with negative field is not printable: %s" % err_kind(e))
        if not isinstance(d, cl.Capacities):
            bad("sub_total", "a-b is not a Capacities value")
        if (A.__dict__, B.__dict__) != snap:
            bad("operands_unchanged", "an operand was modified", observed=[_vals(A), _vals(B)])
        # augmented assignment, running totals, reflected use through sum(): the objects bound before keep their values
        acc = A
        acc += B
        if A.__dict__ != snap[0] or B.__dict__ != snap[1]:
            bad("operands_unchanged:iadd", "`acc = a; acc += b` modified an operand", observed=[_vals(A), _vals(B)])
        elif acc.__dict__ != (A + B).__dict__:
            bad("iadd_result", "`acc += b` differs from a + b")
        acc = A
        acc -= B
        if A.__dict__ != snap[0] or B.__dict__ != snap[1]:
            bad("operands_unchanged:isub", "`acc = a; acc -= b` modified an operand", observed=[_vals(A), _vals(B)])
        elif acc.__dict__ != (A - B).__dict__:
            bad("isub_result", "`acc -= b` differs from a - b")
        tot = cl.Capacities()
        for x in (A, B, C):
            tot += x
        if tot.__dict__ != ((A + B) + C).__dict__ or (A.__dict__, B.__dict__) != snap:
            bad("running_total", "a running total kept with += differs from the sum or modified a summand")
        fc2 = cl.FreeCapacity(total=A, allocated=B)
        if (A.__dict__, B.__dict__) != snap:
            bad("operands_unchanged:free", "FreeCapacity modified total or allocated")
        if bool(A) is not True:
            bad("truthiness", "a capacities value is falsy (comparisons start with `if not other`)")
    except Exception as e:
        bad("raises:" + err_kind(e), "capacity operation raised %s: %s" % (type(e).__name__, e))


def oracle(ctx, res, n=None):
    import fim.slivers.capacities_labels as cl
    nf = len(cl.Capacities().__dict__)
    cases = gen_cases(ctx.sub_rng("oracle"), n or ctx.scale(3000, 100000), nf)
    for a, b, c in cases:
        res.evaluations += 1
        if any(a) and any(b):
            res.nontrivial.add(canon([a, b]))
        check_laws(cl, a, b, c, res)
    res.sample({"a": cases[9][0], "b": cases[9][1], "laws": "all C15 laws evaluated on the implementation"})


def search(ctx, res, broken):
    oracle(ctx, res, n=ctx.scale(30000, 300000))


def replay(ctx, payload):
    import fim.slivers.capacities_labels as cl
    from core import Result
    r = Result()
    c = payload["case"]
    check_laws(cl, c["a"], c["b"], c["c"], r)
    for v in r.violations:
        print("  ", v["signature"], v["what"])
    return bool(r.violations)
