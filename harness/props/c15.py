"""C15 - capacity arithmetic and comparison obey their algebraic laws."""
import copy
import json

from core import LeanDriver, err_kind, canon
from gen import capops

ID = "C15"
GENERATORS = [capops.generate]
LEAN_MODULES = ["FimVerif.Proofs.C15"]
P = "FimVerif.C15."
THEOREMS = [P + t for t in (
    "add_sub_cancel", "add_comm", "free_eq_sub", "free_plus_alloc", "negative_fields_exact",
    "lt_iff_sub_nonneg", "gt_iff_sub_nonneg", "gt_iff_lt_swap", "eq_iff", "eq_refl", "eq_symm",
    "eq_iff_toList", "sub_negative_fields", "positive_fields_iff", "lt_add_right",
    "sub_add_cancel", "add_assoc", "add_zero", "sub_zero", "sub_self", "sub_sub", "free_after_allocation",
    "lt_refl", "lt_trans", "lt_antisymm", "lt_iff_fields", "gt_iff_fields", "not_lt_names_deficit",
    "eq_trans", "eq_zero_zero", "eq_zero_iff", "add_congr", "sub_congr",
    "no_operator_hooks", "aug_assign_pure", "running_total", "step_prefix", "objects_never_modified", "object_value_stable",
    "aug_leaves_other_holders", "result_is_fresh", "result_aliases_nothing", "operands_survive_result_updates", "legacy_eq_full", "legacy_eq_iff", "legacy_eq_refl", "legacy_eq_full_left", "legacy_eq_symm_partial",
    "legacy_eq_symm_counterexample", "legacy_eq_both_iff_value", "fmtComma_neg", "toStr_empty_iff", "deficit_is_printable", "groupDigits_filter", "fmtComma_digits")]
TRUSTED_BASE = [
    "gen/capops.py + gen/symexec.py: the operators are executed symbolically (all paths) on operands whose fields are distinct symbols; "
    "the extractor checks on every path that the result is a new object, the operands hold the same objects afterwards, and that the "
    "result / decision structure is the SAME per-field operation in every field, then replays the extracted operators on 1200 concrete "
    "operand pairs (negative, zero, 2^63, 10^30); trusted: the symbolic int (an int subclass) behaves like an int wherever the code "
    "does not inspect type()/id() (rejected by an AST check)",
    "Model/Cap.lean lifts the generated field operators over the field list and models references as a store + environment "
    "(object id = position); checked differentially on single operations and on whole programs with aliasing; that every result is a NEW "
    "object (result_is_fresh: `step` allocates for every bin / aug / free statement) is tied to the code by the object identities compared "
    "in the program correspondence and by the oracle's freshness check (`is not` either operand / FreeCapacity.total, all-zero and equal "
    "operands included, then the result is updated in place and the operands re-read)",
    "Python int arithmetic modelled by Lean Int; f'{v:,}' modelled by Cap.fmtComma (differential only)",
]
ASSUMPTIONS = ["arithmetic, fits-within, negative_fields and printing: both operands are Capacities carrying the class's current field list; "
               "objects that lack fields (restored from a pickle of an older release) are inside the quantifier for == only - the one method "
               "that caters for them (a right operand lacking a field makes + - < > raise KeyError on the unchanged tree)"]
RULE = ("programs of up to 13 statements (+ - += -= FreeCapacity alias) over 2..5 variables with aliasing, compared object by object; "
        "pairs/triples of capacity values over all eight fields drawn from {0,1,2,small,2^31,2^63,2^64+1,huge}; results with negative "
        "fields are fed back as operands; non-trivial = some field non-zero in each operand; distinct by canonical operand values")

EDGE = [0, 0, 0, 1, 1, 2, 3, 7, 10, 100, 1000, 4096, 2 ** 31 - 1, 2 ** 31, 2 ** 32, 2 ** 63 - 1, 2 ** 63, 2 ** 64 + 1, 10 ** 30]


# ways an operand comes into being in the library: written field by field (as results are), the keyword constructor (all fields /
# only the non-zero ones), attribute assignment, the private setter, from_json of the encoding, JSONField.update (quasi-copy, with
# and without keyword arguments), copy.deepcopy, a pickle round trip.  Negative values only arise as results: the validating paths
# are used for non-negative operands only.
PATHS_ANY = ["direct", "setattr", "update-copy", "deepcopy", "pickle"]
PATHS_NONNEG = ["ctor", "ctor-sparse", "set_fields", "json", "update-kw", "json-of-update"]


def paths_for(vals):
    return PATHS_ANY + (PATHS_NONNEG if all(v >= 0 for v in vals) else [])


def _mk(cl, vals, path="direct"):
    c = cl.Capacities()
    fields = list(c.__dict__.keys())
    kw = dict(zip(fields, vals))
    nz = {f: v for f, v in kw.items() if v != 0}
    if path in ("direct", "update-copy", "deepcopy", "pickle"):
        for f, v in kw.items():
            c.__dict__[f] = v       # negative values only arise as results; build them directly as results would
        if path == "update-copy":
            return cl.JSONField.update(c)
        if path == "deepcopy":
            return copy.deepcopy(c)
        if path == "pickle":
            import pickle
            return pickle.loads(pickle.dumps(c))
        return c
    if path == "setattr":
        for f, v in kw.items():
            setattr(c, f, v)
        return c
    if path == "ctor":
        return cl.Capacities(**kw)
    if path == "ctor-sparse":
        return cl.Capacities(**nz)
    if path == "set_fields":
        return c._set_fields(**nz)
    if path == "update-kw":
        return cl.Capacities.update(cl.Capacities(), **nz)
    if path in ("json", "json-of-update"):
        src = cl.Capacities(**nz)
        if path == "json-of-update":
            src = cl.JSONField.update(src)
        r = cl.Capacities.from_json(src.to_json())
        return cl.Capacities() if r is None else r      # the encoding of the all-zero capacity is '' and decodes to None
    raise ValueError(path)


def _vals(c):
    return [c.__dict__[f] for f in c.__dict__]


def gen_cases(rng, n, nfields):
    cases = []
    for i in range(n):
        def one(neg_ok):
            k = rng.random()
            vs = []
            for _ in range(nfields):
                if k < 0.15:
                    v = 0 if rng.random() < 0.6 else rng.choice(EDGE)
                else:
                    v = rng.choice(EDGE) if rng.random() < 0.5 else rng.randrange(0, 50)
                if neg_ok and rng.random() < 0.2:
                    v = -v
                vs.append(v)
            return vs
        neg = rng.random() < 0.3
        cases.append((one(neg), one(neg), one(False)))
    # deterministic corner cases first
    z = [0] * nfields
    o = [1] * nfields
    cases = [(z, z, z), (o, z, o), (z, o, o), (o, o, z), ([5] + z[1:], [3] + z[1:], z), (z[:-1] + [2], z[:-1] + [3], o)] + cases
    return cases


def impl_eval(cl, op, a, b=None, path=None):
    try:
        if path is not None:
            A, B = _mk(cl, a, path[0]), _mk(cl, b, path[1])
            if op == "add":
                return ["ok", _vals(A + B)]
            if op == "sub":
                return ["ok", _vals(A - B)]
            if op == "free":
                return ["ok", _vals(cl.FreeCapacity(total=A, allocated=B).free)]
            return ["ok", bool({"gt": lambda: A > B, "lt": lambda: A < B, "eq": lambda: A == B}[op]())]
        if op == "add":
            return ["ok", _vals(_mk(cl, a) + _mk(cl, b))]
        if op == "sub":
            return ["ok", _vals(_mk(cl, a) - _mk(cl, b))]
        if op == "free":
            return ["ok", _vals(cl.FreeCapacity(total=_mk(cl, a), allocated=_mk(cl, b)).free)]
        if op in ("iadd", "isub"):
            A, B = _mk(cl, a), _mk(cl, b)
            acc = A
            if op == "iadd":
                acc += B
            else:
                acc -= B
            return ["ok", [_vals(acc), _vals(A)]]
        if op == "gt":
            return ["ok", bool(_mk(cl, a) > _mk(cl, b))]
        if op == "lt":
            return ["ok", bool(_mk(cl, a) < _mk(cl, b))]
        if op == "eq":
            return ["ok", bool(_mk(cl, a) == _mk(cl, b))]
        if op == "neg":
            return ["ok", _mk(cl, a).negative_fields()]
        if op == "str":
            return ["ok", str(_mk(cl, a))]
        if op == "pos":
            return ["ok", bool(_mk(cl, a).positive_fields(b))]
    except Exception as e:
        return ["err", err_kind(e)]


def gen_programs(rng, n, nfields):
    """programs over 2..5 variables: d = x ± y, x ±= y, d = FreeCapacity(total=t, allocated=a).free, d = x (aliasing)"""
    progs = []
    for i in range(n):
        nv = rng.randrange(2, 6)
        objs = []
        for _ in range(nv):
            objs.append([(rng.choice(EDGE) if rng.random() < 0.3 else rng.randrange(0, 40)) * (-1 if rng.random() < 0.15 else 1) for _ in range(nfields)])
        stmts = []
        for _ in range(rng.randrange(1, 14)):
            k = rng.random()
            v = lambda: rng.randrange(nv)
            if k < 0.3:
                stmts.append(["bin", rng.random() < 0.5, v(), v(), v()])
            elif k < 0.65:
                stmts.append(["aug", rng.random() < 0.5, v(), v()])
            elif k < 0.8:
                stmts.append(["free", v(), v(), v()])
            else:
                stmts.append(["alias", v(), v()])
        progs.append([objs, stmts])
    z = [0] * nfields
    o = [1] * nfields
    # aliasing corner cases first: the same object on both sides, an alias held elsewhere, a running total
    fixed = [
        [[o, z], [["alias", 1, 0], ["aug", True, 0, 0]]],
        [[o, o], [["alias", 1, 0], ["aug", False, 1, 0], ["aug", True, 1, 1]]],
        [[z, o, [2] * nfields], [["aug", True, 0, 1], ["aug", True, 0, 2], ["aug", False, 0, 1]]],
        [[[5] * nfields, [7] * nfields], [["free", 0, 0, 1], ["aug", True, 0, 1]]],
        [[o, z], [["bin", True, 0, 0, 0], ["bin", False, 1, 0, 0], ["alias", 0, 1], ["aug", False, 0, 0]]],
    ]
    return fixed + progs


def impl_prog(cl, objs, stmts, on_step=None):
    """run a program on real objects; object ids = order of first appearance (by identity)"""
    try:
        heap = [_mk(cl, v) for v in objs]
        env = list(heap)

        def reg(o):
            for k, h in enumerate(heap):
                if h is o:
                    return k
            heap.append(o)
            return len(heap) - 1
        for st in stmts:
            before = [list(_vals(h)) for h in heap] if on_step else None
            if st[0] == "bin":
                _, is_add, d, x, y = st
                r = env[x] + env[y] if is_add else env[x] - env[y]
                want = [(p + q) if is_add else (p - q) for p, q in zip(before[reg(env[x])], before[reg(env[y])])] if on_step else None
                reg(r)
                env[d] = r
            elif st[0] == "aug":
                _, is_add, x, y = st
                want = [(p + q) if is_add else (p - q) for p, q in zip(before[reg(env[x])], before[reg(env[y])])] if on_step else None
                t = env[x]
                if is_add:
                    t += env[y]
                else:
                    t -= env[y]
                reg(t)
                env[x] = t
                r = t
            elif st[0] == "free":
                _, d, t, a = st
                want = [p - q for p, q in zip(before[reg(env[t])], before[reg(env[a])])] if on_step else None
                r = cl.FreeCapacity(total=env[t], allocated=env[a]).free
                reg(r)
                env[d] = r
            else:
                _, d, x = st
                env[d] = env[x]
                r, want = None, None
            if on_step:
                on_step(st, before, [list(_vals(h)) for h in heap], None if r is None else list(_vals(r)), want,
                        None if r is None else reg(r) >= len(before))
        return ["ok", [[reg(o) for o in env], [_vals(h) for h in heap]]]
    except Exception as e:
        return ["err", err_kind(e)]


def check_program(cl, objs, stmts, res):
    """operands are never modified - on whole programs: every object that exists before a statement has the same value after it,
    whoever else holds a reference to it; and the statement's result is the field-wise sum / difference of the old values"""
    case = {"objs": objs, "stmts": stmts}

    def on_step(st, before, after, result, want, fresh):
        tag = st[0] + (":" + ("add" if st[1] else "sub") if st[0] in ("bin", "aug") else "")
        if fresh is False:
            res.violation("C15:result_fresh:prog:" + tag, "the statement's result IS an object that existed before it (an operand / what another "
                          "variable holds): updating the result in place later changes that object", case)
        if after[:len(before)] != before:
            k = [i for i in range(len(before)) if after[i] != before[i]][0]
            res.violation("C15:operands_unchanged:prog:" + tag, "a statement changed an object that existed before it (object %d)" % k, case,
                          expected=before[k], observed=after[k])
        elif want is not None and result != want:
            res.violation("C15:prog_result:" + tag, "the statement's result is not the field-wise %s of the operands' values" % tag, case,
                          expected=want, observed=result)
    r = impl_prog(cl, objs, stmts, on_step)
    if r[0] == "err":
        res.violation("C15:raises:prog:" + r[1], "a capacity statement raised", case)


UNKNOWN_FIELD = "pre_v1_field"      # a field of another release that today's class does not have


def _legacy(cl, vals, mask, unknown=None):
    """what unpickling returns for an object stored before some fields existed (or while a field existed that is gone today):
    __dict__ restored as saved, __init__ not run"""
    import pickle
    fields = list(cl.Capacities().__dict__.keys())
    o = cl.Capacities.__new__(cl.Capacities)
    o.__dict__.update({f: v for f, v, m in zip(fields, vals, mask) if m})
    if unknown is not None:
        o.__dict__[UNKNOWN_FIELD] = unknown
    return pickle.loads(pickle.dumps(o))


def gen_legacy(rng, n, nf):
    """pairs (a, mask_a, b, mask_b): either object may lack fields; b mostly carries a's values in the fields both have;
    the fields only one side carries are 0 there in about half of the cases"""
    full = [1] * nf
    z = [0] * nf
    base = [4, 16, 100] + [0] * (nf - 3) if nf >= 3 else [4] * nf
    last2 = [1] * (nf - 2) + [0, 0]
    hi = base[:-1] + [1500]
    fixed = [
        (base, last2, base, full),                    # the stored object of an older release against the same capacity, current
        (base, full, base, last2),
        (base, last2, [4, 32] + base[2:], full),      # a real difference in a field both carry
        (base, last2, base, last2),
        (z, last2, z, full),
        (z, [0] * nf, z, full),                       # an object with no field at all
        (z, [0] * nf, z, [0] * nf),
        (base, [1, 0] * (nf // 2) + [1] * (nf % 2), base, [0, 1] * (nf // 2) + [1] * (nf % 2)),   # each lacks what the other has
        (base, last2, hi, full),                      # the current object holds a non-zero value where the old one has no field
        (hi, full, base, last2),
    ]
    out = []
    for _ in range(n):
        k = rng.random()
        ma = [0 if rng.random() < 0.3 else 1 for _ in range(nf)] if k < 0.75 else list(full)
        mb = [0 if rng.random() < 0.3 else 1 for _ in range(nf)] if (0.25 < k) else list(full)
        if rng.random() < 0.3:
            j = rng.randrange(1, nf + 1)             # "older release": a suffix of the field list is missing
            ma = [1] * j + [0] * (nf - j)
        a = [(rng.choice(EDGE) if rng.random() < 0.4 else rng.randrange(0, 30)) * (-1 if rng.random() < 0.1 else 1) for _ in range(nf)]
        b = list(a)
        zero_extras = rng.random() < 0.55
        for i in range(nf):
            if ma[i] != mb[i]:
                if zero_extras:
                    a[i] = b[i] = 0
                elif rng.random() < 0.5:
                    b[i] = rng.randrange(0, 3)
        if rng.random() < 0.3:
            i = rng.randrange(nf)
            b[i] = b[i] + rng.choice([1, -1, 2 ** 63])
        out.append((a, ma, b, mb))
    return fixed + out


def impl_eqd(cl, a, ma, b, mb):
    try:
        A, B = _legacy(cl, a, ma), _legacy(cl, b, mb)
        return ["ok", [bool(A == B), bool(B == A), bool(A == A), bool(B == B)]]
    except Exception as e:
        return ["err", err_kind(e)]


def check_legacy(cl, a, ma, b, mb, res, unknown=(None, None)):
    """equality is reflexive and symmetric - also when an operand is an object restored from a pickle of an older release (its
    __dict__ lacks fields), the case Capacities.__eq__ caters for: a field an object does not carry counts as 0"""
    case = {"legacy": True, "a": a, "mask_a": ma, "b": b, "mask_b": mb}
    extras = [(x if p else y) for x, p, y, q in zip(a, ma, b, mb) if p != q]
    xa, xb = unknown
    if xa is not None or xb is not None:
        case["unknown"] = [xa, xb]
        if xa is None or xb is None:
            extras.append(xb if xa is None else xa)
    same = ma == mb and (xa is None) == (xb is None)
    cls = "same-fields" if same else ("extras-zero" if not any(extras) else "extra-field-nonzero")
    side = "both-partial" if (0 in ma and 0 in mb) else ("right-partial" if 0 in mb else ("left-partial" if 0 in ma else "complete"))
    try:
        A, B = _legacy(cl, a, ma, xa), _legacy(cl, b, mb, xb)
        if not (A == A) or not (B == B):
            res.violation("C15:eq_refl:legacy", "an object that lacks fields is not equal to itself", case)
        ab, ba = bool(A == B), bool(B == A)
        if ab != ba:
            res.violation("C15:eq_symm:legacy:" + cls, "== is not symmetric when an operand lacks fields (%s): a == b is %s, b == a is %s" % (side, ab, ba),
                          case, observed=[ab, ba])
        va = [x if p else 0 for x, p in zip(a, ma)] + [xa or 0]
        vb = [x if p else 0 for x, p in zip(b, mb)] + [xb or 0]
        for x, m, got, other, tag in ((a, ma, ab, vb, "a == b"), (b, mb, ba, va, "b == a")):
            if 0 not in m and xa is None and xb is None and got != (list(x) + [0] == other):
                res.violation("C15:eq_iff:legacy:missing-counts-as-zero", "%s with a complete left operand disagrees with field-wise equality where a field "
                              "the other object does not carry counts as 0" % tag, case, expected=(list(x) + [0] == other), observed=got)
        # the result of arithmetic on current objects compared with the stored one, from both sides
        if 0 not in ma and xa is None and 0 in mb:
            R = (A + A) - A
            if bool(R == B) != ab or bool(B == R) != ba:
                res.violation("C15:eq_congr:legacy", "(a+a)-a compares differently with the stored object than a does", case)
    except Exception as e:
        res.violation("C15:raises:legacy:" + err_kind(e), "== raised %s: %s" % (type(e).__name__, e), case)
    return cls, side


def correspondence(ctx, res, n=None):
    import fim.slivers.capacities_labels as cl
    fields = list(cl.Capacities().__dict__.keys())
    n = n or ctx.scale(1200, 30000)
    cases = gen_cases(ctx.sub_rng("corr"), n, len(fields))
    reqs = []
    for a, b, c in cases:
        for op in ("add", "sub", "free", "gt", "lt", "eq", "iadd", "isub"):
            reqs.append([op, a, b])
        reqs.append(["neg", a])
        reqs.append(["str", a])
        reqs.append(["pos", a, [f for f, x in zip(fields, c) if x]])
        d = impl_eval(cl, "sub", a, b)
        if d[0] == "ok":
            reqs.append(["neg", d[1]])
            reqs.append(["str", d[1]])
            reqs.append(["add", d[1], b])
    progs = gen_programs(ctx.sub_rng("prog"), ctx.scale(400, 6000), len(fields))
    reqs += [["prog", p[0], p[1]] for p in progs]
    via = {}
    prng = ctx.sub_rng("paths")
    for a, b, c in cases[:ctx.scale(400, 5000)]:
        pa, pb = prng.choice(paths_for(a)), prng.choice(paths_for(b))
        for op in ("add", "sub", "free", "gt", "lt", "eq"):
            via[len(reqs)] = (pa, pb)
            reqs.append([op, a, b])
    for a, ma, b, mb in gen_legacy(ctx.sub_rng("legacy"), ctx.scale(500, 8000), len(fields)):
        reqs.append(["eqd", a, ma, b, mb])
    impl = [impl_prog(cl, r[1], r[2]) if r[0] == "prog" else (impl_eqd(cl, *r[1:]) if r[0] == "eqd" else impl_eval(cl, *r, path=via.get(k)))
            for k, r in enumerate(reqs)]
    model = LeanDriver("C15").run([json.dumps(r) for r in reqs])
    for k, (r, i, m) in enumerate(zip(reqs, impl, model)):
        res.evaluations += 1
        res.count("op:" + r[0])
        if k in via:
            res.count("operand-built-via:" + via[k][0])
            res.count("operand-built-via:" + via[k][1])
        if i[0] == "err":
            res.count("err:" + i[1])
        if r[0] == "prog":
            for st in r[2]:
                res.count("stmt:" + st[0])
            if i[0] == "ok" and len(set(i[1][0])) < len(i[1][0]):
                res.count("prog:ends-with-aliased-variables")
            res.nontrivial.add(canon(r))
        elif r[0] == "eqd":
            res.count("eqd:" + ("same-fields" if r[2] == r[4] else "different-fields") + (":equal" if i[0] == "ok" and i[1][0] and i[1][1] else
                                                                                           (":one-way" if i[0] == "ok" and i[1][0] != i[1][1] else ":unequal")))
            if r[2] != r[4] and any(r[1]):
                res.nontrivial.add(canon(r))
        elif any(x != 0 for x in r[1]) and (len(r) < 3 or r[0] == "pos" or any(x != 0 for x in r[2])):
            res.nontrivial.add(canon(r))
        if json.loads(m) != i:
            res.disagreements.append({"case": r if k not in via else {"request": r, "operands_built_via": via[k]}, "impl": i, "model": json.loads(m)})
    res.sample({"request": reqs[7], "impl": impl[7], "model": json.loads(model[7])})
    res.sample({"request": reqs[-1], "impl": impl[-1], "model": json.loads(model[-1])})


def check_laws(cl, a, b, c, res, path=None):
    """The property itself, evaluated on the implementation.  `path` = how the three operands come into being (default: written
    field by field, as results are)."""
    case = {"a": a, "b": b, "c": c}
    sfx = ""
    if path:
        case["path"] = list(path)
        sfx = ":via-" + "/".join(sorted(set(path) - {"direct"}))

    def bad(sig, what, **kw):
        res.violation("C15:" + sig + sfx, what + (" (operands built via %s)" % "/".join(path) if path else ""), case, **kw)
    try:
        pa, pb, pc = path or ("direct", "direct", "direct")
        A, B, C = _mk(cl, a, pa), _mk(cl, b, pb), _mk(cl, c, pc)
        fields = list(cl.Capacities().__dict__.keys())
        for nm, o, v in (("a", A, a), ("b", B, b), ("c", C, c)):
            if type(o) is not cl.Capacities or list(o.__dict__.keys()) != fields or _vals(o) != list(v):
                bad("operand_value", "operand %s does not carry the eight values it was built from" % nm, expected=list(v),
                    observed=getattr(o, "__dict__", None))
                return
    except Exception as e:
        bad("raises:" + err_kind(e), "building an operand raised %s: %s" % (type(e).__name__, e))
        return
    snap = (copy.deepcopy(A.__dict__), copy.deepcopy(B.__dict__))
    try:
        s = (A + B) - B
        if s.__dict__ != A.__dict__ or _vals(s) != list(a):
            bad("add_sub_cancel", "(a+b)-b != a", expected=a, observed=_vals(s))
        if (A + B).__dict__ != (B + A).__dict__:
            bad("add_comm", "a+b != b+a")
        fc = cl.FreeCapacity(total=A, allocated=B)
        if (fc.free + B).__dict__ != A.__dict__:
            bad("free_plus_alloc", "free + allocated != total", observed=_vals(fc.free + B))
        if fc.free.__dict__ != (A - B).__dict__:
            bad("free_eq_sub", "free != total - allocated")
        for f in A.__dict__:
            if getattr(fc, f) != A.__dict__[f] - B.__dict__[f]:
                bad("free_attr", "FreeCapacity attribute %s is not total - allocated" % f)
        d = B - A
        negs = d.negative_fields()
        if negs != [f for f in A.__dict__ if B.__dict__[f] - A.__dict__[f] < 0]:
            bad("negative_fields_exact", "negative_fields does not name exactly the negative fields", observed=negs)
        if bool(A < B) != (len(negs) == 0):
            bad("lt_iff_sub_nonneg", "a fits in b (a<b) disagrees with negative fields of b-a", observed=[bool(A < B), negs])
        if bool(B > A) != (len(negs) == 0):
            bad("gt_iff_sub_nonneg", "b>a disagrees with negative fields of b-a", observed=[bool(B > A), negs])
        if not (A == A):
            bad("eq_refl", "a != a")
        if bool(A == B) != bool(B == A):
            bad("eq_symm", "== not symmetric")
        if bool(A == B) != (A.__dict__ == B.__dict__):
            bad("eq_iff", "== disagrees with fieldwise equality")
        try:
            str(d); repr(d); d.to_json(); str(fc)
        except Exception as e:
            bad("sub_total", "result with negative field is not printable: %s" % err_kind(e))
        if not isinstance(d, cl.Capacities):
            bad("sub_total", "a-b is not a Capacities value")
        if (A.__dict__, B.__dict__) != snap:
            bad("operands_unchanged", "an operand was modified", observed=[_vals(A), _vals(B)])
        # augmented assignment, running totals, reflected use through sum(): the objects bound before keep their values
        acc = A
        acc += B
        if A.__dict__ != snap[0] or B.__dict__ != snap[1]:
            bad("operands_unchanged:iadd", "`acc = a; acc += b` modified an operand", observed=[_vals(A), _vals(B)])
        elif acc.__dict__ != (A + B).__dict__:
            bad("iadd_result", "`acc += b` differs from a + b")
        acc = A
        acc -= B
        if A.__dict__ != snap[0] or B.__dict__ != snap[1]:
            bad("operands_unchanged:isub", "`acc = a; acc -= b` modified an operand", observed=[_vals(A), _vals(B)])
        elif acc.__dict__ != (A - B).__dict__:
            bad("isub_result", "`acc -= b` differs from a - b")
        tot = cl.Capacities()
        for x in (A, B, C):
            tot += x
        if tot.__dict__ != ((A + B) + C).__dict__ or (A.__dict__, B.__dict__) != snap:
            bad("running_total", "a running total kept with += differs from the sum or modified a summand")
        fc2 = cl.FreeCapacity(total=A, allocated=B)
        if (A.__dict__, B.__dict__) != snap:
            bad("operands_unchanged:free", "FreeCapacity modified total or allocated")
        if bool(A) is not True:
            bad("truthiness", "a capacities value is falsy (comparisons start with `if not other`)")
    except Exception as e:
        bad("raises:" + err_kind(e), "capacity operation raised %s: %s" % (type(e).__name__, e))


BUMP = 4


def check_fresh(cl, a, b, res):
    """operands are never modified - also not THROUGH THE RESULT: the result of every operation is a new object (`is not` either
    operand, whatever the operand values - an all-zero operand included), so updating the result's fields in place afterwards
    (running free / allocated bookkeeping: `r.core -= 4`) leaves the operands, and FreeCapacity's total, as they were"""
    z = [0] * len(a)
    pairs = [("", a, b), (":zero-right", a, z), (":zero-left", z, b), (":zero-both", z, z), (":same-value", a, a)]
    ops = [("add", lambda A, B: A + B), ("sub", lambda A, B: A - B),
           ("free", lambda A, B: cl.FreeCapacity(total=A, allocated=B).free),
           ("free-none", lambda A, B: cl.FreeCapacity(total=A, allocated=None).free),
           ("free-attr", lambda A, B: cl.FreeCapacity(total=A, allocated=B))]
    for tag, x, y in pairs:
        for op, f in ops:
            case = {"fresh": op + tag, "a": x, "b": y}
            try:
                A, B = _mk(cl, x), _mk(cl, y)
                if op == "free-attr":
                    fc = f(A, B)
                    r, tot = fc.free, fc.total
                else:
                    r, tot = f(A, B), None
                alias = "the left operand / total" if r is A else ("the right operand / allocated" if r is B else
                                                                   ("FreeCapacity.total" if (tot is not None and r is tot) else None))
                for k in list(r.__dict__):           # update the result in place, field by field
                    setattr(r, k, getattr(r, k) - BUMP)
                changed = [n for n, o, v in (("left operand / total", A, x), ("right operand / allocated", B, y)) if _vals(o) != list(v)]
                if tot is not None and _vals(tot) != list(x):
                    changed.append("FreeCapacity.total")
                if alias or changed:
                    res.violation("C15:operands_unchanged:via_result:" + op + tag,
                                  "the result of %s is not a new object (it is %s): updating the result in place changed %s" % (
                                      op, alias or "sharing state with an operand", ", ".join(changed) or "nothing yet"),
                                  case, expected=[list(x), list(y)], observed=[_vals(A), _vals(B)])
                elif _vals(r) != [(p + q if op == "add" else p - (0 if op == "free-none" else q)) - BUMP for p, q in zip(x, y)]:
                    res.violation("C15:result_value:" + op + tag, "the result (after the in-place update) is not the field-wise value", case,
                                  observed=_vals(r))
            except Exception as e:
                res.violation("C15:raises:" + err_kind(e), "capacity operation raised %s: %s" % (type(e).__name__, e), case)
    # the same through a name that is rebound: acc = a; acc += z; acc.f -= 4  must not reach a
    for tag, x, y in pairs:
        for op in ("iadd", "isub"):
            A, B = _mk(cl, x), _mk(cl, y)
            acc = A
            if op == "iadd":
                acc += B
            else:
                acc -= B
            for k in list(acc.__dict__):
                setattr(acc, k, getattr(acc, k) - BUMP)
            if acc is A or acc is B or _vals(A) != list(x) or _vals(B) != list(y):
                res.violation("C15:operands_unchanged:via_result:" + op + tag,
                              "`acc = a; acc %s= b` left acc bound to an operand object: updating acc in place changed the operand" % (
                                  "+" if op == "iadd" else "-"), {"fresh": op + tag, "a": x, "b": y},
                              expected=[list(x), list(y)], observed=[_vals(A), _vals(B)])


def oracle(ctx, res, n=None):
    import fim.slivers.capacities_labels as cl
    nf = len(cl.Capacities().__dict__)
    cases = gen_cases(ctx.sub_rng("oracle"), n or ctx.scale(3000, 100000), nf)
    for a, b, c in cases:
        res.evaluations += 1
        if any(a) and any(b):
            res.nontrivial.add(canon([a, b]))
        check_laws(cl, a, b, c, res)
    prng = ctx.sub_rng("oracle-paths")
    for k, (a, b, c) in enumerate(cases[:max(200, len(cases) // 2)]):
        # the same laws on operands that came into being through the library's own construction paths
        pa, pb, pc = paths_for(a), paths_for(b), paths_for(c)
        path = (pa[k % len(pa)], prng.choice(pb), prng.choice(pc))
        res.evaluations += 1
        res.count("oracle:operand-built-via:" + path[0])
        check_laws(cl, a, b, c, res, path=path)
    for a, b, c in cases[:max(50, len(cases) // 10)]:
        res.evaluations += 1
        res.count("oracle:fresh")
        check_fresh(cl, a, b, res)
    urng = ctx.sub_rng("oracle-legacy-unknown")
    for a, ma, b, mb in gen_legacy(ctx.sub_rng("oracle-legacy"), (n or ctx.scale(3000, 100000)) // 3, nf):
        res.evaluations += 1
        cls, side = check_legacy(cl, a, ma, b, mb, res)
        res.count("oracle:legacy:" + cls + ":" + side)
        u = urng.random()
        if u < 0.25:        # one / both of the objects carry a field today's class does not know
            v = urng.choice([0, 0, 0, 1, 7, 2 ** 40])
            unknown = (v, None) if u < 0.1 else ((None, v) if u < 0.2 else (v, urng.choice([v, v, 0, 3])))
            cls, side = check_legacy(cl, a, ma, b, mb, res, unknown=unknown)
            res.evaluations += 1
            res.count("oracle:legacy:unknown-field:" + cls)
        if ma != mb and any(a):
            res.nontrivial.add(canon([a, ma, b, mb]))
    progs = gen_programs(ctx.sub_rng("oracle-prog"), (n or ctx.scale(3000, 100000)) // 6, nf)
    for objs, stmts in progs:
        res.evaluations += 1
        res.count("oracle:program")
        check_program(cl, objs, stmts, res)
    res.sample({"a": cases[9][0], "b": cases[9][1], "laws": "all C15 laws evaluated on the implementation"})


def search(ctx, res, broken):
    oracle(ctx, res, n=ctx.scale(30000, 300000))


def replay(ctx, payload):
    import fim.slivers.capacities_labels as cl
    from core import Result
    r = Result()
    c = payload["case"]
    if "legacy" in c:
        check_legacy(cl, c["a"], c["mask_a"], c["b"], c["mask_b"], r, unknown=tuple(c.get("unknown") or (None, None)))
    elif "stmts" in c:
        check_program(cl, c["objs"], c["stmts"], r)
    elif "fresh" in c:
        check_fresh(cl, c["a"], c["b"], r)
    else:
        check_laws(cl, c["a"], c["b"], c["c"], r, path=tuple(c["path"]) if c.get("path") else None)
    for v in r.violations:
        print("  ", v["signature"], v["what"])
    return bool(r.violations)
