"""C05 - in-memory graph backends agree with each other and with the documented semantics."""
import copy
import itertools
import json
import os

import core
from core import LeanDriver, canon
import lib_store as L
from gen import storeconsts, storeflow

ID = "C05"
GENERATORS = [storeconsts.generate, storeflow.generate]
LEAN_MODULES = ["FimVerif.Proofs.C05"]
P = "FimVerif.C05."
THEOREMS = [P + t for t in ("flow_is_modelled", "identity_unset_refused", "identity_names_listed", "class_update_refused",
                              "class_update_refused_step", "none_value_refused", "bulk_update_stores_every_value",
                              "unset_asks_presence_not_value", "stored_value_is_present_until_unset",
                              "identity_props_protected", "identity_merge_class_counterexample",
                              "add_node_existing_id_refused", "nid_unique", "nid_unique_reachable",
                              "merge_keeps_edges", "merge_policy", "merge_failure_atomic",
                              "merge_frame", "shared_refines_spec", "shared_refines_history", "disjoint_refines_spec",
                              "disjoint_refines_history", "backends_agree",
                              "store_refines_reference", "unique_keys_reachable", "store_refines_reference_history", "view_absS",
                              "content_after_history", "nid_unique_rewrite_counterexample", "nid_unique_partial", "backends_agree_partial",
                              "backends_diverge_on_rehoming_counterexample", "disjoint_container_refines_reference",
                              "disjoint_find_matching_refines", "backends_agree_find_matching", "reference_is_local",
                              "backends_agree_rekey", "backends_agree_after_any_histories")]
TRUSTED_BASE = [
    "Model/Store.lean, Model/DStore.lean mirror the two backends method by method; Model/AGraph.lean (`AGraph.step`) is the "
    "reference model of the documented interface (hand-written; all three are run in lock step against the real classes)",
    "networkx Graph methods, nx.contracted_nodes (edges of the absorbed node are re-attached to the survivor; an edge that "
    "already exists keeps its own properties), networkx_query.search_nodes are modelled, not verified",
    "gen/storeconsts.py: NO_UNSET_PROPERTIES, NETWORKX_LABEL and property-name constants read from the source; "
    "gen/storeflow.py: allocator and GraphID-filter facts observed by probing the real classes (flow_is_modelled)",
    "Model/ARef.lean (`ARef.step`): the store-level reference model (nodes + links between (GraphID, NodeID) keys); tied to the "
    "code by its own correspondence stream (R: reply + whole store without internal ids after every call, merges included) and "
    "to the shared-store model by the refinement theorems",
    "list results are compared as sorted lists (dict/set order is not part of the interface)",
    "harness/props/c05.py `Ref`: an independent python reference of the documented interface used only by the oracle "
    "(three-way comparison); the Lean `AGraph.step` is tied to the code by its own correspondence stream (A)",
    "the stores' threading.Lock is replaced by a counting stand-in in single-threaded histories (locks are C20's)",
    "a graph HANDLE is stateless in all models (Store.step, DStore.step, AGraph.step, ARef.step and the python Ref take the "
    "graph id inside the operation): the implementation side of every stream is driven through handle OBJECTS kept for the whole "
    "history (one per graph id / two per graph id / a fresh one per call, cycling over the histories; corpus cases in all three "
    "modes), so state a handle keeps between calls - also after a refused call - shows as a difference to the models",
]
ASSUMPTIONS = [
    "property values are any JSON value without floats (str, None, '', 0, False, ints, bools, lists, dicts); non-string values are "
    "never compared with each other by the modelled code paths (python's 1 == True is not modelled)",
    "GraphID / NodeID are ordinary writable properties and are written by the generated histories (updates, initial properties, "
    "merge policies, direct imports): the store-level reference and both store models follow the rewrite; what the property "
    "forbids about the result (a node id no longer unique in its graph; the disjoint backend parting from the shared one after a "
    "GraphID write) is reported under the 12 known-finding signatures C05:nid_unique:<op>:{NodeID,GraphID}-rewritten and "
    "C05:backends:<op>:GraphID-rewritten, each triggered by a corpus case on every run",
    "merge_nodes on the disjoint backend raises RuntimeError as documented and lock-step comparison of that backend stops at the "
    "first successful merge; the refinement of merge_nodes to the reference model needs the (GraphID, NodeID) keys of the stored "
    "nodes to be pairwise distinct (UniqueKeys: an invariant of every history that does not rewrite keys)",
    "imports and clones are C04's for the backend comparison (the backends deliberately differ there: replace vs. warn-and-skip); "
    "the store-level reference and its correspondence stream include them; the oracle runs clone / import histories on the disjoint "
    "backend through kept handle objects only to see that merge_nodes is refused through every one of them",
    "after the backends have parted company over a known or documented difference (a GraphID rewrite the disjoint store cannot "
    "follow; a merge only the shared store performs) the oracle keeps executing the history on both: a read-only request about a "
    "graph that both backends still show with the same content (nodes carrying its id and links between them) must get the same "
    "answer from both - asked by the history itself and by a sweep of 12 read-only requests per graph id right after the parting, "
    "every third call after it and at the end of every history",
]
RULE = ("corpus first, then 162 value life cycles (9 ways a value gets onto a node / link x 9 value classes incl. None '' 0 False [] {} "
        "'None' x 2 names, each followed by read / unset / unset again / value-filtering queries / set / unset), then state-aware operation histories (depth <= 40) plus every continuation of depth 2 of a fixed two-graph prefix over a "
        "55-operation alphabet (thorough: also depth 3 over the 29 operations addressed to the first graph or to both); 3 graph ids, "
        "4 node ids, 3 classes, 2 relations, property names {Name, Type, Class, NodeID, GraphID, p, q}; a second stream of histories "
        "writes GraphID / NodeID in 10-12% of the updates / initial properties / merge policies, merges a graph with itself, calls "
        "delete_all_graphs, and (correspondence only) imports, imports directly and clones; 12% of the histories open with a chain of "
        "merges over three graphs sharing a node id (self-links included); non-trivial = >= 2 graphs touched and >= 1 failing call; "
        "distinct by op-kind sequence; all histories through kept handle objects (cycle one / one / two / fresh / one / two per graph id); after a "
        "parting the disjoint backend keeps running and read-only requests on graphs shown alike are compared (sweeps of 12 requests per "
        "graph id); 60 (thorough 600) clone / import / merge histories on the disjoint backend through kept handle objects")

CORPUS = os.path.join(core.CORPUS_DIR, "C05")
C05_KINDS = (["add_node"] * 5 + ["delete_node", "add_link", "add_link", "add_link", "update_node_property", "unset_node_property",
             "update_nodes_property", "update_node_properties", "update_link_property", "unset_link_property",
             "update_link_properties", "delete_graph", "merge_nodes", "merge_nodes"] + L.QUERIES)


def load_corpus():
    out = []
    if os.path.isdir(CORPUS):
        for fn in sorted(os.listdir(CORPUS)):
            if fn.endswith(".json"):
                with open(os.path.join(CORPUS, fn)) as f:
                    out.append(json.load(f)["history"])
    return out


HANDLE_CYCLE = ["one", "one", "two", "fresh", "one", "two"]


def handle_mode(i):
    """which handle OBJECTS serve history number i on the implementation side (lib_store.Backend `handles`): mostly one
    object per graph id kept for the whole history (failing calls included), often two per graph id, sometimes a new one per
    call.  The models and the reference know a handle as its graph id only."""
    return HANDLE_CYCLE[i % len(HANDLE_CYCLE)]


def merge_chain(rng, gids, nids):
    """three graphs sharing a node id, each with links of its own (one of them a link of the shared node to itself), then
    merges along a chain: the links a first merge leaves between two graphs must survive the second"""
    x = rng.choice(nids)
    others = [n for n in nids if n != x]
    h = []
    for i, g in enumerate(gids[:3]):
        y = others[i % len(others)]
        h += [["add_node", g, x, rng.choice(L.CLASSES), {"Name": "v%d" % i} if rng.random() < 0.6 else None],
              ["add_node", g, y, rng.choice(L.CLASSES), None],
              ["add_link", g, x, rng.choice(L.RELS), y, {"p": "l%d" % i} if rng.random() < 0.5 else None]]
        if rng.random() < 0.3:
            h.append(["add_link", g, x, rng.choice(L.RELS), x, {"q": "self"}])
    order = list(gids[:3])
    rng.shuffle(order)
    a, b, c = order
    pol = lambda: (None if rng.random() < 0.5 else {"Name": rng.choice(["discard", "overwrite", "combine"])})  # noqa
    h += [["merge_nodes", b, x, c, pol()], ["merge_nodes", a, x, b, pol()]]
    if rng.random() < 0.5:
        h.append(["get_link_properties", a, x, x])
    return h


class PropShadow(L.Shadow):
    """lib_store.Shadow plus a memory of which property names earlier requests (probably) stored on which node / link, with
    the value: an unset is aimed at a property that is there - half of the time at one whose stored value is falsy (None, '',
    0, False, [], {}) when there is one - instead of at a random name (which almost always answers "no such property").
    Nothing here is an oracle."""

    def __init__(self):
        super().__init__()
        self.nprops, self.lprops = [], []

    def note(self, req):
        super().note(req)
        op = req[0]
        if op == "add_node" and req[4]:
            self.nprops += [(req[1], req[2], k, v) for k, v in req[4].items()]
        elif op == "update_node_property":
            self.nprops.append((req[1], req[2], req[3], req[4]))
        elif op == "update_node_properties":
            self.nprops += [(req[1], req[2], k, v) for k, v in req[3].items()]
        elif op == "update_nodes_property":
            self.nprops += [(g, x, req[2], req[3]) for g, x in set(self.nodes) if g == req[1]]
        elif op == "add_link" and req[5]:
            self.lprops += [(req[1], req[2], req[4], req[3], k, v) for k, v in req[5].items()]
        elif op == "update_link_property":
            self.lprops.append((req[1], req[2], req[3], req[4], req[5], req[6]))
        elif op == "update_link_properties":
            self.lprops += [(req[1], req[2], req[3], req[4], k, v) for k, v in req[5].items()]

    def aim(self, rng, req, gids):
        req = super().aim(rng, req, gids)
        op = req[0]
        if op in ("unset_node_property", "unset_link_property") and rng.random() < 0.65:
            pool = self.nprops if op == "unset_node_property" else self.lprops
            pool = [t for t in pool if t[-2] not in IDENT]
            falsy = [t for t in pool if not t[-1]]
            if falsy and rng.random() < 0.5:
                pool = falsy
            if pool:
                t = rng.choice(pool)
                req[1:len(t)] = list(t[:-1])
        return req


STORE_KINDS = ["add_graph", "add_graph", "add_graph_direct", "clone", "clone", "merge_nodes", "merge_nodes"]


# every class of value the interface stores (ASSUMPTIONS: any JSON value without floats), falsy ones and look-alikes first
LIFE_VALS = [None, "", 0, False, [], {}, "None", [None, 0], "x"]


def value_lifecycles():
    """deterministic histories: every way a value gets onto a node / a link (initial properties, single, whole-graph and bulk
    update, merge_nodes copying the other node's value under 'overwrite' / pairing it under 'combine') x every value class of LIFE_VALS x every request
    that consumes the stored property afterwards (read, unset, unset again - which must now say "not there" -, the two
    value-filtering queries, set again, unset).  A stored None / '' / 0 / False / [] / {} is a value like any other: the
    property is THERE until it is unset."""
    hs = []
    for v in LIFE_VALS:
        for k in ("p", "Site"):
            opening = [["add_node", "g1", "n1", "NetworkNode", {"Name": "a", "Type": "x"}], ["add_node", "g1", "n2", "Link", None],
                       ["add_link", "g1", "n1", "has", "n2", None], ["add_node", "g2", "n2", "Link", {"q": "y"}]]
            after = [["get_node_properties", "g1", "n1"], ["unset_node_property", "g1", "n1", k], ["get_node_properties", "g1", "n1"],
                     ["unset_node_property", "g1", "n1", k], ["nodes_by_class_and_type", "g1", "NetworkNode", "x"],
                     ["check_node_unique", "g1", "NetworkNode", "a"], ["update_node_property", "g1", "n1", k, "y"],
                     ["unset_node_property", "g1", "n1", k], ["get_node_properties", "g1", "n1"]]
            node_ways = [[["update_node_properties", "g1", "n1", {k: v, "q": "z"}]],
                         [["update_node_property", "g1", "n1", k, v]],
                         [["update_nodes_property", "g1", k, v]],
                         [["delete_node", "g1", "n1"], ["add_node", "g1", "n1", "NetworkNode", {"Name": "a", k: v}]],
                         [["add_node", "g2", "n1", "Link", {k: v, "Name": "b"}], ["update_node_property", "g1", "n1", k, "mine"],
                          ["merge_nodes", "g1", "n1", "g2", {k: "overwrite"}]],
                         [["add_node", "g2", "n1", "Link", {k: v, "Name": "b"}], ["update_node_properties", "g1", "n1", {k: v}],
                          ["merge_nodes", "g1", "n1", "g2", {k: "combine", "Name": "discard"}]]]
            for way in node_ways:
                hs.append(copy.deepcopy(opening + way + after))
            lafter = [["get_link_properties", "g1", "n1", "n2"], ["unset_link_property", "g1", "n2", "n1", "has", k],
                      ["get_link_properties", "g1", "n2", "n1"], ["unset_link_property", "g1", "n1", "n2", "has", k],
                      ["update_link_property", "g1", "n1", "n2", "has", k, "y"], ["unset_link_property", "g1", "n1", "n2", "has", k],
                      ["get_link_properties", "g1", "n1", "n2"]]
            link_ways = [[["add_link", "g1", "n1", "has", "n2", {k: v}]],
                         [["update_link_property", "g1", "n1", "n2", "has", k, v]],
                         [["update_link_properties", "g1", "n2", "n1", "has", {k: v, "q": "z"}]]]
            for way in link_ways:
                hs.append(copy.deepcopy(opening + way + lafter))
    return hs


def gen_histories(ctx, tag, n, length, keys=0.0, store=False):
    """state-aware generator: node and link operations are biased towards nodes / links that earlier requests of the
    same history created (otherwise almost every link operation fails on "no such link")"""
    rng = ctx.sub_rng(tag)
    hs = load_corpus()
    gids, nids = ["g1", "g2", "g3"], ["n1", "n2", "n3", "n4"]
    for _ in range(n):
        h, sh = [], PropShadow()
        if store and rng.random() < 0.25:
            _, h = L.gen_scenario(rng, gids, nids)
            for r in h:
                sh.note(r)
        elif rng.random() < 0.12:
            h = merge_chain(rng, gids, nids)
            for r in h:
                sh.note(r)
        for _ in range(rng.randint(2, 7)):
            h.append(L.gen_op(rng, gids[:2] if rng.random() < 0.7 else gids, nids[:3], kinds=["add_node"]))
            sh.note(h[-1])
        want = rng.randint(8, length)
        kinds = C05_KINDS + (STORE_KINDS if store else [])
        while len(h) < want:
            h.append(sh.aim(rng, L.gen_op(rng, gids, nids, kinds=kinds, keys=keys, delall=0.01 if keys else 0.0), gids))
            sh.note(h[-1])
        hs.append(h)
    return hs


# ------------------------------------------------------------------------------------------
# executable reference of the documented interface (python twin of Model/AGraph.lean `AGraph.step`)

class RefErr(Exception):
    def __init__(self, kind):
        self.kind = kind


class Ref:
    """One list of node dictionaries (GraphID inside, as the interface shows it) and one list of links over those
    dictionaries (by object identity; no internal ids, no per-graph containers).  A node belongs to graph g while its
    GraphID property equals g - rewriting the property re-homes it, links included.  merge_nodes re-attaches the links of
    the absorbed node to the survivor, which may leave a link between nodes of two graphs; such a link belongs to neither
    graph's content until one end is re-homed (merge_adm does that)."""
    NO_UNSET = None
    LABEL = None

    def __init__(self):
        from fim.graph.abc_property_graph_constants import ABCPropertyGraphConstants as C
        Ref.NO_UNSET = list(C.NO_UNSET_PROPERTIES)
        Ref.LABEL = C.PROP_CLASS
        self.N = []
        self.E = []

    def gr(self, g):
        return [n for n in self.N if n.get("GraphID") == g and isinstance(n.get("GraphID"), str)]

    def find(self, g, nid):
        m = [n for n in self.gr(g) if n.get("NodeID") == nid and isinstance(n.get("NodeID"), str)]
        if len(m) != 1:
            raise RefErr("query")
        return m[0]

    def edge(self, a, b):
        for e in self.E:
            if (e[0] is a and e[1] is b) or (e[0] is b and e[1] is a):
                return e
        return None

    def link(self, g, a, b, kind):
        na, nb = self.find(g, a), self.find(g, b)
        e = self.edge(na, nb)
        if e is None or e[2].get(self.LABEL) != kind:
            raise RefErr("query")
        return e

    def nids(self, nodes):
        for n in nodes:
            if "NodeID" not in n:
                raise RefErr("key")
        return [n["NodeID"] for n in nodes]

    def drop_nodes(self, nodes):
        self.N = [n for n in self.N if not any(n is x for x in nodes)]
        self.E = [e for e in self.E if not any(e[0] is n or e[1] is n for n in nodes)]

    def apply(self, req):
        try:
            return ["ok", self.do(req)]
        except RefErr as e:
            return ["err", e.kind]

    def do(self, req):
        op, g, a = req[0], req[1], req[2:]
        LABEL = self.LABEL
        if op == "delete_all_graphs":
            self.N, self.E = [], []
            return None
        G = self.gr(g)
        if op == "add_node":
            if any(n.get("NodeID") == a[0] for n in G):
                raise RefErr("query")
            d = {"GraphID": g, LABEL: a[1], "NodeID": a[0]}
            d.update(a[2] or {})
            self.N.append(d)
        elif op == "delete_node":
            self.drop_nodes([self.find(g, a[0])])
        elif op == "add_link":
            na, nb = self.find(g, a[0]), self.find(g, a[2])
            if a[3] and LABEL in a[3]:
                raise RefErr("type")
            d = {LABEL: a[1]}
            d.update(a[3] or {})
            e = self.edge(na, nb)
            if e:
                e[2].update(d)
            else:
                self.E.append([na, nb, d])
        elif op == "update_node_property":
            if a[2] is None:
                raise RefErr("assertion")       # a single-value update is never handed None
            if a[1] == LABEL:
                raise RefErr("query")
            self.find(g, a[0])[a[1]] = a[2]
        elif op == "unset_node_property":
            if a[1] == LABEL or a[1] in self.NO_UNSET:
                raise RefErr("query")
            n = self.find(g, a[0])
            if a[1] not in n:
                raise RefErr("query")
            del n[a[1]]
        elif op == "update_nodes_property":
            if a[1] is None:
                raise RefErr("assertion")
            if not G or a[0] == LABEL:
                raise RefErr("query")
            for n in G:
                n[a[0]] = a[1]
        elif op == "update_node_properties":
            if LABEL in a[1]:
                raise RefErr("query")
            self.find(g, a[0]).update(a[1])
        elif op == "update_link_property":
            if a[4] is None:
                raise RefErr("assertion")
            if a[3] == LABEL:
                raise RefErr("query")
            self.link(g, a[0], a[1], a[2])[2][a[3]] = a[4]
        elif op == "unset_link_property":
            if a[3] == LABEL:
                raise RefErr("query")
            self.link(g, a[0], a[1], a[2])[2].pop(a[3], None)
        elif op == "update_link_properties":
            if LABEL in a[3]:
                raise RefErr("query")
            self.link(g, a[0], a[1], a[2])[2].update(a[3])
        elif op == "delete_graph":
            self.drop_nodes(G)
        elif op == "get_node_properties":
            n = dict(self.find(g, a[0]))
            if LABEL not in n:
                raise RefErr("key")
            lab = n.pop(LABEL)
            return [lab, [[k, v] for k, v in n.items()]]
        elif op == "get_link_properties":
            na, nb = self.find(g, a[0]), self.find(g, a[1])
            e = self.edge(na, nb)
            if e is None or LABEL not in e[2]:
                raise RefErr("query")
            d = dict(e[2])
            lab = d.pop(LABEL)
            return [lab, [[k, v] for k, v in d.items()]]
        elif op == "list_all_node_ids":
            if not G:
                raise RefErr("query")
            return self.nids(G)
        elif op == "nodes_by_class":
            return self.nids([n for n in G if n.get(LABEL) == a[0]])
        elif op == "nodes_by_class_and_type":
            return self.nids([n for n in G if n.get(LABEL) == a[0] and n.get("Type") == a[1]])
        elif op == "node_exists":
            m = [n for n in G if n.get("NodeID") == a[0] and n.get(LABEL) == a[1]]
            if len(m) > 1:
                raise RefErr("query")
            return len(m) == 1
        elif op == "graph_exists":
            return len(G) > 0
        elif op == "check_node_unique":
            return not [n for n in G if n.get("Name") == a[1] and n.get(LABEL) == a[0]]
        elif op == "find_matching_nodes":
            if not G:
                raise RefErr("query")
            mine = self.nids(G)
            if any(isinstance(x, (list, dict)) for x in mine):
                raise RefErr("type")            # node ids are collected into sets: a list-valued id cannot be one
            for n in self.gr(a[0]):
                if "NodeID" not in n:
                    raise RefErr("key")
                if isinstance(n["NodeID"], (list, dict)):
                    raise RefErr("type")
            theirs = [n["NodeID"] for n in self.gr(a[0])]
            return [x for i, x in enumerate(mine) if x in theirs and x not in mine[:i]]
        elif op == "merge_nodes":
            O = self.gr(a[1])
            if not O:
                raise RefErr("assertion")
            u = self.find(g, a[0])
            v = self.find(a[1], a[0])
            if u is v:
                raise RefErr("query")           # "two nodes ... belonging to two graphs": a node is not merged with itself
            mine, theirs = dict(u), dict(v)
            pol = a[2]
            if pol is None:
                new = mine
            else:
                new = {}
                for k, val in mine.items():
                    if k in pol and pol[k] in ("overwrite", "combine") and k not in theirs:
                        raise RefErr("key")
                    new[k] = (val if k not in pol or pol[k] == "discard" else theirs[k] if pol[k] == "overwrite"
                              else [val, theirs[k]] if pol[k] == "combine" else None)
            # the absorbed node leaves the other graph; each of its links is re-attached to the survivor unless the
            # survivor already has a link to that neighbour, which then stays as it is
            moved = [e for e in self.E if e[0] is v or e[1] is v]
            self.drop_nodes([v])
            for e in moved:
                w, x = (u if e[0] is v else e[0]), (u if e[1] is v else e[1])
                if self.edge(w, x) is None:
                    self.E.append([w, x, e[2]])
            u.clear()
            u.update(new)
        else:
            raise ValueError(op)
        return None

    def content(self, g):
        G = self.gr(g)
        nodes = sorted(canon(sorted([k, v] for k, v in n.items() if k != "GraphID")) for n in G)
        edges = sorted(canon([sorted([canon(e[0].get("NodeID")), canon(e[1].get("NodeID"))]), sorted([k, v] for k, v in e[2].items())])
                       for e in self.E if any(e[0] is n for n in G) and any(e[1] is n for n in G))
        return {"nodes": nodes, "edges": edges}


# ------------------------------------------------------------------------------------------
# correspondence: real backends vs the Lean models (Store, DStore) and the Lean reference (AGraph)

def correspondence(ctx, res):
    n = ctx.scale(150, 1500)
    hs = gen_histories(ctx, "corr", n, 40)
    # second stream: GraphID / NodeID rewrites (updates, initial properties, merge policies), delete_all_graphs, and the
    # storage operations (imports, direct imports, clones) next to the property-graph ones
    hs2 = gen_histories(ctx, "corr-keys", n // 2, 40, keys=0.12, store=True)[len(load_corpus()):]
    hs0 = value_lifecycles()
    run_correspondence(hs0 + hs + hs2, res)
    res.count("histories:value-lifecycles", len(hs0))
    res.count("histories:plain", len(hs))
    res.count("histories:key-rewrites+storage", len(hs2))
    res.sample({"history": hs2[-1][:6], "note": "S: shared store vs Store.step; D: disjoint store vs DStore.step; "
                "A: shared store's per-graph content vs AGraph.step on the abstraction; R: shared store without its internal "
                "ids (nodes + links between (GraphID, NodeID) keys) vs the store-level reference ARef.step, merges included"})


def run_correspondence(hs, res):
    gids = ["g1", "g2", "g3"]
    for flavour, tagc in (("shared", "S"), ("disjoint", "D")):
        lines, meta = [], []
        impl = []
        for hi, h in enumerate(hs):
            be = L.Backend(flavour, handles=handle_mode(hi), hseed=hi)
            res.count("%s:handles:%s" % (tagc, handle_mode(hi)))
            lines.append(json.dumps([tagc, "reset"]))
            meta.append(None)
            tr = []
            for k, req in enumerate(h):
                rep = L.canon_reply(req[0], be.apply(req))
                tr.append((rep, L.canon_raw(be.raw())))
                lines.append(json.dumps([tagc, req]))
                meta.append((hi, k, "op"))
                lines.append(json.dumps([tagc, "snap"]))
                meta.append((hi, k, "snap"))
                if flavour == "disjoint" and req[0] == "merge_nodes":
                    pass
            impl.append(tr)
        replies = LeanDriver("C05").run(lines)
        bad = set()
        for m, line in zip(meta, replies):
            if m is None or m[0] in bad:
                continue
            hi, k, what = m
            h = hs[hi]
            rep = json.loads(line)
            if what == "op":
                res.evaluations += 1
                res.count("%s:op:%s" % (tagc, h[k][0]))
                exp = impl[hi][k][0]
                if exp[0] == "err":
                    res.count("%s:err:%s" % (tagc, exp[1]))
                got = L.canon_reply(h[k][0], rep)
            else:
                exp = impl[hi][k][1]
                got = L.canon_raw(rep[1]) if rep[0] == "ok" else rep
            if canon(got) != canon(exp):
                bad.add(hi)
                res.disagreements.append({"case": {"flavour": flavour, "history": h[:k + 1], "handles": handle_mode(hi), "hseed": hi},
                                          "at": [k, what], "impl": exp, "model": got})
        for hi, h in enumerate(hs):
            if any(r[0] == "err" for r, _ in impl[hi]) and len(set(q[1] for q in h)) >= 2:
                res.nontrivial.add(L.kind_seq(h))
    run_reference_correspondence(hs, res)
    run_store_reference_correspondence(hs, res)


def lean_content(c):
    """StoreCodec content JSON -> the canonical shape of Backend.content"""
    def val(x):
        return None if x == "<missing>" else x
    nodes = sorted(canon(sorted([k, v] for k, v in n if k != "GraphID")) for n in c["nodes"])
    edges = sorted(canon([sorted([canon(val(a)), canon(val(b))]), sorted([k, v] for k, v in p)]) for a, b, p in c["edges"])
    return {"nodes": nodes, "edges": edges}


def run_reference_correspondence(hs, res):
    """A: the Lean reference model `AGraph.step` against the shared store, reply and per-graph content after
    every call (a history is followed up to its first merge_nodes, which the reference interface does not have)"""
    gids = ["g1", "g2", "g3"]
    lines, meta, impl = [], [], []
    for hi, h in enumerate(hs):
        be = L.Backend("shared", handles=handle_mode(hi + 1), hseed=hi)
        lines.append(json.dumps(["A", "reset"]))
        meta.append(None)
        tr = []
        for k, req in enumerate(h):
            if req[0] in ("merge_nodes", "delete_all_graphs", "add_graph", "add_graph_direct", "clone") or L.writes_keys(req):
                break       # AGraph.step is the per-graph reference: no second graph, no re-homing (the R stream has them)
            rep = L.canon_reply(req[0], be.apply(req))
            tr.append((rep, {g: be.content(g) for g in gids}))
            lines.append(json.dumps(["A", req]))
            meta.append((hi, k, "op", None))
            for g in gids:
                lines.append(json.dumps(["A", "content", g]))
                meta.append((hi, k, "content", g))
        impl.append(tr)
    replies = LeanDriver("C05").run(lines)
    bad = set()
    for m, line in zip(meta, replies):
        if m is None or m[0] in bad:
            continue
        hi, k, what, g = m
        h = hs[hi]
        rep = json.loads(line)
        if what == "op":
            res.evaluations += 1
            res.count("A:op:%s" % h[k][0])
            exp = impl[hi][k][0]
            got = L.canon_reply(h[k][0], rep)
        else:
            exp = impl[hi][k][1][g]
            got = lean_content(rep[1]) if rep[0] == "ok" else rep
        if canon(got) != canon(exp):
            bad.add(hi)
            res.disagreements.append({"case": {"flavour": "reference", "history": h[:k + 1], "handles": handle_mode(hi + 1), "hseed": hi},
                                      "at": [k, what, g],
                                      "impl": exp, "model": got})


def keys_unique(be):
    """the (GraphID, NodeID) keys of the stored nodes are pairwise distinct (Lean: UniqueKeys)"""
    ks = [canon([d.get("GraphID", "<missing>"), d.get("NodeID", "<missing>")]) for _, G in be._graphs() for _, d in G.nodes(data=True)]
    return len(set(ks)) == len(ks)


def run_store_reference_correspondence(hs, res):
    """R: the store-level reference `ARef.step` (Model/ARef.lean) against the shared store: reply and the whole store without
    its internal ids (every node dictionary, every link between the (GraphID, NodeID) keys of its ends - links between nodes of
    two graphs included) after every call; merges, key rewrites, imports, clones, delete_all_graphs are all followed.  The
    refinement theorem needs pairwise distinct keys for merge_nodes only: a history is left at a merge in a store that has two
    nodes with one key (counted)."""
    lines, meta, impl = [], [], []
    for hi, h in enumerate(hs):
        be = L.Backend("shared", handles=handle_mode(hi + 2), hseed=hi)
        lines.append(json.dumps(["R", "reset"]))
        meta.append(None)
        tr = []
        for k, req in enumerate(h):
            if req[0] == "merge_nodes" and not keys_unique(be):
                res.count("R:left-at-merge-with-duplicate-keys")
                break
            rep = L.canon_reply(req[0], be.apply(req))
            tr.append((rep, L.canon_keyed(be.keyed())))
            lines.append(json.dumps(["R", req]))
            meta.append((hi, k, "op"))
            lines.append(json.dumps(["R", "snap"]))
            meta.append((hi, k, "snap"))
        impl.append(tr)
    replies = LeanDriver("C05").run(lines)
    bad = set()
    for m, line in zip(meta, replies):
        if m is None or m[0] in bad:
            continue
        hi, k, what = m
        h = hs[hi]
        rep = json.loads(line)
        if what == "op":
            res.evaluations += 1
            res.count("R:op:%s" % h[k][0])
            if L.writes_keys(h[k]):
                res.count("R:key-rewrite:%s" % h[k][0])
            exp = impl[hi][k][0]
            got = L.canon_reply(h[k][0], rep)
        else:
            exp = impl[hi][k][1]
            got = L.canon_keyed(rep[1]) if rep[0] == "ok" else rep
        if canon(got) != canon(exp):
            bad.add(hi)
            res.disagreements.append({"case": {"flavour": "store-reference", "history": h[:k + 1], "handles": handle_mode(hi + 2),
                                               "hseed": hi}, "at": [k, what],
                                      "impl": exp, "model": got})


# ------------------------------------------------------------------------------------------
# oracle: the property on the implementation

IDENT = ["GraphID", "NodeID", "Class", "Type", "Name"]


def node_table(be):
    """internal identity -> attribute dict (copy)"""
    return {(key, n): dict(d) for key, G in be._graphs() for n, d in G.nodes(data=True)}


def edge_table(be):
    """internal identity of a link (store key, unordered endpoint ids) -> attribute dict (copy)"""
    return {(key, min(a, b), max(a, b)): dict(d) for key, G in be._graphs() for a, b, d in G.edges(data=True)}


def neighbours(be, g, nid, idents=None):
    """[(NodeID of neighbour, sorted edge props)] of the node nid of graph g - or, with `idents`, of the nodes with these
    internal identities (a merge policy may re-key the survivor) - read off the raw store; a link of the node to itself is
    listed under `nid`"""
    out = []
    for key, G in be._graphs():
        if be.flavour == "disjoint" and key != g:
            continue
        for n, d in G.nodes(data=True):
            if ((key, n) in idents) if idents is not None else (d.get("GraphID") == g and d.get("NodeID") == nid):
                for m in G.neighbors(n):
                    out.append((G.nodes[m].get("NodeID") if m != n else nid, dict(G.edges[n, m])))
    return out


SWEEP_NIDS = ["n1", "n2", "n3"]


def sweep_queries(g):
    """read-only requests asked of both backends about graph g once they have parted (and at the end of every history)"""
    return ([["graph_exists", g], ["list_all_node_ids", g], ["nodes_by_class", g, "Link"], ["nodes_by_class", g, "NetworkNode"],
             ["nodes_by_class_and_type", g, "Link", "x"], ["node_exists", g, "n1", "NetworkNode"], ["node_exists", g, "n2", "Link"],
             ["check_node_unique", g, "NetworkNode", "x"], ["get_link_properties", g, "n1", "n2"]]
            + [["get_node_properties", g, x] for x in SWEEP_NIDS])


def rsig(r):
    return (str(r[1]) if isinstance(r[1], bool) else "ok") if r[0] == "ok" else r[1]


def load_handle_corpus():
    d = os.path.join(CORPUS, "handles")
    out = []
    if os.path.isdir(d):
        for fn in sorted(os.listdir(d)):
            if fn.endswith(".json"):
                with open(os.path.join(d, fn)) as f:
                    out.append(json.load(f))
    return out


def check_handle_objects(c, res):
    """histories with storage operations (import, clone) on ONE backend, driven through kept handle objects - the object
    clone_graph returns included: on the disjoint backend every merge_nodes is refused with RuntimeError and changes nothing,
    whichever handle object of the graph is used"""
    be = L.Backend(c["flavour"], handles=c.get("handles", "one"), hseed=c.get("hseed", 0))
    h = c["history"]
    gs = sorted(set(r[1] for r in h) | set(r[2] for r in h if r[0] == "clone") | set(r[3] for r in h if r[0] == "merge_nodes"))
    for k, req in enumerate(h):
        before = {g: be.content(g) for g in gs}
        rep = be.apply(req)
        res.count("handle-objects:%s:%s" % (req[0], rsig(rep)))
        if req[0] == "merge_nodes" and c["flavour"] == "disjoint":
            after = {g: be.content(g) for g in gs}
            if rep != ["err", "runtime"] or after != before:
                res.violation("C05:disjoint:merge_nodes:not-refused:%s" % ("store-changed" if after != before else rsig(rep)),
                              "the disjoint backend documents merge_nodes as unsupported (RuntimeError); through a kept handle "
                              "object it answered %s%s" % (rep[:2], " and changed the store" if after != before else ""),
                              {"kind": "handle-objects", "flavour": c["flavour"], "handles": c.get("handles", "one"),
                               "hseed": c.get("hseed", 0), "history": h[:k + 1]},
                              expected=["err", "runtime"], observed=rep)
                return


def check_history(h, res, with_ref=True, handles="one", hseed=0):
    sh, dj = L.Backend("shared", handles=handles, hseed=hseed), L.Backend("disjoint", handles=handles, hseed=hseed)
    ref = Ref() if with_ref else None
    universe = set(r[1] for r in h) | set(r[2] for r in h if r[0] == "find_matching_nodes") | {"g1", "g2", "g3"}
    for r in h:
        universe |= (L.affected(r) or set())
    universe = sorted(universe - {"*"})
    dj_live = True          # lock step: replies and every graph's content are compared after every call
    parted = None           # why lock step ended (the known GraphID-rewrite finding / a merge only the shared backend performs):
    since = 0               # the disjoint backend keeps executing the history and read-only requests are still compared

    def bad(sig, what, k, **kw):
        res.violation("C05:" + sig, what, {"history": h[:k + 1], "handles": handles, "hseed": hseed}, **kw)

    def same_graph(g, walks=False):
        """both backends show graph g with the same content (the nodes carrying its id and the links between them); for a
        request that walks the container instead of filtering on GraphID (find_matching_nodes) the disjoint store must also
        hold nothing else under that key"""
        return sh.content(g) == dj.content(g) and (not walks or dj.homed(g))

    def sweep(k, why):
        """every read-only request about a graph both backends show alike gets the same answer from both, whatever happened
        to other graphs (or to this one) before"""
        for g in universe:
            if not same_graph(g):
                res.count("sweep:%s:graph-differs" % why)
                continue
            for q in sweep_queries(g):
                a, b = L.canon_reply(q[0], sh.ask(sh.pg(g), q)), L.canon_reply(q[0], dj.ask(dj.pg(g), q))
                res.count("sweep:%s:%s" % (why, q[0]))
                if a != b:
                    bad("backends:%s:%s-vs-%s:%s" % (q[0], rsig(a), rsig(b), why),
                        "both backends show graph %s with the same content, yet %s answers %s on the shared and %s on the disjoint "
                        "backend (%s)" % (g, q, a[:2], b[:2], why), k, expected=a, observed=b)
                    return False
        return True

    for k, req in enumerate(h):
        op = req[0]
        tbl = node_table(sh)
        tbl_dj = node_table(dj) if dj_live else None
        etbl = edge_table(sh)
        etbl_dj = edge_table(dj) if dj_live else None
        uniq_before = {g: nid_unique(sh, g) for g in universe}
        if op == "merge_nodes":
            nb_mine = neighbours(sh, req[1], req[2])
            nb_theirs = neighbours(sh, req[3], req[2])
            id_mine = [i for i, d in tbl.items() if d.get("GraphID") == req[1] and d.get("NodeID") == req[2]]
            props_mine = [d for (key, n), d in tbl.items() if d.get("GraphID") == req[1] and d.get("NodeID") == req[2]]
            props_theirs = [d for (key, n), d in tbl.items() if d.get("GraphID") == req[3] and d.get("NodeID") == req[2]]
        r_sh = L.canon_reply(op, sh.apply(req))
        res.count("%s:%s" % (op, r_sh[0] if r_sh[0] == "ok" else r_sh[1]))
        # (a) the two backends
        if dj_live:
            r_dj = L.canon_reply(op, dj.apply(req))
            if op == "merge_nodes":
                if r_dj != ["err", "runtime"]:
                    bad("disjoint:merge_nodes:not-refused", "the disjoint backend documents merge_nodes as unsupported (RuntimeError)", k,
                        observed=r_dj)
                if r_sh[0] == "ok" or any(sh.content(g) != dj.content(g) for g in universe):
                    dj_live, parted = False, "after-merge"
            elif r_sh != r_dj:
                bad("backends:%s:%s-vs-%s" % (op, r_sh[0] if r_sh[0] == "ok" else r_sh[1], r_dj[0] if r_dj[0] == "ok" else r_dj[1]),
                    "%s: shared store answers %s, disjoint store %s" % (op, r_sh[:1] + [r_sh[1]] if r_sh[0] == "err" else "ok", r_dj[:2] if r_dj[0] == "err" else "ok"),
                    k, expected=r_sh, observed=r_dj)
            if dj_live and writes_gid(req) and not all(dj.homed(g) for g in universe):
                # re-homing a node by writing GraphID: the shared store moves it to the named graph, the one-graph-per-id
                # store leaves it under its old key, where lookups (which filter on GraphID) no longer find it while
                # delete_graph / clone_graph / find_matching_nodes (which walk the container) still do
                bad("backends:%s:GraphID-rewritten" % op, "after %s wrote GraphID the disjoint store keeps the node under its old key "
                    "(invisible to lookups, still counted by whole-container methods); the shared store re-homed it" % op, k,
                    expected={g: sh.content(g) for g in universe if sh.content(g) != dj.content(g)},
                    observed={g: dj.content(g) for g in universe if sh.content(g) != dj.content(g)})
                dj_live, parted = False, "after-GraphID-rewrite"
            if dj_live:
                for g in universe:
                    if sh.content(g) != dj.content(g):
                        if writes_gid(req):
                            # re-homing a node by writing GraphID: the shared store moves it to the named graph, the
                            # one-graph-per-id store leaves it under its old key where no lookup finds it any more
                            bad("backends:%s:GraphID-rewritten" % op, "after %s wrote GraphID the two backends hold different graphs "
                                "(the disjoint store keeps the node under its old key, invisible)" % op, k,
                                expected=sh.content(g), observed=dj.content(g))
                        else:
                            bad("backends:%s:content" % op, "after %s the two backends hold different graphs" % op, k,
                                expected=sh.content(g), observed=dj.content(g))
                        dj_live, parted = False, "after-GraphID-rewrite" if writes_gid(req) else None
                        break
            if not dj_live and parted:
                since = k
                if not sweep(k, parted):
                    parted = None
        elif parted:
            # parted company (a known or documented difference): the history goes on on both backends; a read-only request
            # about graphs both still show alike must still be answered alike
            r_dj = L.canon_reply(op, dj.apply(req))
            if op in L.QUERIES:
                gs = [req[1]] + ([req[2]] if op == "find_matching_nodes" else [])
                if all(same_graph(g, walks=op == "find_matching_nodes") for g in gs):
                    res.count("parted:%s:compared" % op)
                    if r_sh != r_dj:
                        bad("backends:%s:%s-vs-%s:%s" % (op, rsig(r_sh), rsig(r_dj), parted),
                            "%s about graph(s) both backends show alike: shared store answers %s, disjoint store %s (%s)"
                            % (op, r_sh[:2], r_dj[:2], parted), k, expected=r_sh, observed=r_dj)
                        parted = None
            if parted and ((k - since) % 3 == 0 or k == len(h) - 1):
                if not sweep(k, parted):
                    parted = None
        if dj_live and k == len(h) - 1:
            sweep(k, "in-step")
        # (b) the reference model of the documented interface
        if ref is not None:
            r_ref = L.canon_reply(op, ref.apply(req))
            if r_ref != r_sh:
                bad("reference:%s:%s-vs-%s" % (op, r_ref[0] if r_ref[0] == "ok" else r_ref[1], r_sh[0] if r_sh[0] == "ok" else r_sh[1]),
                    "%s: documented semantics give %s, the shared store %s" % (op, r_ref[:2] if r_ref[0] == "err" else "ok", r_sh[:2] if r_sh[0] == "err" else "ok"),
                    k, expected=r_ref, observed=r_sh)
                ref = None
            else:
                for g in universe:
                    if ref.content(g) != sh.content(g):
                        bad("reference:%s:content" % op, "after %s the shared store's graph differs from the reference model" % op, k,
                            expected=ref.content(g), observed=sh.content(g))
                        ref = None
                        break
        # (c) identity properties never removed, class never changed: every node of every graph, tracked by internal
        #     identity, on both backends, after every call whatever it returned; links keep their Class property
        for be_, t0, e0, tag in ((sh, tbl, etbl, "shared"), (dj, tbl_dj, etbl_dj, "disjoint")):
            if t0 is None:
                continue
            t1 = node_table(be_)
            for ident, d0 in t0.items():
                d1 = t1.get(ident)
                if d1 is None:
                    continue
                if op == "merge_nodes" and d0.get("NodeID") == req[2] and d0.get("GraphID") == req[1]:
                    pol = req[4] or {}
                    if any(p in pol and pol[p] != "discard" for p in ("GraphID", "NodeID")):
                        continue      # the caller re-homes / re-keys the node through the policy (outside the alphabet)
                for p in IDENT:
                    if p in d0 and p not in d1:
                        bad("identity:%s:%s-removed" % (op, p), "%s removed identity property %s from a node (%s store)" % (op, p, tag), k,
                            expected=d0, observed=d1)
                if d0.get("Class") != d1.get("Class"):
                    bad("identity:%s:class-changed" % op, "%s changed the class of a node" % op, k,
                        expected=d0.get("Class"), observed=d1.get("Class"))
            e1 = edge_table(be_)
            for ident, d0 in e0.items():
                d1 = e1.get(ident)
                if d1 is not None and "Class" in d0 and "Class" not in d1:
                    bad("identity:%s:link-Class-removed" % op, "%s removed the Class of a link (%s store)" % (op, tag), k)
        if r_sh[0] == "ok" and op in ("unset_node_property",) and req[3] in IDENT:
            bad("identity:unset:%s-accepted" % req[3], "unset of identity property %s was accepted" % req[3], k)
        if r_sh[0] == "ok" and op in ("update_node_property", "update_link_property") and req[-2] == "Class":
            bad("identity:%s:class-accepted" % op, "update of Class was accepted", k)
        # (d) a node id is unique within its graph whatever the class
        for g in universe:
            if uniq_before[g] and not nid_unique(sh, g):
                how = ("GraphID-rewritten" if writes_gid(req) or (op == "merge_nodes" and "GraphID" in (req[4] or {})) else
                       "NodeID-rewritten" if L.writes_keys(req) else "same-id-other-class" if op == "add_node" else "lost")
                bad("nid_unique:%s:%s" % (op, how), "after %s graph %s holds two nodes with one NodeID" % (op, g), k)
        # (e) merge keeps every edge of both nodes and applies the policy
        if op == "merge_nodes" and r_sh[0] == "ok" and len(props_mine) == 1 and len(props_theirs) == 1:
            after = neighbours(sh, req[1], req[2], idents=set(id_mine))
            have = sorted(canon(x[0]) for x in after)
            for nbr, d in nb_mine + nb_theirs:
                if canon(nbr) not in have:
                    bad("merge:edge-lost", "merge_nodes lost an edge of one of the two nodes", k, expected=nbr, observed=have)
            allowed = set()
            for _, d in nb_mine + nb_theirs:
                allowed |= set(d)
            for nbr, d in after:
                extra = set(d) - allowed
                if extra:
                    bad("merge:edge-foreign-key:%s" % sorted(extra)[0], "after merge_nodes an edge carries a property neither edge had", k,
                        observed=sorted(extra))
            mine, theirs = props_mine[0], props_theirs[0]
            now = [d for i, d in node_table(sh).items() if i in id_mine]
            pol = req[4] or {}
            if len(now) == 1:
                for p, v in mine.items():
                    w = pol.get(p, "discard")
                    want = v if w == "discard" else theirs.get(p) if w == "overwrite" else [v, theirs.get(p)] if w == "combine" else None
                    if now[0].get(p) != want:
                        bad("merge:policy:%s" % w, "merged property does not follow the %s policy" % w, k, expected=want, observed=now[0].get(p))
                if set(now[0]) != set(mine):
                    bad("merge:policy:keys", "merged node has other property names than the caller's node", k,
                        expected=sorted(mine), observed=sorted(now[0]))
    return sh


def writes_gid(req):
    op = req[0]
    return ((op == "add_node" and bool(req[4]) and "GraphID" in req[4]) or (op == "update_node_property" and req[3] == "GraphID")
            or (op == "update_nodes_property" and req[2] == "GraphID") or (op == "update_node_properties" and "GraphID" in req[3]))


def nid_unique(be, g):
    seen = set()
    for d in node_table(be).values():
        if d.get("GraphID") == g:
            x = canon(d.get("NodeID"))
            if x in seen:
                return False
            seen.add(x)
    return True


PREFIX = [["add_node", "g1", "n1", "NetworkNode", {"Name": "x"}], ["add_node", "g1", "n2", "Link", None],
          ["add_link", "g1", "n1", "has", "n2", {"p": "x"}], ["add_node", "g2", "n1", "Link", {"Name": "y"}],
          ["add_node", "g2", "n2", "Link", None], ["add_link", "g2", "n2", "connects", "n1", None]]


def small_alphabet():
    """reduced alphabet for the exhaustive small-scope enumeration (run after PREFIX: two graphs, a link in each)"""
    A = []
    for g in ("g1", "g2"):
        A.append(["add_node", g, "n1", "ConnectionPoint", None])
        A.append(["add_node", g, "n3", "Link", {"Name": "x"}])
        A.append(["add_link", g, "n1", "has", "n2", {"q": "y"}])
        A.append(["add_link", g, "n2", "connects", "n3", None])
        A.append(["delete_node", g, "n1"])
        A.append(["update_node_property", g, "n1", "p", "x"])
        A.append(["update_node_property", g, "n1", "Class", "Link"])
        A.append(["unset_node_property", g, "n1", "p"])
        A.append(["unset_node_property", g, "n1", "Name"])
        A.append(["update_nodes_property", g, "Class", "y"])
        A.append(["update_node_properties", g, "n2", {"Type": "x", "q": ""}])
        A.append(["update_node_properties", g, "n1", {"p": "y", "Name": None, "Type": 0}])
        A.append(["update_node_properties", g, "n1", {"p": None, "q": 0}])
        A.append(["update_node_property", g, "n1", "Name", None])
        A.append(["update_nodes_property", g, "Type", False])
        A.append(["update_link_properties", g, "n1", "n2", "has", {"p": None, "q": ["a", "b", "c"]}])
        A.append(["update_link_property", g, "n1", "n2", "has", "p", {"k": "v"}])
        A.append(["update_link_property", g, "n2", "n1", "has", "Class", "connects"])
        A.append(["update_link_property", g, "n1", "n2", "has", "p", "y"])
        A.append(["unset_link_property", g, "n1", "n2", "has", "Class"])
        A.append(["unset_link_property", g, "n1", "n2", "connects", "p"])
        A.append(["update_link_properties", g, "n1", "n2", "has", {"Class": "x"}])
        A.append(["delete_graph", g])
        A.append(["list_all_node_ids", g])
        A.append(["get_node_properties", g, "n1"])
        A.append(["get_link_properties", g, "n2", "n1"])
    A.append(["merge_nodes", "g1", "n1", "g2", {"Name": "combine"}])
    A.append(["merge_nodes", "g2", "n2", "g1", None])
    A.append(["find_matching_nodes", "g1", "g2"])
    return A


def oracle(ctx, res, n=None, length=40, exhaustive=None):
    hs = gen_histories(ctx, "oracle", n or ctx.scale(300, 3000), length)
    hs += gen_histories(ctx, "oracle-keys", (n or ctx.scale(300, 3000)) // 3, length, keys=0.1)[len(load_corpus()):]
    ncorpus = len(load_corpus())
    for c in load_handle_corpus():
        res.evaluations += 1
        check_handle_objects(c, res)
    # clones and imports are C04's for the three-way comparison; here: histories with clones on the disjoint backend through
    # kept handle objects (the objects clone_graph returns among them), every merge_nodes must be refused
    rngh = ctx.sub_rng("oracle-handle-objects")
    for i in range(ctx.scale(60, 600)):
        gids, nids = ["g1", "g2", "g3"], ["n1", "n2", "n3", "n4"]
        hh = L.gen_history(rngh, rngh.randint(8, 20), ngraphs=3, scenario=0.3, merge=True,
                           kinds=["add_graph", "clone", "clone", "add_node", "delete_node", "merge_nodes", "merge_nodes", "merge_nodes",
                                  "delete_graph", "list_all_node_ids"])
        res.evaluations += 1
        check_handle_objects({"flavour": "disjoint", "handles": ["one", "two"][i % 2], "hseed": i, "history": hh}, res)
    # what a stored value - falsy ones and look-alikes included - means to every request that consumes it afterwards
    for li, h in enumerate(value_lifecycles()):
        res.evaluations += 1
        res.count("value-lifecycles")
        check_history(h, res, handles=handle_mode(li), hseed=li)
    for hi, h in enumerate(hs):
        res.evaluations += 1
        res.count("handles:%s" % handle_mode(hi))
        check_history(h, res, handles=handle_mode(hi), hseed=hi)
        if hi < ncorpus:
            for hm in L.HANDLE_MODES:
                if hm != handle_mode(hi):
                    check_history(h, res, handles=hm, hseed=hi)
        if len(set(q[1] for q in h)) >= 2:
            res.nontrivial.add(L.kind_seq(h))
    # small scope: every continuation of PREFIX of depth 2 over the whole alphabet; in the thorough tier also every
    # continuation of depth 3 over the operations addressed to g1 (plus the two-graph operations)
    A = small_alphabet()
    plans = [(2, A)]
    depth = exhaustive if exhaustive is not None else ctx.scale(2, 3)
    if depth >= 3:
        plans.append((3, [r for r in A if r[1] == "g1" or r[0] in ("merge_nodes", "find_matching_nodes")]))
    for d, alpha in plans:
        cnt = 0
        for h in itertools.product(alpha, repeat=d):
            check_history([copy.deepcopy(r) for r in PREFIX] + [copy.deepcopy(r) for r in h], res)
            cnt += 1
        res.evaluations += cnt
        res.count("exhaustive-depth-%d-over-%d-ops" % (d, len(alpha)), cnt)
    res.sample({"history": hs[-1][:5], "checks": "shared vs disjoint vs python reference after every call; identity properties; "
                "NodeID uniqueness; merge edges and policy"})


def search(ctx, res, broken):
    oracle(ctx, res, n=ctx.scale(2000, 8000), length=50, exhaustive=3)


def replay(ctx, payload):
    r = core.Result()
    c = payload["case"]
    if c.get("kind") == "handle-objects":
        check_handle_objects(c, r)
    else:
        check_history(c["history"], r, handles=c.get("handles", "one"), hseed=c.get("hseed", 0))
    for v in r.violations:
        print("  ", v["signature"], v["what"])
    return bool(r.violations)
