"""C14 - combined broker model: merge is order-independent, unmerge is its inverse, rollback restores a snapshot."""
import copy
import itertools
import json
import os

import lib_cbm as L
from core import LeanDriver, err_kind, canon, sha, CORPUS_DIR
from gen import cbmcfg

ID = "C14"
GENERATORS = [cbmcfg.generate]
LEAN_MODULES = ["FimVerif.Proofs.C14"]
P = "FimVerif.C14."
THEOREMS = [P + t for t in (
    # one merge
    "merge_union", "delegations_step", "merge_comm_partial", "merge_comm_counterexample",
    # all sequences / permutations of merges
    "merge_sequence_union", "merge_first_wins_exact", "merge_succeeds_iff_compatible", "provenance_exact",
    "delegations_keyed_by_adm", "merge_order_independent_up_to_first_wins",
    "rekey_ignores_inner_id", "rekey_idempotent", "stampNode_idempotent", "stampAll_idempotent",
    # all histories
    "history_invariant", "reachable_provenance_and_delegations", "remerge_counterexample",
    # unmerge
    "unmerge_removes_exactly", "unmerge_any_merged", "unmerge_never_merged_noop", "unmerge_inverse", "unmerge_inverse_reachable",
    "unmerge_total_on_reachable", "unmerge_inverse_counterexample_edge", "unmerge_inverse_counterexample_id",
    # rollback, sources (frame on the store), tie to the source
    "rollback_restores", "merge_does_not_alter_other_graphs", "sources_untouched_by_every_history", "merge_sources_untouched",
    "merge_iteration_order_irrelevant", "merge_on_networkx_store", "plans_are_the_modelled_ones", "tables_agree_with_model",
    "generated_plans_safe",
    # the source models move on between the calls (unmerge_adm takes an id)
    "history_invariant_with_source_updates", "unmerge_after_source_update", "unmerge_reads_only_the_combined_model")] + [
    "FimVerif.Cbm.WInv.urun", "FimVerif.Cbm.WInv.update", "FimVerif.Cbm.Tracks.mono", "FimVerif.Cbm.unmerge_ignores_sources",
    "FimVerif.Cbm.merge_step", "FimVerif.Cbm.merge_WF", "FimVerif.Cbm.unmerge_merge", "FimVerif.Cbm.unmerge_step",
    "FimVerif.Cbm.Tracks.merge", "FimVerif.Cbm.Tracks.unmerge", "FimVerif.Cbm.WInv.step", "FimVerif.Cbm.mergeN_succeeds_iff",
    "FimVerif.Cbm.mergeAdm_frame", "FimVerif.Cbm.unmergeAdm_frame", "FimVerif.Cbm.srun_frame"]
TRUSTED_BASE = [
    "Model/Cbm.lean (abstract model, subject of the algebraic theorems) mirrors merge_adm / unmerge_adm / _update_node_delegations / "
    "rewrite_delegations / snapshot / rollback at the level of the abstract graph interface (nodes keyed by NodeID, undirected edges "
    "between NodeIDs), including the states left behind by calls that raise",
    "Model/CbmStore.lean (model of the shared NetworkX store: internal keys, GraphID tags, clone / contracted_nodes / GraphID rewrite; "
    "subject of the frame theorems) interprets the plans gen/cbmcfg.py observes on the code (which interface calls, on which graph "
    "object, in which order) - theorem plans_are_the_modelled_ones ties them to the abstract model, tables_agree_with_model ties the "
    "decision functions to the observed decision tables; that the store interpreter computes what the abstract model computes is "
    "checked by the driver on every request (`agree`), not proved",
    "the correspondence compares the real methods (Neo4jCBMGraph's, run on the NetworkX shared store through harness/lib_cbm.py NXCBM) "
    "with the store interpreter step by step: result / error kind, canonical combined model, sources untouched",
    "nx.contracted_nodes is summarised by its net effect (edges of the contracted node move to the surviving node, an existing edge "
    "keeps its data); clone_graph/extract_graph/add_graph are taken as exact copies under fresh internal ids (C04/C05's subject)",
    "delegation details and all other property values are opaque strings in the models; Delegations.from_json/to_json is applied "
    "to the inputs by the harness first (C12's subject)",
    "the iteration order of Python's set of common node ids is reproduced by the harness and handed to the driver (it only "
    "matters for the state left by a merge that raises; theorem merge_iteration_order_irrelevant covers the successful case)",
    "translator probes are behavioural (recorded interface calls and observed results on small probe graphs), so they see what the "
    "probes exercise; everything else is left to the correspondence",
]
ASSUMPTIONS = [
    "the CBM is only built through merge_adm / unmerge_adm / snapshot / rollback starting from an empty graph (every CBM node "
    "carries StructuralInfo.adm_graph_ids)",
    "NodeIDs are unique within one model and a model has at most one edge per unordered node pair (nx.Graph); internal node ids of "
    "the store are unique and below start_id (KeysOK; preserved by every primitive, theorem srun_frame)",
    "histories within the property's quantifier (HistOk): a merge names a well-formed model that is not currently part of the "
    "combined model (re-merging a live model duplicates its provenance entry: theorem remerge_counterexample) and does not raise "
    "half-way; unmerge of any id, snapshots and rollbacks are unrestricted",
    "a PropertyGraphQueryException raised by the final GraphID rewrite when every node of the merged model was already in the CBM "
    "is an artefact of running the Neo4j-side code on the NetworkX store (update_nodes_property on a vanished graph); theorem "
    "merge_on_networkx_store: the merged state is the same, and the theorems are stated for the call without the artefact",
    "graph ids of temporary graphs and snapshots (uuid4 in the code) differ from the ids of all other graphs",
]
RULE = ("families of 1..4 generated site/network models sharing stitch nodes (plus small arbitrary models over a 5-id pool, the four "
        "repo advertisements and a malformed stream), all merge permutations, random merge/unmerge/snapshot/rollback histories; "
        "non-trivial = at least 2 models sharing at least 1 node were merged; distinct by canonical (family, op list)")

CBM = "CBM"


# --------------------------------------------------------------------------
# running the implementation


class Session:
    """One fresh store, the family's models loaded next to an empty CBM."""

    def __init__(self, family):
        self.family = family
        self.imp = L.fresh_store()
        self.src = [L.load_spec(self.imp, s) for s in family]
        self.cbm = L.new_cbm(self.imp, CBM)
        self.snaps = []          # model index -> uuid
        self.src0 = [L.snapshot(self.imp, s["id"]) for s in family]
        self.cur = list(family)  # the version of each model the store holds now (an `edit` op changes it)

    def cbm_ids(self):
        G = self.imp.storage.get_graph(CBM)
        return [d.get(L.NODE_ID) for _, d in G.nodes(data=True) if d.get(L.GRAPH_ID) == CBM]

    def request(self, op):
        """The line the model gets for this op (computed before the op runs)."""
        if op[0] == "edit":
            # the model's store gets the version of the source the edit left (call this AFTER the op for edits)
            return ["edit", self.cur[op[1]]]
        if op[0] == "merge":
            spec = self.cur[op[1]]
            order = L.common_order(self.cbm_ids(), [n[0] for n in spec["nodes"]])
            return ["merge", spec, order]
        if op[0] == "unmerge":
            return ["unmerge", op[1] if isinstance(op[1], str) else self.family[op[1]]["id"]]
        return list(op)

    def do(self, op):
        val = None
        try:
            if op[0] == "merge":
                self.cbm.merge_adm(adm=self.src[op[1]])
            elif op[0] == "unmerge":
                self.cbm.unmerge_adm(graph_id=op[1] if isinstance(op[1], str) else self.family[op[1]]["id"])
            elif op[0] == "snapshot":
                u = self.cbm.snapshot()
                self.snaps.append(u)
                val = len(self.snaps) - 1
            elif op[0] == "rollback":
                k = op[1]
                self.cbm.rollback(graph_id=self.snaps[k] if k < len(self.snaps) else "no-such-snapshot-%d" % k)
            elif op[0] == "edit":
                # not a call of the combined model: the source model moves on in the store (in place / reloaded / deleted)
                i = op[1]
                try:
                    self.cur[i] = L.apply_edit(self.imp, self.family[i]["id"], op[2], op[3])
                except Exception:
                    self.cur[i] = L.spec_of_graph(self.imp, self.family[i]["id"])
                self.src0[i] = L.snapshot(self.imp, self.family[i]["id"])
            r = "ok"
        except Exception as e:
            r = err_kind(e)
        return {"r": r, "cbm": L.snapshot(self.imp, CBM), "val": val}

    def do_corr(self, op):
        """`do` plus what the driver reports besides the combined model: are the source models untouched"""
        r = self.do(op)
        r["src"] = not self.sources_changed()
        r["agree"] = True
        # graphs in the store that are neither the combined model, nor a source, nor a snapshot (temporary clones left behind)
        known = {CBM} | {sp["id"] for sp in self.family} | set(self.snaps)
        G = self.imp.storage.get_graph(CBM)
        r["stray"] = len({d.get(L.GRAPH_ID) for _, d in G.nodes(data=True)} - known)
        return r

    def sources_changed(self):
        return [s["id"] for s, s0 in zip(self.family, self.src0) if L.snapshot(self.imp, s["id"]) != s0]


def canon_model_reply(line):
    j = json.loads(line)
    if j[0] != "ok":
        return j
    v = j[1]
    g = v["cbm"]
    nodes = sorted(g["nodes"], key=lambda r: r[0])
    edges = sorted(([min(e[0], e[1]), max(e[0], e[1]), e[2]] for e in g["edges"]), key=lambda r: (r[0], r[1]))
    return {"r": v["r"], "cbm": {"nodes": nodes, "edges": edges}, "val": v["val"], "src": v.get("src"), "agree": v.get("agree"), "stray": v.get("stray")}


# --------------------------------------------------------------------------
# case generation


def gen_ops(rng, k, n, family=None, p_edit=0.0):
    """Random history; biased towards the meaningful choices (merge a model that is not part of the combined model, unmerge one
    that is - first, middle or last -, snapshot a non-empty model, roll back to a snapshot that exists) without excluding the
    others.  `live` / `nsnap` follow what the calls are expected to do (a snapshot of an empty model does not get an index)."""
    ops, nsnap, live, snaps_live = [], 0, [], []
    cur = list(family) if family else None
    for step in range(n):
        if cur is not None and rng.random() < p_edit:
            # the source model moves on: preferably one that is part of the combined model (then unmerge it / merge it again later)
            i = rng.choice(live) if live and rng.random() < 0.8 else rng.randrange(k)
            kind, arg = L.gen_edit(rng, cur[i], family, i, step)
            cur[i] = L.edit_spec(cur[i], kind, arg)
            ops.append(("edit", i, kind, arg))
            if i in live and rng.random() < 0.7:
                live.remove(i)
                ops.append(("unmerge", i))
                if rng.random() < 0.6:
                    ops.append(("merge", i))
                    live.append(i)
            continue
        r = rng.random()
        t_merge, t_unmerge, t_snap = (0.75, 0.85, 0.90) if not live else (0.35, 0.65, 0.82)
        if r < t_merge:
            free = [i for i in range(k) if i not in live]
            i = rng.choice(free) if free and rng.random() < 0.85 else rng.randrange(k)
            ops.append(("merge", i))
            if i not in live:
                live.append(i)
        elif r < t_unmerge:
            q = rng.random()
            if live and q < 0.75:
                i = rng.choice(live)            # any live model: first, middle or last
                live.remove(i)
                ops.append(("unmerge", i))
            elif q < 0.9:
                i = rng.randrange(k)
                if i in live:
                    live.remove(i)
                ops.append(("unmerge", i))
            else:
                ops.append(("unmerge", rng.choice(["primary", "nobody"])))
        elif r < t_snap:
            ops.append(("snapshot",))
            if live:
                snaps_live.append((nsnap, list(live)))
                nsnap += 1
        else:
            if snaps_live and rng.random() < 0.7:
                idx, lv = snaps_live.pop(rng.randrange(len(snaps_live)))
                live = list(lv)
                ops.append(("rollback", idx))
            else:
                ops.append(("rollback", rng.randrange(nsnap + 1)))
                live = []
    return ops


def malformed_family(rng):
    fam = L.gen_family(rng, 2)
    what, ld, cd = rng.choice(L.MALFORMED)
    tgt = rng.choice(fam)
    node = rng.choice(tgt["nodes"])
    node[2], node[3] = copy.deepcopy(ld), copy.deepcopy(cd)
    return fam


def corpus_cases():
    d = os.path.join(CORPUS_DIR, ID)
    out = []
    if os.path.isdir(d):
        for fn in sorted(os.listdir(d)):
            if fn.endswith(".json"):
                with open(os.path.join(d, fn)) as f:
                    c = json.load(f)
                c["name"] = fn
                out.append(c)
    return out


def gen_cases(ctx, tag, nfam, nhist, with_ads=True, ads_perms=True):
    """[(family, ops)] - corpus first, then deterministic corner cases, then random."""
    rng = ctx.sub_rng(tag)
    cases = []
    for c in corpus_cases():
        cases.append((c["family"], [tuple(o) for o in c["ops"]]))
    for _name, fam, ops in L.corner_cases():
        cases.append((fam, ops))
    # permutation families
    for i in range(nfam):
        k = 1 + i % 4
        fam = L.gen_family(rng, k) if i % 3 else L.gen_raw_family(rng, k)
        for perm in itertools.permutations(range(k)):
            cases.append((fam, [("merge", j) for j in perm]))
    # histories
    for i in range(nhist):
        k = rng.randrange(1, 5)
        r = rng.random()
        if r < 0.5:
            fam = L.gen_family(rng, k)
        elif r < 0.9:
            fam = L.gen_raw_family(rng, k)
        else:
            fam = malformed_family(rng)
            k = len(fam)
        cases.append((fam, gen_ops(rng, k, rng.randrange(3, 16))))
    # histories in which the source models move on between the calls (own random stream: the histories above stay what they were)
    erng = ctx.sub_rng(tag + "-edit")
    for i in range(nhist // 3):
        k = erng.randrange(1, 5)
        fam = L.gen_family(erng, k) if erng.random() < 0.6 else L.gen_raw_family(erng, k)
        cases.append((fam, gen_ops(erng, k, erng.randrange(3, 16), family=fam, p_edit=erng.choice([0.15, 0.3]))))
    if with_ads:
        ads = L.repo_ad_specs()
        fam = [ads[n] for n in L.ADS]
        perms = list(itertools.permutations(range(4)))
        chosen = [] if not ads_perms else perms if ctx.thorough else [perms[0], perms[rng.randrange(1, 24)]]
        for perm in chosen:
            cases.append((fam, [("merge", j) for j in perm]))
        cases.append((fam, [("merge", 0), ("merge", 3), ("snapshot",), ("merge", 1), ("unmerge", 3), ("merge", 2), ("rollback", 0),
                            ("unmerge", 0), ("unmerge", 3)]))
    return cases


def nontrivial(family, ops):
    merged = {o[1] for o in ops if o[0] == "merge"}
    for a, b in itertools.combinations(sorted(merged), 2):
        if {n[0] for n in family[a]["nodes"]} & {n[0] for n in family[b]["nodes"]}:
            return True
    return False


# --------------------------------------------------------------------------
# correspondence


def correspondence(ctx, res):
    cases = gen_cases(ctx, "corr", ctx.scale(24, 160), ctx.scale(120, 1000))
    lines, impl, meta = [], [], []
    for ci, (family, ops) in enumerate(cases):
        s = Session(family)
        lines.append(json.dumps(["reset"]))
        impl.append({"r": "ok", "cbm": {"nodes": [], "edges": []}, "val": None, "src": True, "agree": True, "stray": 0})
        meta.append((ci, "reset"))
        for op in ops:
            if op[0] == "edit":
                r = s.do_corr(op)
                req = s.request(op)
            else:
                req = s.request(op)
            if op[0] == "merge" and len(req[2]) >= 2:
                store_order = [i for i in s.cbm_ids() if i in set(req[2])]
                res.count("case:merge:set-order-%s-store-order" % ("equals" if store_order == req[2] else "differs-from"))
            lines.append(json.dumps(req))
            if op[0] != "edit":
                r = s.do_corr(op)
            impl.append(r)
            meta.append((ci, op))
            res.count("op:" + op[0])
            res.count("result:" + op[0] + ":" + r["r"])
        L.describe(res.count, family, ops)
        if nontrivial(family, ops):
            res.nontrivial.add(canon([family, ops]))
    L.fresh_store()
    model = LeanDriver("C14").run(lines)
    bad_case = set()
    for (ci, op), i, m in zip(meta, impl, model):
        res.evaluations += 1
        mm = canon_model_reply(m)
        if isinstance(mm, dict) and mm.get("agree") is False:
            res.count("store-interpreter-vs-abstract-model:differ")
        if mm != i and ci not in bad_case:
            bad_case.add(ci)
            family, ops = cases[ci]
            res.disagreements.append({"case": {"family": family, "ops": [list(o) for o in ops], "at": list(op) if op != "reset" else op},
                                      "impl": _brief(i), "model": _brief(mm)})
    k = min(len(impl) - 1, 3)
    res.sample({"request": json.loads(lines[k])[:1] + ["..."], "impl": _brief(impl[k]), "model": _brief(canon_model_reply(model[k]))})


def _brief(r):
    if not isinstance(r, dict):
        return r
    g = r["cbm"]
    if len(g["nodes"]) <= 12:
        return r
    return {"r": r["r"], "val": r["val"], "cbm": {"nodes": "%d nodes sha %s" % (len(g["nodes"]), sha(canon(g["nodes"]))),
                                                   "edges": "%d edges sha %s" % (len(g["edges"]), sha(canon(g["edges"])))}}


# --------------------------------------------------------------------------
# oracle: the property itself on the implementation (snapshot algebra on canonical graphs)


def norm_empty(g):
    """An emptied delegation ('') is identified with an absent one."""
    return {"nodes": [[n[0], n[1], n[2], None if n[3] == "" else n[3], None if n[4] == "" else n[4]] for n in g["nodes"]],
            "edges": g["edges"]}


def spec_index(spec):
    return ({n[0]: n for n in spec["nodes"]},
            {frozenset((e[0], e[1])): e[2] for e in spec["edges"]})


def rekeyed(d, aid):
    if d is None or d == "":
        return None
    return {aid: list(d.values())[0]} if len(d) == 1 else {"?": "not-single"}


def check_global(res, case, g, family, merged, tag):
    """`merged` = indices of the models currently contributing (each at most once): element set, provenance and
    delegations of the combined model against the sources."""
    idx = [spec_index(family[i]) for i in merged]
    aid = [family[i]["id"] for i in merged]

    def bad(sig, what, **kw):
        res.violation("C14:" + sig, what, case, **kw)
    want_ids = set()
    for nodes, _ in idx:
        want_ids |= set(nodes)
    got_ids = [n[0] for n in g["nodes"]]
    if len(got_ids) != len(set(got_ids)):
        bad(tag + ":node-duplicated", "a shared element appears more than once", observed=sorted(got_ids))
    if set(got_ids) != want_ids:
        bad(tag + ":node-set", "combined model is not the union of the contributing models' elements",
            expected=sorted(want_ids), observed=sorted(got_ids))
        return
    for n in g["nodes"]:
        nid, props, prov, ld, cd = n
        contrib = [j for j, (nodes, _) in enumerate(idx) if nid in nodes]
        want_prov = sorted(aid[j] for j in contrib)
        if prov is None or sorted(prov) != want_prov:
            bad(tag + ":provenance", "adm_graph_ids is not exactly the set of contributing models", expected=want_prov, observed=[nid, prov])
        for which, got in ((2, ld), (3, cd)):
            speakers = [(aid[j], idx[j][0][nid][which]) for j in contrib if idx[j][0][nid][which] not in (None, "")]
            want = rekeyed(speakers[0][1], speakers[0][0]) if len(speakers) == 1 else None
            if len(speakers) <= 1 and (got or None) != want:
                bad(tag + ":delegation", "delegation is not the contributing model's, keyed by its graph id", expected=want, observed=[nid, got])
        if tag == "unmerge" and props not in [idx[j][0][nid][1] for j in contrib]:
            bad("unmerge:shared-node-keeps-unmerged-model-properties",
                "after unmerge a shared element keeps the properties of the model that was removed (first-wins)", observed=[nid, props])


def check_merge_step(res, case, before, g, spec):
    """What one successful merge may change besides provenance/delegations: nothing on the elements and connections
    already there; the model's other elements and connections are added with the model's data."""
    def bad(sig, what, **kw):
        res.violation("C14:merge:" + sig, what, case, **kw)
    b_nodes = {n[0]: n for n in before["nodes"]}
    s_nodes, s_edges = spec_index(spec)
    for n in g["nodes"]:
        if n[0] in b_nodes:
            if n[1] != b_nodes[n[0]][1]:
                bad("existing-node-properties", "merge changed the properties of an element already in the combined model", observed=[n[0], n[1]])
        elif n[0] not in s_nodes or n[1] != s_nodes[n[0]][1]:
            bad("new-node-properties", "a new element does not carry the merged model's properties", observed=[n[0], n[1]])
    b_edges = {frozenset(e[:2]): e[2] for e in before["edges"]}
    want = dict(b_edges)
    for pr, data in s_edges.items():
        want.setdefault(pr, data)
    got = {frozenset(e[:2]): e[2] for e in g["edges"]}
    if set(got) != set(want):
        bad("edge-set", "connections are not the union of the combined model's and the merged model's",
            observed={"missing": [sorted(x) for x in set(want) - set(got)][:5], "extra": [sorted(x) for x in set(got) - set(want)][:5]})
    for pr, data in got.items():
        if pr in want and data != want[pr]:
            if sorted(set(data) ^ set(want[pr])) == ["contraction"]:
                bad("shared-edge-gains-contraction-attribute",
                    "a connection present in both models acquires a dict-valued 'contraction' attribute", observed=[sorted(pr), data])
            else:
                bad("edge-data", "connection data is neither the combined model's nor the merged model's", observed=[sorted(pr), data])


def check_unmerge_step(res, case, before, g, family, merged_after, x):
    """Connections after unmerging family[x]: those of before between surviving elements, minus what only x contributed."""
    def bad(sig, what, **kw):
        res.violation("C14:unmerge:" + sig, what, case, **kw)
    keep = {n[0] for n in g["nodes"]}
    b_nodes = {n[0]: n for n in before["nodes"]}
    for n in g["nodes"]:
        if n[0] not in b_nodes:
            bad("node-appears", "unmerge added an element", observed=n[0])
        elif n[1] != b_nodes[n[0]][1]:
            bad("node-properties", "unmerge changed the properties of a surviving element", observed=[n[0], n[1]])
    others = set()
    for j in merged_after:
        others |= set(spec_index(family[j])[1])
    only_x = {pr for pr in spec_index(family[x])[1] if pr not in others}
    got = {frozenset(e[:2]): e[2] for e in g["edges"]}
    stay, want = [], {}
    for e in before["edges"]:
        pr = frozenset(e[:2])
        if set(pr) <= keep:
            if pr in only_x:
                stay.append(sorted(pr))
            else:
                want[pr] = e[2]
    if [p for p in stay if frozenset(p) in got]:
        bad("edge-between-shared-nodes-stays",
            "a connection contributed only by the unmerged model between two shared elements is not removed", observed=stay[:5])
    rest = {pr: d for pr, d in got.items() if pr not in only_x}
    if rest != want:
        bad("edges", "unmerge changed connections it should not touch",
            observed={"missing": [sorted(x) for x in set(want) - set(rest)][:5], "extra": [sorted(x) for x in set(rest) - set(want)][:5]})


def check_remerge(res, case, before, g, spec):
    mine = {n[0] for n in spec["nodes"]}
    b = {n[0]: n for n in before["nodes"]}
    dup = []
    for n in g["nodes"]:
        o = b.get(n[0])
        if o is None or [n[1], n[3] or None, n[4] or None] != [o[1], o[3] or None, o[4] or None]:
            res.violation("C14:remerge:changes-combined-model", "merging a model that is already part of the combined model changed an "
                          "element beyond its provenance", case, observed=[n[0]])
            return
        if n[2] != o[2]:
            if n[0] in mine and n[2] == (o[2] or []) + [spec["id"]]:
                dup.append(n[0])
            else:
                res.violation("C14:remerge:provenance", "merging a model again changed the provenance of an element in an unexpected way",
                              case, expected=o[2], observed=[n[0], n[2]])
                return
    if len(g["nodes"]) != len(before["nodes"]) or g["edges"] != before["edges"]:
        res.violation("C14:remerge:changes-combined-model", "merging a model that is already part of the combined model changed its "
                      "elements or connections", case)
        return
    if dup:
        res.violation("C14:remerge:provenance-lists-model-twice",
                      "merging a model that is already part of the combined model lists it twice in adm_graph_ids; one unmerge then "
                      "leaves its elements behind", case, observed=sorted(dup)[:5])


def is_artefact(r, before, spec):
    """query error of the final GraphID rewrite when every node of the model was already in the CBM (and nothing conflicted)."""
    return (r["r"] == "query" and {n[0] for n in spec["nodes"]} <= {n[0] for n in before["nodes"]} and before["nodes"]
            and _wellformed(spec) and not _has_conflict(before, spec))


def run_history(res, family, ops):
    """Execute one history on the implementation and evaluate every clause of the property that applies."""
    case = {"family": family, "ops": [list(o) for o in ops]}
    s = Session(family)
    merged = []                 # indices currently contributing, None when no longer tracked
    snap_info = {}              # snapshot index -> (canonical cbm, merged list, versions)
    view = list(family)         # per model: the version that was merged (what the combined model holds of it); the source may
    #                             move on in the store afterwards (`edit`) - unmerge takes an id, not a model

    def bad(sig, what, **kw):
        res.violation("C14:" + sig, what, case, **kw)
    for op in ops:
        before = L.snapshot(s.imp, CBM)
        r = s.do(op)
        res.evaluations += 1
        ch = s.sources_changed()
        if ch:
            bad("sources-altered:" + op[0], "a source model was altered by %s" % op[0], observed=ch)
        g = r["cbm"]
        if op[0] == "edit":
            res.count("edit:%s:%s" % (op[2], "while-merged" if merged and op[1] in merged else "other"))
            if g != before:
                bad("edit-of-source-changes-cbm", "a change of a source model in the store changed the combined model", observed=list(op[:3]))
            continue
        if op[0] == "merge":
            i = op[1]
            spec_i = s.cur[i]       # the version of the model the store holds now
            art = is_artefact(r, before, spec_i)
            if art:
                res.count("merge:all-nodes-common-artefact")
            okish = r["r"] == "ok" or art
            if merged is not None:
                if okish and i not in merged:
                    merged.append(i)
                    view[i] = spec_i
                    check_global(res, case, g, view, merged, "merge")
                    check_merge_step(res, case, before, g, spec_i)
                elif okish and spec_i != view[i]:
                    # an updated version merged while the old one is still part of the combined model: the property does not say
                    res.count("merge:updated-version-while-old-one-merged")
                    merged = None
                elif okish:
                    # the same model merged again while it is part of the combined model: nothing but the provenance may
                    # change, and the provenance then lists the model twice (known finding; theorem remerge_counterexample)
                    check_remerge(res, case, before, g, spec_i)
                    merged = None       # one unmerge will not take its elements out any more: stop tracking
                elif i not in merged and _wellformed(spec_i) and not _has_conflict(before, spec_i):
                    bad("merge:raises:" + r["r"], "merge of a well-formed model without conflicting delegations raised", observed=r["r"])
            if not okish and g != before:
                merged = None           # partial merge left behind (C09's subject); stop tracking
        elif op[0] == "unmerge":
            if r["r"] == "ok":
                if merged is not None and not isinstance(op[1], str) and op[1] in merged:
                    merged.remove(op[1])
                    if s.cur[op[1]] != view[op[1]]:
                        res.count("unmerge:source-moved-on-since-merge:" + ("gone" if not s.cur[op[1]]["nodes"] else "changed"))
                    if merged:
                        check_global(res, case, g, view, merged, "unmerge")
                        check_unmerge_step(res, case, before, g, view, merged, op[1])
                    elif g["nodes"]:
                        bad("unmerge:not-empty", "unmerging the last model leaves elements behind", observed=[n[0] for n in g["nodes"]][:5])
                elif g != before and merged is not None:
                    bad("unmerge:foreign-id-changes-cbm", "unmerging a model that is not part of the combined model changed it")
            elif before["nodes"] and merged is not None:
                bad("unmerge:raises:" + r["r"], "unmerge raised on a combined model built by merges", observed=r["r"])
        elif op[0] == "snapshot":
            if r["r"] == "ok":
                snap_info[r["val"]] = (before, None if merged is None else list(merged), list(view))
                if g != before:
                    bad("snapshot:alters-cbm", "taking a snapshot altered the combined model")
            elif not before["nodes"]:
                bad("snapshot:empty-cbm-raises", "snapshot of an empty combined model raises %s" % r["r"], observed=r["r"])
            else:
                bad("snapshot:raises:" + r["r"], "snapshot raised", observed=r["r"])
        elif op[0] == "rollback":
            k = op[1]
            if k in snap_info:
                want, m, vw = snap_info.pop(k)
                if r["r"] != "ok" or g != want:
                    bad("rollback:not-restored", "rollback to a snapshot taken before does not restore the combined model",
                        expected=_brief({"r": "ok", "val": None, "cbm": want}), observed=_brief(r))
                merged = m
                view = list(vw)
            else:
                merged = None if g["nodes"] else []
    return s


def _has_conflict(g, spec):
    cur = {n[0]: n for n in g["nodes"]}
    for n in spec["nodes"]:
        c = cur.get(n[0])
        if c is not None and ((c[3] and n[2]) or (c[4] and n[3])):
            return True
    return False


def _wellformed(spec):
    return bool(spec["nodes"]) and all((d is None or (isinstance(d, dict) and len(d) == 1 and "?raw" not in d)) for n in spec["nodes"] for d in (n[2], n[3]))


def check_inverse(res, family, prefix, i, edit=None):
    """merge(prefix...) ; merge i ; [the source of i moves on in the store ;] unmerge i  ==  merge(prefix...)   (modulo '' == absent)."""
    case = {"family": family, "ops": [["merge", j] for j in prefix] + [["merge", i]] + ([list(edit)] if edit else []) + [["unmerge", i]]}
    s = Session(family)
    for j in prefix:
        if s.do(("merge", j))["r"] != "ok":
            return
    before = L.snapshot(s.imp, CBM)
    r = s.do(("merge", i))
    if r["r"] != "ok" and not is_artefact(r, before, family[i]):
        return
    if edit:
        s.do(tuple(edit))
        res.count("inverse:source-moved-on:" + edit[2])
    r2 = s.do(("unmerge", i))
    res.evaluations += 1
    if not before["nodes"]:
        # unmerging the only model: the combined model must be empty again
        if r2["cbm"]["nodes"] or r2["r"] != "ok":
            res.violation("C14:unmerge_inverse:single", "merge then unmerge of the only model does not give the empty model", case, observed=_brief(r2))
        return
    if r2["r"] != "ok":
        res.violation("C14:unmerge_inverse:raises:" + r2["r"], "unmerge of the model just merged raised", case, observed=r2["r"])
        return
    a, b = norm_empty(before), norm_empty(r2["cbm"])
    if a == b:
        return
    ea = {(e[0], e[1]) for e in a["edges"]}
    extra = [e for e in b["edges"] if (e[0], e[1]) not in ea]
    if a["nodes"] == b["nodes"] and extra and all(e in b["edges"] for e in a["edges"]):
        res.violation("C14:unmerge:edge-between-shared-nodes-stays",
                      "a connection contributed only by the unmerged model between two shared elements is not removed", case,
                      observed=[e[:2] for e in extra][:5])
        return
    if a["nodes"] == b["nodes"] and [e[:2] for e in a["edges"]] == [e[:2] for e in b["edges"]]:
        diff = [(x[:2], sorted(set(y[2]) ^ set(x[2]))) for x, y in zip(a["edges"], b["edges"]) if x != y]
        if all(d[1] == ["contraction"] for d in diff):
            res.violation("C14:merge:shared-edge-gains-contraction-attribute",
                          "a connection present in both models acquires a dict-valued 'contraction' attribute that survives unmerge", case,
                          observed=diff[:3])
            return
    res.violation("C14:unmerge_inverse:differs", "merge followed by unmerge does not restore the previous combined model", case,
                  expected=_brief({"r": "ok", "val": None, "cbm": a}), observed=_brief({"r": "ok", "val": None, "cbm": b}))


def check_permutations(res, family):
    """All merge orders of the family from the empty model; full equality of the canonical results is what the property states."""
    k = len(family)
    results = {}
    for perm in itertools.permutations(range(k)):
        s = Session(family)
        ok = True
        for j in perm:
            before = L.snapshot(s.imp, CBM)
            r = s.do(("merge", j))
            res.evaluations += 1
            if r["r"] != "ok" and not is_artefact(r, before, family[j]):
                ok = False
                break
        results[perm] = L.snapshot(s.imp, CBM) if ok else None
    good = {p: g for p, g in results.items() if g is not None}
    case0 = {"family": family, "ops": None}
    if good and len(good) != len(results):
        p_bad = [p for p in results if results[p] is None][0]
        p_ok = list(good)[0]
        res.violation("C14:merge_order:success-depends-on-order", "merging succeeds in one order and raises in another",
                      {"family": family, "ops": [["merge", j] for j in p_bad]}, expected=list(p_ok), observed=list(p_bad))
    perms = list(good)
    for p in perms[1:]:
        g0, g1 = good[perms[0]], good[p]
        if g0 == g1:
            continue
        case = {"family": family, "ops": [["merge", j] for j in p], "reference_ops": [["merge", j] for j in perms[0]]}
        classify_order_difference(res, case, family, g0, g1)


def classify_order_difference(res, case, family, g0, g1):
    def bad(sig, what, **kw):
        res.violation("C14:merge_order:" + sig, what, case, **kw)
    n0 = {n[0]: n for n in g0["nodes"]}
    n1 = {n[0]: n for n in g1["nodes"]}
    if set(n0) != set(n1):
        return bad("node-set", "node set depends on merge order")
    count = {}
    for spec in family:
        for n in spec["nodes"]:
            count[n[0]] = count.get(n[0], 0) + 1
    ecount = {}
    for spec in family:
        for e in spec["edges"]:
            ecount[frozenset(e[:2])] = ecount.get(frozenset(e[:2]), 0) + 1
    for nid in n0:
        a, b = n0[nid], n1[nid]
        if sorted(a[2] or []) != sorted(b[2] or []):
            bad("provenance", "provenance set depends on merge order", observed=[nid, a[2], b[2]])
        if (a[3] or None, a[4] or None) != (b[3] or None, b[4] or None):
            bad("delegations", "delegations depend on merge order", observed=[nid, a[3:], b[3:]])
        if a[1] != b[1]:
            names = sorted(k for k in set(a[1]) | set(b[1]) if a[1].get(k) != b[1].get(k))
            if count.get(nid, 0) >= 2:
                bad("first-wins:shared-node-property", "properties %s of a shared element are those of the model merged first" % names,
                    observed=[nid, {k: [a[1].get(k), b[1].get(k)] for k in names}])
            else:
                bad("unshared-node-property", "properties of an element contributed by one model depend on merge order", observed=[nid, names])
    e0 = {frozenset(e[:2]): e[2] for e in g0["edges"]}
    e1 = {frozenset(e[:2]): e[2] for e in g1["edges"]}
    if set(e0) != set(e1):
        return bad("edge-set", "edge set depends on merge order")
    for pr in e0:
        if e0[pr] != e1[pr]:
            names = sorted(k for k in set(e0[pr]) | set(e1[pr]) if e0[pr].get(k) != e1[pr].get(k))
            if names == ["contraction"]:
                res.violation("C14:merge:shared-edge-gains-contraction-attribute",
                              "a connection present in both models acquires a dict-valued 'contraction' attribute", case, observed=[sorted(pr), names])
            elif ecount.get(pr, 0) >= 2:
                bad("first-wins:shared-edge-property", "properties %s of a connection present in several models are those of the model merged first" % names,
                    observed=[sorted(pr), names])
            else:
                bad("unshared-edge-property", "data of a connection contributed by one model depends on merge order", observed=[sorted(pr), names])


def oracle(ctx, res, nfam=None, nhist=None):
    rng = ctx.sub_rng("oracle")
    erng = ctx.sub_rng("oracle-edit")
    nfam = nfam or ctx.scale(40, 320)
    nhist = nhist or ctx.scale(100, 800)
    # 1. deterministic corpus / corner cases and random histories
    for family, ops in gen_cases(ctx, "oracle-hist", 0, nhist, with_ads=True, ads_perms=False):
        run_history(res, family, ops)
        res.count("history")
        L.describe(res.count, family, ops)
        if nontrivial(family, ops):
            res.nontrivial.add(canon([family, ops]))
    # 2. permutations + inverse on generated families
    fams = [deterministic_family_first_wins(), deterministic_family_shared_edge(), L.coinciding_family()]
    fams += [c["family"] for c in corpus_cases() if "substring" in c["name"]]
    for i in range(nfam):
        k = 1 + i % 4
        fams.append(L.gen_family(rng, k) if i % 3 else L.gen_raw_family(rng, k))
    ads = L.repo_ad_specs(hist=res.count)
    fams.append([ads[n] for n in L.ADS] if ctx.thorough else [ads["RENCI"], ads["Network"]])
    for fam in fams:
        check_permutations(res, fam)
        res.count("family:%d" % len(fam))
        k = len(fam)
        for i in range(k):
            others = [j for j in range(k) if j != i]
            for m in range(len(others) + 1):
                check_inverse(res, fam, others[:m], i)
                if fam[i]["nodes"]:
                    kind, arg = L.gen_edit(erng, fam[i], fam, i, m)
                    check_inverse(res, fam, others[:m], i, edit=("edit", i, kind, arg))
        res.nontrivial.add(canon(fam))
    L.fresh_store()
    res.sample({"family_ids": [f["id"] for f in fams[2]], "checked": "all permutations equal; merge;unmerge = id; union/provenance/delegations per step"})


def deterministic_family_first_wins():
    """The design-phase observation in the small: a stitch node described differently by a site and a network model."""
    a = {"id": "adm-site", "nodes": [["sw", {"Class": "NetworkNode", "Name": "sw", "StitchNode": "false"}, None, None],
                                     ["port", {"Class": "ConnectionPoint", "Name": "p", "StitchNode": "true", "Model": "site"}, None, None]],
         "edges": [["sw", "port", {"Class": "connects"}]]}
    b = {"id": "adm-net", "nodes": [["port", {"Class": "ConnectionPoint", "Name": "p", "StitchNode": "false", "Model": "net"}, None, None],
                                    ["link", {"Class": "Link", "Name": "l", "StitchNode": "false"}, None, None]],
         "edges": [["port", "link", {"Class": "connects"}]]}
    return [a, b]


def deterministic_family_shared_edge():
    """Two models both containing the connection between two shared elements; a third contributing such a connection alone."""
    def n(i):
        return [i, {"Class": "ConnectionPoint", "Name": i, "StitchNode": "true"}, None, None]
    a = {"id": "adm-a", "nodes": [n("x"), n("y"), n("a1")], "edges": [["x", "y", {"Class": "connects"}], ["x", "a1", {"Class": "connects"}]]}
    b = {"id": "adm-b", "nodes": [n("x"), n("y"), n("b1")], "edges": [["x", "y", {"Class": "connects", "Name": "b"}], ["y", "b1", {"Class": "connects"}]]}
    c = {"id": "adm-c", "nodes": [n("x"), n("b1")], "edges": [["x", "b1", {"Class": "connects"}]]}
    return [a, b, c]


def check_everything(res, family, ops):
    """Every oracle clause that can be evaluated on one history and on what can be derived from it: the history itself,
    every prefix ending in a merge followed by the unmerge of that model, all merge orders of the family."""
    ops = [tuple(o) for o in ops]
    run_history(res, family, ops)
    merges = [o[1] for o in ops if o[0] == "merge"]
    if len(family) <= 4:
        check_permutations(res, family)
    for i in sorted(set(merges)):
        others = [j for j in range(len(family)) if j != i]
        for m in range(len(others) + 1):
            check_inverse(res, family, others[:m], i)
            for e in [o for o in ops if o[0] == "edit" and o[1] == i][:2]:
                check_inverse(res, family, others[:m], i, edit=e)
            # merge everything, unmerge i: elements only i contributed go, the others' stay (provenance bookkeeping)
        run_history(res, family, [("merge", j) for j in others] + [("merge", i), ("unmerge", i)] + [("unmerge", j) for j in others])
        run_history(res, family, [("merge", i)] + [("merge", j) for j in others] + [("unmerge", i)])


def search(ctx, res, broken):
    # 1. the histories on which implementation and model differ, through the property oracle
    for link, detail in broken:
        if link == "correspondence" and isinstance(detail, list):
            for d in detail:
                c = d.get("case") or {}
                if c.get("family") and c.get("ops") is not None:
                    check_everything(res, c["family"], c["ops"])
                    res.count("search:correspondence-history")
    L.fresh_store()
    if res.violations:
        return
    # 2. the generators with a larger budget
    oracle(ctx, res, nfam=ctx.scale(200, 1200), nhist=ctx.scale(600, 4000))


def replay(ctx, payload):
    from core import Result
    r = Result()
    c = payload["case"]
    fam = c["family"]
    if c.get("ops") is None:
        check_permutations(r, fam)
    else:
        ops = [tuple(o) for o in c["ops"]]
        run_history(r, fam, ops)
        if all(o[0] == "merge" for o in ops):
            check_permutations(r, fam)
        if len(ops) >= 2 and ops[-1][0] == "unmerge" and ops[-2] == ("merge", ops[-1][1]):
            check_inverse(r, fam, [o[1] for o in ops[:-2]], ops[-1][1])
        if len(ops) >= 3 and ops[-1][0] == "unmerge" and ops[-2][0] == "edit" and ops[-3] == ("merge", ops[-1][1]):
            check_inverse(r, fam, [o[1] for o in ops[:-3]], ops[-1][1], edit=ops[-2])
    L.fresh_store()
    sig = payload.get("signature")
    for v in r.violations:
        print("  ", v["signature"], v["what"])
    return any(v["signature"] == sig for v in r.violations) if sig else bool(r.violations)
