"""C08 - removal and disconnection delete exactly the owned structure and nothing else; the handles
used report the same interfaces as a fresh lookup afterwards."""
import glob
import json
import os

from core import LeanDriver, canon, CORPUS_DIR
from gen import removalplan

ID = "C08"
GENERATORS = [removalplan.generate, removalplan.generate_probe]
LEAN_MODULES = ["FimVerif.Proofs.C08"]
P = "FimVerif.C08."
THEOREMS = [P + t for t in (
    "remove_frame", "deleteAll_minus", "mem_cpDel", "removeCp_exact", "removeNs_exact", "removeComp_exact",
    "removeNodeG_exact", "removeLinkG_exact", "removeLink_exact", "removeNsApi_exact", "removeNodeApi_exact", "removeFacilityApi_exact", "removeSwitchApi_exact",
    "removeComponentApi_exact", "remove_exact_ns", "remove_exact_comp", "remove_exact_nodeG", "remove_exact_node",
    "remove_exact_facility", "remove_exact_switch", "remove_exact_component", "remove_exact_service", "remove_exact_link",
    "remove_exact_child", "prune_exact", "prune_sound", "prune_covers_partial", "removeCp_after_general", "removeNs_exact_general_partial", "handle_fresh_disconnect", "handle_disconnect_entries", "handle_fresh_removeChild", "handle_fresh_unpeer",
    # wave 3: from the single well-formedness predicate WF (no separation hypotheses, links with any number of ends)
    "remove_node_exact_wf", "remove_facility_exact_wf", "remove_switch_exact_wf", "remove_component_exact_wf",
    "remove_service_exact_wf", "remove_link_exact_wf", "remove_child_exact_wf", "disconnect_exact_wf", "unpeer_exact_wf",
    "prune_exact_wf", "remove_after_wf", "handle_fresh_disconnect_wf", "handle_fresh_removeChild_wf", "handle_fresh_unpeer_wf",
    # names and the collection phase of prune
    "lookup_spec", "remove_byName", "remove_byName_child", "remove_node_absent_name", "prune_collect_sound", "prune_collect_complete", "prune_api_exact",
    # the generated plans: the model the driver runs is the model the theorems are about
    "plan_bridge", "plan_facts", "remove_interface_exact_wf", "remove_interface_byName",
    # round 5: after a rename no other name denotes the element; what a lookup finds carries the name now
    "findChild_rename_ne", "findChild_rename_spec", "findByName_rename_ne",
    # round 7: a surviving element keeps class, kind and its whole property payload - after one call and after any sequence
    "survivor_unchanged", "survivor_unchanged_seq",
    # the catalog probe: the entry points that remove a component leave nothing of the peering behind for ANY model with ports
    "catalog_removal_clean", "service_properties_kept",
    # round 8: a node that owns several services with equal-named interfaces (names are unique per service only)
    "own_services_removal_clean",
)]
TRUSTED_BASE = [
    "Model/Remove.lean mirrors by hand the bodies of remove_cp_and_links, Interface.get_peers, find_peer_connection_points, "
    "NetworkService.disconnect_interface / unpeer (peering search), Topology._disconnect_interfaces and the interface-list properties; "
    "which helper every removal call invokes, in which order, with which delete_parent, the length tests of remove_cp_and_links, "
    "the argument shape of _disconnect_interfaces and the loops of prune are NOT hand-mirrored: gen/removalplan.py regenerates them "
    "from the AST on every run, the driver runs their interpretation (Model/RemovePlan.lean) and plan_bridge ties it to the "
    "functions the theorems are about",
    "Model/RemoveNames.lean mirrors by hand the name lookups (find_node_by_name: none/several raise; find_*_by_name under a parent: "
    "first neighbour; name-keyed dictionaries: last wins) and the collection phase of prune; checked differentially on every "
    "by-name call, including names that resolve to nothing, to another class, to several elements",
    "rename / the name setter modelled as Dir.rename (the Name of one element changes); the model keeps no lookup index, histories reach it "
    "as the names that hold after them",
    "networkx Graph.remove_node (node and incident edges disappear) modelled by G.minus; delete_node of the element itself right after "
    "its class check modelled as unconditional; Python set iteration order modelled by list order (the theorems hold for every order); "
    "neighbour order = edge-list order (observable only with equal sibling names, which the API refuses)",
    "only the NetworkX backend runs offline; the removal functions live in ABCPropertyGraph and use only its abstract queries",
    "well-formedness WF (and NamesOK for the by-name theorems) is a decidable predicate evaluated by the driver on every case; that every "
    "topology reachable through the building API satisfies it is C07's invariant, not proved here",
]
ASSUMPTIONS = [
    "ExperimentTopology (connect_interface / peer / prune) and SubstrateTopology (caller-supplied node ids, services of nodes with their "
    "own interfaces, explicit links, NetworkService.remove_interface) on the NetworkX store",
    "no explicit link has two ends in one interface family (a port and its sub-interfaces) - there remove_cp_and_links counts the ends "
    "once for the whole family; no link joins a ServicePort other than the one created by connect_interface()/peer() (both in WF)",
    "elements addressed through Topology-level calls carry names unique in their class (C07's invariant); an ambiguous name must raise",
]
RULE = ("every applicable removal / disconnect / un-peer / remove-child / remove-interface / prune on topologies built through the public API "
        "from seeded recipes (1-4 nodes, NICs with 1-2 ports, sub-interfaces, facility with 1-3 interfaces, switch, 1-3 services owned directly by a "
        "node / a switch with equal-named ports (p1 in each) connected like any other interface, 0-3 services with connected "
        "interfaces, peerings, explicit links of every LinkType with 1-4 ends, reservation marks; names plain / reused / prefix-related / equal across classes; "
        "generated or caller-supplied prefix-related node ids; experiment and substrate flavour), each sent to the model by id and by name, plus "
        "calls whose name resolves to nothing / another class / a node of the wrong kind; histories (by-name lookups through fresh and kept "
        "handles incl. refused duplicate adds, rename()/name setter of every kind of element, the freed name taken by a new sibling or by a "
        "renamed sibling, further lookups) followed by every by-name call, each on a topology built afresh; non-trivial = the topology has a service with a "
        "connected interface and the operation deletes at least one element; distinct by (canonical graph, operation)")

LEAN_OP = {"remove_interface": "remove_interface", "remove_node": "remove_node", "remove_switch": "remove_switch", "remove_facility": "remove_facility",
           "remove_component": "remove_component", "remove_storage": "remove_component", "node_remove_ns": "remove_ns", "remove_network_service": "remove_ns",
           "remove_link": "remove_link", "disconnect": "disconnect", "unpeer": "unpeer", "remove_child": "remove_child",
           "prune": "prune", "g_remove_ns": "g_remove_ns", "g_remove_link": "g_remove_link", "g_remove_cp": "g_remove_cp", "g_remove_comp": "g_remove_comp", "g_remove_node": "g_remove_node"}


def corpus_cases():
    out = []
    for fn in sorted(glob.glob(os.path.join(CORPUS_DIR, ID, "*.json"))):
        with open(fn) as f:
            d = json.load(f)
        out.append((d["recipe"], d.get("ops")))
    return out


def recipes(ctx, tag, n):
    import lib_c08 as L
    rng = ctx.sub_rng(tag)
    rs = corpus_cases() + [(r, None) for r in L.corner_recipes()]
    rs += [(L.gen_recipe(rng), None) for _ in range(n)]
    # substrate flavour: supplied prefix-related node ids, services of nodes with their own interfaces, remove_interface
    rs += [(L.gen_substrate_recipe(rng), None) for _ in range(max(2, n // 5))]
    # histories: by-name lookups, renames of every kind of element, re-use of the freed names, then the by-name operations
    rs += [(r, None) for r in L.history_corner_recipes()]
    hrng = ctx.sub_rng(tag + "-history")
    rs += [(L.gen_history_recipe(hrng), None) for _ in range(max(4, n // 4))]
    return rs


BYNAME_CALLS = ("remove_node", "remove_switch", "remove_facility", "remove_component", "remove_storage", "node_remove_ns",
                "remove_network_service", "remove_link", "remove_child", "remove_interface")


def run_recipe(recipe, only_ops=None, graph_level=True, per_call=True):
    """Build the topology once, apply every operation to its own restored copy.
    Returns a list of records (one per operation)."""
    import lib_c08 as L
    raw = recipe
    if L.has_history(raw) and per_call and (only_ops is None or len(only_ops) > 1):
        # a history is judged call by call on a topology built afresh (the sequence lookup .. rename .. re-use .. removal is
        # then exactly what the implementation saw; restoring the store under it would keep whatever the lookups left behind
        # in objects, but not what a removal did to it)
        eff = L.effective(raw)
        ops = only_ops if only_ops is not None else L.enumerate_ops(eff) + L.enumerate_name_ops(eff)
        out = []
        byname = [op for op in ops if op[0] in BYNAME_CALLS and op[-1] != "__absent__"]
        for op in byname:
            out.extend(run_recipe(raw, [op], graph_level=False))
        rest = [op for op in ops if op not in byname]
        if rest:
            # calls through handles / names that resolve to nothing: one topology, restored before each call
            out.extend(run_recipe(raw, rest, graph_level=False, per_call=False))
        return out
    try:
        b = L.build(raw)
    except Exception as e:
        if L.has_history(raw):
            return [{"op": ["build"], "recipe": raw, "skip": "history does not build: %s" % type(e).__name__}]
        raise
    # everything below reads the names the elements carry now
    recipe = L.effective(raw)
    out = []
    try:
        s0 = L.Snap(b.t)
        sv = L.save(b)
        ops = only_ops if only_ops is not None else L.enumerate_ops(recipe) + L.enumerate_name_ops(recipe)
        if graph_level and only_ops is None:
            for c in sorted(s0.nodes):
                if s0.nodes[c][0] == "ConnectionPoint":
                    ops.append(["g_remove_cp", c, 1])
                    ops.append(["g_remove_cp", c, 0])
                elif s0.nodes[c][0] == "NetworkService":
                    ops.append(["g_remove_ns", c])
                elif s0.nodes[c][0] == "Link":
                    ops.append(["g_remove_link", c])
                elif s0.nodes[c][0] == "Component":
                    ops.append(["g_remove_comp", c])
                elif s0.nodes[c][0] == "NetworkNode":
                    ops.append(["g_remove_node", c])
        inv = {v: k for k, v in s0.ranks.items()}
        wn, we = s0.wire_nodes(), s0.wire_edges()
        wn5 = wire_nodes5(L, s0)
        has_conn = any(st[0] in ("service", "connect") and st[2] for st in recipe)
        rfeats = recipe_features(L, recipe, s0)
        for op in ops:
            L.restore(b, sv)
            rec = {"op": op, "recipe": raw, "has_conn": has_conn}
            if b.lookups:
                rec["history"] = True
            # --- what the property demands, and the requests for the model (all from the pre-state only)
            try:
                if op[0].startswith("g_"):
                    rec["expected"], rec["must"] = None, True
                else:
                    exp, must = L.expected_deleted(b, s0, op, recipe)
                    rec["expected"], rec["must"] = sorted(exp), must
            except (KeyError, IndexError):
                if len(op) > 1 and op[-1] == "__absent__" or op[0] in BYNAME_ONLY:
                    # a name that resolves to nothing: the call must fail and change nothing
                    rec["expected"], rec["must"] = [], False
                else:
                    rec["skip"] = "names an element that does not exist"
                    out.append(rec)
                    continue
            try:
                rec["lean"] = None if op[0] in BYNAME_ONLY else lean_request(L, b, s0, op, recipe, wn, we)
            except (KeyError, IndexError):
                rec["lean"] = None
            try:
                rec["lean_n"] = lean_request_byname(L, b, s0, op, recipe, wn5, we)
            except (KeyError, IndexError):
                rec["lean_n"] = None
            if rec["lean"] is None and rec["lean_n"] is None and not op[0].startswith("x_"):
                rec["skip"] = "names an element that does not exist"
                out.append(rec)
                continue
            L.restore(b, sv)
            # --- the implementation
            if op[0] == "g_remove_cp":
                st = graph_call(b.t.graph_model.remove_cp_and_links, node_id=inv[op[1]], delete_parent=bool(op[2]))
                hs = L.Handles()
            elif op[0] == "g_remove_ns":
                st = graph_call(b.t.graph_model.remove_ns_with_cps_and_links, node_id=inv[op[1]])
                hs = L.Handles()
            elif op[0] == "g_remove_link":
                st = graph_call(b.t.graph_model.remove_network_link, node_id=inv[op[1]])
                hs = L.Handles()
            elif op[0] == "g_remove_comp":
                st = graph_call(b.t.graph_model.remove_component_with_nss_cps_and_links, node_id=inv[op[1]])
                hs = L.Handles()
            elif op[0] == "g_remove_node":
                st = graph_call(b.t.graph_model.remove_network_node_with_components_nss_cps_and_links, node_id=inv[op[1]])
                hs = L.Handles()
            else:
                st, hs = L.run_op(b, [o for o in op if o != "__absent__"], s0)
            s1 = L.Snap(b.t, s0.ranks)
            deleted = sorted(set(s0.nodes) - set(s1.nodes))
            dset = set(deleted)
            frame = (not (set(s1.nodes) - set(s0.nodes))
                     and all(s1.nodes[c] == s0.nodes[c] for c in s1.nodes)
                     and s1.edges == {e for e in s0.edges if e[0] not in dset and e[1] not in dset})
            rec.update(status=st, deleted=deleted, frame=frame, kinds={c: (s0.nodes[c][1] or s0.nodes[c][0]) for c in s0.nodes})
            rec["feats"] = sorted(rfeats | op_features(L, rec, s0)) if not op[0].startswith("g_") else []
            hl = []
            for lab, h, fresh in hs.items:
                try:
                    used = sorted(s0.ranks[i.node_id] for i in h.interface_list)
                    used_pairs = hpairs(s0, h.interface_list)
                except Exception as e:
                    used = used_pairs = "error:" + type(e).__name__
                try:
                    fr = sorted(s0.ranks[i.node_id] for i in fresh().interface_list) if st == "ok" else None
                except Exception as e:
                    fr = "error:" + type(e).__name__
                hl.append((lab, used, fr, used_pairs))
            rec["handles"] = hl
            out.append(rec)
    finally:
        L.dispose(b)
    return out


def recipe_features(L, recipe, s0):
    """The shapes the task singles out, recognised on the built topology (printed as a distribution in the evidence)."""
    f = set()
    steps = {}
    for st in recipe:
        steps.setdefault(st[0], []).append(st)
    used = [x for st in steps.get("service", []) for x in st[2]] + [st[2] for st in steps.get("connect", [])]
    if steps.get("peer"):
        f.add("peered-services")
        if len(steps.get("node", [])) >= 3 and len(steps.get("service", [])) >= 2:
            f.add("peered-services-in-a-large-topology")
    if any(x[0] == "c" for x in used):
        f.add("sub-interface-connected-to-service")
    kids = {(st[1], st[2], st[3]) for st in steps.get("child", [])}
    if any(x[0] == "n" and (x[1], x[2], x[3]) in kids for x in used):
        f.add("port-with-sub-interfaces-connected-to-service")
    adj = s0.adj()
    for c, v in s0.nodes.items():
        if v[0] == "Link" and len(L.link_ends(s0, c, adj)) >= 3:
            f.add("link-with-3+-ends")
            f.add("link-with-%d-ends:%s" % (min(len(L.link_ends(s0, c, adj)), 4), v[1]))
        elif v[0] == "Link" and len(L.link_ends(s0, c, adj)) == 2 and not any(s0.nodes[e][1] == "ServicePort" for e in L.link_ends(s0, c, adj)):
            f.add("link-with-2-ends:%s" % v[1])
    for st in steps.get("facility", []):
        conn = [x for x in used if x[0] == "f" and x[1] == st[1]]
        if st[3] >= 2 and 0 < len(conn) < st[3]:
            f.add("facility-some-interfaces-connected-some-not")
        if st[3] >= 3:
            f.add("facility-3-interfaces")
    names = {}
    for c, v in s0.nodes.items():
        if v[2] is not None:
            names.setdefault(v[2], set()).add(v[0])
    if any(len(cl) > 1 for cl in names.values()):
        f.add("same-name-in-different-classes")
    nl = sorted(names)
    if any(b.startswith(a) and a != b for a in nl for b in nl):
        f.add("name-is-prefix-of-another")
    if any(st[0] == "opts" and st[1].get("ids") for st in recipe):
        f.add("caller-supplied-prefix-related-ids")
    return f


def op_features(L, rec, s0):
    f = set()
    exp = set(rec.get("expected") or [])
    adj = s0.adj()
    for c, v in s0.nodes.items():
        if v[0] == "Link":
            E = L.link_ends(s0, c, adj)
            if len(E) >= 3 and len(E & exp) >= 2:
                f.add("shared-link-with-2+-ends-inside-the-removed")
    names = {c: v[2] for c, v in s0.nodes.items()}
    roots = [c for c in exp if True]
    op = rec["op"]
    if len(op) > 1 and isinstance(op[-1], str) and op[-1] != "__absent__":
        nm = op[-1]
        if any(n and n != nm and n.startswith(nm) for n in names.values()):
            f.add("removed-by-a-name-that-is-a-prefix-of-another")
        if sum(1 for n in names.values() if n == nm) > 1:
            f.add("removed-by-a-name-shared-with-another-element")
    return f


def graph_call(fn, **kw):
    from core import err_kind
    try:
        fn(**kw)
        return "ok"
    except Exception as e:
        return err_kind(e)


def lean_request(L, b, s0, op, recipe, wn, we):
    k = op[0]
    if k not in LEAN_OP:
        return None
    R = s0.ranks
    args, h1, h2, lists = [], [], [], []
    if k in ("g_remove_cp",):
        args = [op[1], op[2]]
    elif k in ("g_remove_comp", "g_remove_node", "g_remove_ns", "g_remove_link"):
        args = [op[1]]
    elif k == "disconnect":
        s = b.svc[op[1]]
        args = [R[s.node_id], R[L.resolve_if(b, op[2]).node_id]]
        h1 = hpairs(s0, s._interfaces)
    elif k == "unpeer":
        s, s2 = b.svc[op[1]], b.svc[op[2]]
        args = [R[s.node_id], R[s2.node_id]]
        h1 = hpairs(s0, s._interfaces)
        h2 = hpairs(s0, s2._interfaces)
    elif k == "remove_child":
        p = L.resolve_if(b, op[1])
        args = [R[p.node_id], R[p.interfaces[op[2]].node_id]]
        h1 = hpairs(s0, p._interfaces)
    elif k == "remove_interface":
        s = b.t.nodes[op[1]].network_services[op[2]]
        args = [R[s.node_id], R[s.interface_list[op[3]].node_id]]
        h1 = hpairs(s0, s._interfaces)
    elif k == "prune":
        roots = {"node": [], "comp": [], "service": [], "iface": []}
        for st in recipe:
            if st[0] == "mark":
                roots[st[1]].append(L.roots_of(b, s0, ["prune"], [st])[0][0])
        lists = [roots["node"], roots["comp"], roots["service"], roots["iface"]]
    else:
        roots, ok = L.roots_of(b, s0, op, recipe)
        if not roots:
            raise KeyError(op)
        args = roots[:1]
    return [LEAN_OP[k], wn, we, args, h1, h2, lists]


BYNAME_ONLY = ()


def is_marked(props):
    import lib_c08 as L
    for k, v in props:
        if k == "ReservationInfo":
            try:
                return json.loads(v).get("reservation_state") == L.PRUNE_STATE
            except ValueError:
                return False
    return False


def wire_nodes5(L, s0):
    """[cid, class, kind, name code, marked]: what the by-name model reads besides the structure."""
    out = []
    for row in s0.wire_nodes():
        c = row[0]
        out.append(row + [name_code(s0, s0.nodes[c][2]), 1 if is_marked(s0.nodes[c][3]) else 0])
    return out


def lean_request_byname(L, b, s0, op, recipe, wn5, we):
    """The same call addressed the way the user addresses it: by name (and through the handle of the parent)."""
    op = [o for o in op if o != "__absent__"]
    k = op[0]
    R = s0.ranks
    t = b.t
    h1 = []
    if k in ("remove_node", "remove_switch", "remove_facility", "remove_network_service", "remove_link"):
        if op[1] is None:
            return None
        lk = {"remove_node": "n_remove_node", "remove_switch": "n_remove_switch", "remove_facility": "n_remove_facility",
              "remove_network_service": "n_remove_ns", "remove_link": "n_remove_link"}[k]
        args = [name_code(s0, op[1])]
    elif k in ("remove_component", "remove_storage"):
        lk, args = "n_node_remove_component", [R[t.nodes[op[1]].node_id], name_code(s0, op[2])]
    elif k == "node_remove_ns":
        n = t.facilities[op[1][1]] if op[1][0] == "fac" else t.nodes[op[1][1]]
        lk, args = "n_node_remove_ns", [R[n.node_id], name_code(s0, op[2])]
    elif k == "remove_child":
        p = L.resolve_if(b, op[1])
        lk, args, h1 = "n_remove_child", [R[p.node_id], name_code(s0, op[2])], hpairs(s0, p._interfaces)
    elif k == "remove_interface":
        s = t.nodes[op[1]].network_services[op[2]]
        lk, args, h1 = "n_remove_interface", [R[s.node_id], name_code(s0, s.interface_list[op[3]].name)], hpairs(s0, s._interfaces)
    elif k == "prune":
        lk, args = "n_prune", []
    else:
        return None
    return [lk, wn5, we, args, h1, [], []]


def name_code(s0, name):
    """Stable small integer for an interface name (names may coincide: that is the point)."""
    names = sorted({v[2] for v in s0.nodes.values() if v[2] is not None})
    return names.index(name) if name in names else len(names)


def hpairs(s0, interfaces):
    """A handle's cached list as sorted [canonical id, name code] pairs."""
    return sorted([s0.ranks[i.node_id], name_code(s0, i.name)] for i in interfaces)


def impl_reply(rec):
    if rec["status"] != "ok":
        return ["err", rec["status"]]
    d = {"deleted": rec["deleted"], "frame": rec["frame"], "h1": [], "h2": [], "f1": [], "f2": []}
    for (lab, used, fr, pairs), (hk, fk) in zip(rec["handles"], (("h1", "f1"), ("h2", "f2"))):
        if lab in ("service", "other", "interface"):
            d[hk], d[fk] = pairs, fr
    return ["ok", d]


def all_runs(ctx, tag, n):
    key = "_c08_" + tag
    if not hasattr(ctx, key):
        recs = []
        for r, ops in recipes(ctx, tag, n):
            recs.extend(run_recipe(r, ops))
        setattr(ctx, key, recs)
    return getattr(ctx, key)


def correspondence(ctx, res, n=None):
    recs = [r for r in all_runs(ctx, "run", n or ctx.scale(20, 200)) if not r.get("skip") and (r.get("lean") or r.get("lean_n"))]
    lines, owner = [], []
    for r in recs:
        for key in ("lean", "lean_n"):
            if r.get(key):
                lines.append(json.dumps(r[key]))
                owner.append((r, key))
    model = LeanDriver("C08").run(lines)
    for (r, key), m in zip(owner, model):
        res.evaluations += 1
        res.count(("op:" if key == "lean" else "by-name:") + r["op"][0])
        i = impl_reply(r)
        m = json.loads(m)
        if m[0] == "ok":
            hyp = m[1].pop("hyp", None)
            hyp2 = m[1].pop("hyp2", None)
            wf = m[1].pop("wf", None)
            coll = m[1].pop("collected", None)
            if coll is not None:
                # what the model's collection phase gathered against the marks put on by the recipe
                want = [sorted(x) for x in r["lean"][6]] if r.get("lean") else None
                res.count("prune-collected-%s" % ("agrees" if want == coll else "DIFFERS"))
                if want is not None and want != coll:
                    res.disagreements.append({"case": {"recipe": r["recipe"], "op": r["op"]}, "impl": ["collected", want], "model": ["collected", coll]})
            if wf is not None and i[0] == "ok" and r.get("must"):
                # the (single) hypothesis of the wave-3 exactness / handle theorems on this pre-state
                # (for a by-name request: WF and NamesOK, the hypotheses of the by-name theorems)
                res.count("%s-hypothesis-%s:%s" % ("WF" if key == "lean" else "WF+NamesOK", "holds" if wf else "FAILS", r[key][0]))
                if not wf and len(ctx.notes) < 5:
                    ctx.notes.append("%s false on %s" % (key, canon({"recipe": r["recipe"], "op": r["op"]})[:400]))
            if hyp2 is not None:
                res.count("general-theorem-%s:%s" % ("holds" if hyp2 else "FAILS", r["lean"][0]))
            if hyp is not None:
                # hypothesis of the older closed-form theorems (superseded by WF; kept as a cross-check of the closed forms)
                res.count("separation-hypothesis-%s:%s" % ("holds" if hyp else "fails", r["lean"][0]))
        if i[0] == "err":
            res.count("err:" + i[1])
        elif r["deleted"] and key == "lean":
            res.count("deletes")
            if r["has_conn"]:
                res.nontrivial.add(canon([r["lean"][1], r["lean"][2], r["op"][0], r["lean"][3:]]))
        if m != i:
            res.disagreements.append({"case": {"recipe": r["recipe"], "op": r["op"], "request": key}, "impl": i, "model": m})
    for r in recs[3:5]:
        res.sample({"op": r["op"], "impl": impl_reply(r)})


def judge(rec, res):
    """The property itself on one recorded run of the implementation."""
    op = rec["op"]
    if rec.get("skip") or op[0].startswith("g_"):
        return
    case = {"recipe": rec["recipe"], "ops": [op]}
    kinds = rec["kinds"]

    def bad(what, text, **kw):
        res.violation("C08:%s:%s" % (op[0], what), text, case, **kw)
    st, deleted, exp = rec["status"], set(rec["deleted"]), set(rec["expected"])
    if st != "ok":
        if deleted or not rec["frame"]:
            bad("failed-but-mutated", "%s raised %s after changing the model" % (op[0], st), observed=sorted(deleted))
        elif rec["must"]:
            bad("raised:" + st, "%s raised %s on an applicable element" % (op[0], st))
        return
    if not rec["must"]:
        if deleted or not rec["frame"]:
            bad("should-fail", "%s is not applicable here but changed the model" % op[0], observed=sorted(deleted))
        return
    if not rec["frame"]:
        bad("frame", "a surviving element, property or connection changed")
    miss, extra = exp - deleted, deleted - exp
    if extra:
        bad("extra:" + ",".join(sorted({kinds[c] for c in extra})), "deleted elements outside the owned structure",
            expected=sorted(exp), observed=sorted(deleted))
    if miss:
        mk = sorted({kinds[c] for c in miss})
        what = "orphan-service-port" if mk == ["ServicePort"] else "missing:" + ",".join(mk)
        bad(what, "part of the owned structure / peering artefacts survives", expected=sorted(exp), observed=sorted(deleted))
    for lab, used, fr, _pairs in rec["handles"]:
        if lab == "node":
            continue
        if used != fr:
            bad("handle:" + lab, "the %s handle used reports other interfaces than a fresh lookup" % lab, expected=fr, observed=used)


def oracle(ctx, res, n=None):
    recs = all_runs(ctx, "run", n or ctx.scale(20, 200))
    for r in recs:
        if r.get("skip"):
            res.count("skipped")
            continue
        res.evaluations += 1
        res.count("op:" + r["op"][0])
        if r.get("status") == "ok" and r["deleted"] and r["has_conn"]:
            res.nontrivial.add(canon([r["recipe"], r["op"]]))
        if r.get("status") == "ok" and r["deleted"]:
            # distribution of the shapes singled out in the plan, over the successful removals judged
            for ft in r.get("feats", []):
                res.count("feature:" + ft)
        judge(r, res)
    good = [r for r in recs if not r.get("skip") and r.get("status") == "ok" and r["deleted"]]
    for r in good[:2]:
        res.sample({"op": r["op"], "deleted": r["deleted"], "expected": r["expected"]})


def search(ctx, res, broken):
    recs = all_runs(ctx, "search", ctx.scale(150, 600))
    for r in recs:
        if not r.get("skip"):
            res.evaluations += 1
            judge(r, res)


def replay(ctx, payload):
    from core import Result
    r = Result()
    c = payload["case"]
    for rec in run_recipe(c["recipe"], [list(o) for o in c["ops"]]):
        judge(rec, r)
    for v in r.violations:
        print("  ", v["signature"], v["what"])
    want = payload.get("signature")
    return any(v["signature"] == want for v in r.violations) if want else bool(r.violations)
