"""C19 - persistent-backend (Neo4j) statements are well-formed and data-independent.

Everything stops at the driver boundary: the real backend classes run against the recording stand-in of
lib_fake_neo4j, and what they hand to `session.run` is compared (a) with the Lean rendering of the template
the translator extracted for that call site and (b), independently, against the property itself.
"""
import glob
import itertools
import json
import os
import re

from core import LeanDriver, err_kind, canon, CORPUS_DIR, Result
from gen import cypher
import lib_fake_neo4j as fake

ID = "C19"
GENERATORS = [cypher.generate]
LEAN_MODULES = ["FimVerif.Proofs.C19"]
P = "FimVerif.C19."
# one `_value_free` theorem per call site whose template has no value piece, one `_value_dependent_counterexample` per call site
# that interpolates a stored value today (the known findings)
VALUE_FREE_SITES = [
    "Neo4jPropertyGraph__validate_graph_s0", "Neo4jPropertyGraph_delete_graph_s0",
    "Neo4jPropertyGraph_get_all_nodes_by_class_s0", "Neo4jPropertyGraph_get_all_nodes_by_class_and_type_s0",
    "Neo4jPropertyGraph_list_all_node_ids_s0", "Neo4jPropertyGraph_get_node_properties_s0",
    "Neo4jPropertyGraph_get_link_properties_s0", "Neo4jPropertyGraph_update_node_property_s0",
    "Neo4jPropertyGraph_unset_node_property_s0", "Neo4jPropertyGraph_update_nodes_property_s0",
    "Neo4jPropertyGraph_update_link_property_s0", "Neo4jPropertyGraph_unset_link_property_s0",
    "Neo4jPropertyGraph_graph_exists_s0", "Neo4jPropertyGraph_get_nodes_on_shortest_path_s0",
    "Neo4jPropertyGraph_get_nodes_on_path_with_hops_s0", "Neo4jPropertyGraph_get_first_neighbor_s0",
    "Neo4jPropertyGraph_get_first_and_second_neighbor_s0", "Neo4jPropertyGraph_delete_node_s0",
    "Neo4jPropertyGraph_node_exists_s0", "Neo4jPropertyGraph_find_matching_nodes_s0", "Neo4jPropertyGraph_merge_nodes_s0",
    "Neo4jPropertyGraph_get_stitch_nodes_s0", "Neo4jPropertyGraph_check_node_unique_s0",
    "Neo4jPropertyGraph_get_graph_diff_s0", "Neo4jPropertyGraph_get_graph_property_diff_s0",
    "Neo4jGraphImporter__add_indexes_s0", "Neo4jGraphImporter__import_graph_s0", "Neo4jGraphImporter__import_graph_s1",
    "Neo4jGraphImporter_delete_all_graphs_s0", "Neo4jGraphImporter_delete_graph_s0", "Neo4jCBMGraph_get_intersite_links_s0",
    "Neo4jCBMGraph_get_sites_s0", "Neo4jCBMGraph_get_disconnected_sites_s0", "Neo4jCBMGraph_get_connected_sites_s0",
    "Neo4jCBMGraph_get_facility_ports_s0", "Neo4jASM_check_node_name_s0", "Neo4jASM_find_node_by_name_s0"]
VALUE_DEPENDENT_SITES = [
    "Neo4jPropertyGraph_update_node_properties_s0", "Neo4jPropertyGraph_update_link_properties_s0",
    "Neo4jPropertyGraph_add_node_s0", "Neo4jPropertyGraph_add_link_s0", "Neo4jPropertyGraph_serialize_graph_s0",
    "Neo4jPropertyGraph_serialize_graph_s1", "Neo4jCBMGraph_get_matching_nodes_with_components_s0"]
THEOREMS = [P + t for t in (
    ["no_value_piece_data_independent", "value_free_text_depends_only_on_identifiers", "wellformed_extends_to_all_values",
     "all_sites_classified", "value_free_except_listed", "data_independent_except_listed", "params_supplied",
     "wellformed_canonical", "wellformed_all_values_except_listed", "injection_rewrites_statement", "leaked_values_exact",
     "leaks_nil_of_value_free_atom", "data_independent_up_to_leaks_partial", "wellformed_empty_containers",
     "get_matching_nodes_empty_props_wellformed"]
    + [s + "_value_free" for s in VALUE_FREE_SITES]
    + [s + "_value_dependent_counterexample" for s in VALUE_DEPENDENT_SITES])]
TRUSTED_BASE = [
    "gen/cypher.py: symbolic evaluation of the string constructions reaching session.run in the five neo4j_*.py modules "
    "(idioms listed in its docstring) and the role table (which method parameters are identifiers, which are values)",
    "Model/Cypher.lean `render` models Python f-string/str()/join/slice semantics on code points; checked by text equality with the "
    "statements recorded at the stand-in driver",
    "`checkStmt` is a token-level lint (balanced brackets/quotes, no {{ }} {name}, $names supplied, variables bound by a pattern / AS / "
    "YIELD / UNWIND / comprehension IN THEIR SCOPE - WITH at depth 0 keeps only what it lists or aliases, UNION starts from nothing - "
    "clause keywords and boolean operators followed by an operand, no dangling comma), not a Cypher parser; CALL { } subqueries are not "
    "scoped; `{}` and `()` are accepted (valid Cypher); two implementations (Lean, Python) are compared on every recorded statement",
    "harness/lib_fake_neo4j.py replaces the neo4j driver (canned answers only let each operation run to its end); the oracle names a "
    "call site Class.method#k from the backend frame that called run() and its own ast scan, independently of the translator; "
    "Neo4j/APOC execution is not modelled at all",
    "grouping of requested components into (type, model, count) rows is done by the harness mirroring neo4j_cbm.py:285-294 and is "
    "checked only through the text comparison; str() of non-string property values is taken from Python",
]
ASSUMPTIONS = [
    "identifier arguments (class, relation, property names, merge behaviours, component types) come from the library's own vocabularies; "
    "integer counts computed by the backend are part of the query shape, not stored values",
    "well-formedness is the four conditions named by the property, decided by the lint on every operation x identifier choice "
    "(enumerated, not proved for arbitrary identifiers)",
]
RULE = ("(call site, identifier choice, value assignment): every backend call x identifiers from the generated vocabularies (all single-slot "
        "choices; multi-slot sampled in quick, exhaustive in thorough) x adversarial values (quotes, backslashes, braces, $, newlines, "
        "Cypher keywords, non-ASCII); non-trivial = some value contains a metacharacter; distinct by canonical case")

# ------------------------------------------------------------------------------------------------------------
# the property's lint, written independently of Model/Cypher.lean from the same specification

KEYWORDS = set("""match optional where return with as call yield set remove detach delete unwind union and or not in is null true
false distinct create merge order by limit skip on xor starts ends contains case when then else end exists all any none single asc
desc foreach index if for""".split())


def _ids(c):
    return ("a" <= c <= "z") or ("A" <= c <= "Z") or c == "_"


def _dig(c):
    return "0" <= c <= "9"


def _idc(c):
    return _ids(c) or _dig(c)


def _lower(s):
    return "".join(chr(ord(c) + 32) if "A" <= c <= "Z" else c for c in s)


def lex(text):
    """-> (tokens, stripped, closed, literals); tokens are ('id',s) ('num',) ('str',) ('par',s) ('sym',c)"""
    toks, st, lits = [], [], []
    i, n = 0, len(text)
    while i < n:
        c = text[i]
        if c in "'\"`":
            j = i + 1
            while j < n and text[j] != c:
                j += 2 if (text[j] == "\\" and c != "`") else 1
            toks.append(("str",))
            if j >= n:
                return toks, "".join(st), False, lits
            lits.append((c, text[i + 1:j]))
            st.append(c + c)
            i = j + 1
        elif c == "/" and i + 1 < n and text[i + 1] == "/":
            while i < n and text[i] != "\n":
                i += 1
        elif c in " \t\n\r":
            st.append(c)
            i += 1
        elif c == "$" and i + 1 < n and _ids(text[i + 1]):
            j = i + 1
            while j < n and _idc(text[j]):
                j += 1
            toks.append(("par", text[i + 1:j]))
            st.append(text[i:j])
            i = j
        elif _ids(c):
            j = i + 1
            while j < n and _idc(text[j]):
                j += 1
            toks.append(("id", text[i:j]))
            st.append(text[i:j])
            i = j
        elif _dig(c):
            j = i + 1
            while j < n and _dig(text[j]):
                j += 1
            toks.append(("num",))
            st.append(text[i:j])
            i = j
        else:
            toks.append(("sym", c))
            st.append(c)
            i += 1
    return toks, "".join(st), True, lits


def balanced(toks):
    stk = []
    close = {"(": ")", "[": "]", "{": "}"}
    for t in toks:
        if t[0] != "sym":
            continue
        if t[1] in close:
            stk.append(close[t[1]])
        elif t[1] in ")]}":
            if not stk or stk.pop() != t[1]:
                return False
    return not stk


UNEXP = re.compile(r"\{\{|\}\}|\{[A-Za-z_][A-Za-z0-9_]*\}")


def _iskw(x):
    return _lower(x) in KEYWORDS


def _word(t, w):
    return t is not None and t[0] == "id" and _lower(t[1]) == w


def _sym(t, c):
    return t is not None and t[0] == "sym" and t[1] == c


def _dotted_call(rest):
    k = 0
    while k + 1 < len(rest) and _sym(rest[k], ".") and rest[k + 1][0] == "id":
        if k + 2 < len(rest) and rest[k + 2][0] == "sym":
            if rest[k + 2][1] == "(":
                return True
            k += 2
            continue
        return False
    return False


CLAUSE = set("match optional where return with call yield set remove detach delete unwind union order limit skip create merge foreach".split())
NEEDS_OPERAND = set("where set return with and or xor not remove delete unwind match yield as in by on limit skip call when then else".split())
BAD_FOLLOWER = set("""match optional where return with call yield set remove detach delete unwind union order limit skip create merge on and or
xor as in then else end when by""".split())


def lint(text, supplied):
    """Well-formedness as the property names it, decided on tokens:
    balanced; nothing unexpanded; every $name supplied; every variable bound IN ITS SCOPE (a WITH clause at bracket depth 0 starts a new
    scope holding only the variables it lists or aliases, `*` keeps all, UNION starts from nothing; patterns, AS, YIELD, UNWIND ... AS and
    comprehensions bind); every clause keyword / boolean operator is followed by an operand; no dangling comma."""
    toks, stripped, closed, _ = lex(text)
    scope, seg_b, seg_u, carry, unbound = [], [], [], [], []
    star = in_items = in_yield = False
    depth = 0
    empty_clause = dangling = False

    def close(reset):
        nonlocal scope, seg_b, seg_u, in_items
        for x in seg_u:
            if x not in scope and x not in seg_b and x not in unbound:
                unbound.append(x)
        if reset:
            scope = []
        elif in_items:
            scope = list(carry) + ((scope + seg_b) if star else [])
        else:
            scope = scope + seg_b
        seg_b, seg_u, in_items = [], [], False

    for i, cur in enumerate(toks):
        p1 = toks[i - 1] if i >= 1 else None
        p2 = toks[i - 2] if i >= 2 else None
        nx = toks[i + 1] if i + 1 < len(toks) else None
        # operands and commas
        if cur[0] == "id" and _lower(cur[1]) in NEEDS_OPERAND:
            if nx is None or (nx[0] == "id" and _lower(nx[1]) in BAD_FOLLOWER) or (nx[0] == "sym" and nx[1] in ")]},;|"):
                empty_clause = True
        if cur[0] == "sym":
            if cur[1] == "," and (nx is None or (nx[0] == "sym" and nx[1] in ")]},")):
                dangling = True
            if cur[1] in "([{" and _sym(nx, ","):
                dangling = True
        if cur[0] == "id":
            x = cur[1]
            lw = _lower(x)
            kw = lw in KEYWORDS
            if depth == 0:
                with_clause = lw == "with" and not (_word(p1, "starts") or _word(p1, "ends"))
                if lw in CLAUSE and (lw != "with" or with_clause) and in_items:
                    close(False)
                if lw == "union":
                    close(True)
                if with_clause:
                    in_items, carry, star = True, [], False
            if in_yield and not kw:
                if x not in seg_b:
                    seg_b.append(x)
            else:
                in_yield = lw == "yield"
                if not kw:
                    b1 = _sym(p1, "(") and not (p2 is not None and p2[0] == "id" and not _iskw(p2[1])) and not _sym(nx, ".") and not _sym(nx, "(")
                    b2 = _sym(p1, "[") and _sym(p2, "-")
                    b3 = _sym(p1, "[") and _word(nx, "in")
                    b4 = _word(p1, "as")
                    b6 = _sym(nx, "=") and not _sym(p1, ".")
                    u = (not _sym(p1, ".") and not _sym(p1, ":") and not _sym(nx, ":") and not _sym(nx, "(")
                         and not (_sym(nx, ".") and _dotted_call(toks[i + 1:])) and not _word(p1, "index"))
                    if (b1 or b2 or b3 or b4 or b6) and x not in seg_b:
                        seg_b.append(x)
                    if u and x not in seg_u:
                        seg_u.append(x)
            if in_items and depth == 0 and not kw:
                item_start = _word(p1, "with") or _word(p1, "distinct") or _sym(p1, ",")
                item_end = nx is None or _sym(nx, ",") or (nx[0] == "id" and _lower(nx[1]) in CLAUSE)
                if ((item_start and item_end) or _word(p1, "as")) and x not in carry:
                    carry.append(x)
        elif cur[0] == "sym":
            c = cur[1]
            in_yield = in_yield and c in ",*"
            if in_items and depth == 0 and c == "*" and (_word(p1, "with") or _word(p1, "distinct")):
                star = True
            if c in "([{":
                depth += 1
            elif c in ")]}":
                depth = max(0, depth - 1)
        else:
            in_yield = False
    close(False)
    pars = []
    for t in toks:
        if t[0] == "par" and t[1] not in pars:
            pars.append(t[1])
    missing = [x for x in pars if x not in supplied]
    defects = []
    if not closed or not balanced(toks):
        defects.append("unbalanced")
    if UNEXP.search(stripped):
        defects.append("unexpanded-template")
    if missing:
        defects.append("missing-parameter")
    if unbound:
        defects.append("unbound-variable")
    if empty_clause:
        defects.append("empty-clause")
    if dangling:
        defects.append("dangling-comma")
    return {"defects": defects, "unbound": unbound, "missing": missing}


_ESC = {"\\": "\\", "'": "'", '"': '"', "n": "\n", "t": "\t", "r": "\r", "b": "\b", "f": "\f", "0": "\0"}


def cypher_unescape(s):
    out, i = [], 0
    while i < len(s):
        if s[i] == "\\" and i + 1 < len(s):
            e = s[i + 1]
            if e in _ESC:
                out.append(_ESC[e])
                i += 2
                continue
            if e in "uU" and re.fullmatch(r"[0-9a-fA-F]{4}", s[i + 2:i + 6] or ""):
                out.append(chr(int(s[i + 2:i + 6], 16)))
                i += 6
                continue
            return None
        out.append(s[i])
        i += 1
    return "".join(out)


# ------------------------------------------------------------------------------------------------------------
# driving the real backend

VOC = None


def voc():
    global VOC
    if VOC is None:
        VOC = cypher.vocab()
    return VOC


MERGE_KEYS = ["name", "Capacities", "`addr.*`", "`.*`"]
MERGE_VALS = ["discard", "overwrite", "combine"]


class Call:
    def __init__(self, name, cls, method, idents=(), values=(), maps=(), kwargs=None, expect=None, target="graph", positional=()):
        self.name, self.cls, self.method = name, cls, method
        self.idents = dict(idents)        # param -> vocabulary name
        self.values = list(values)        # scalar value params
        self.maps = list(maps)            # 'props' / 'merge_properties' / 'comps'
        self.kwargs, self.expect, self.target, self.positional = kwargs, expect, target, positional


def _k(cls, m, i=0):
    return "%s.%s#%d" % (cls, m, i)


PG = "Neo4jPropertyGraph"
IM = "Neo4jGraphImporter"


def _simple(name, method, idents=(), values=(), maps=(), cls=PG, own=None, **kw):
    own = own or cls
    return Call(name, cls, method, idents, values, maps, expect=lambda c, nv: [(_k(own, method), 0)], **kw)


def calls():
    ge = (_k(PG, "graph_exists"), 0)
    L = [
        Call("validate_graph", PG, "validate_graph", kwargs=lambda c: {"validate_json": False},
             expect=lambda c, nv: [(_k(PG, "_validate_graph"), i) for i in range(nv(_k(PG, "_validate_graph")))]),
        _simple("delete_graph", "delete_graph"),
        _simple("get_all_nodes_by_class", "get_all_nodes_by_class", {"label": "classes"}),
        _simple("get_all_nodes_by_class_and_type", "get_all_nodes_by_class_and_type", {"label": "classes"}, ["ntype"]),
        _simple("list_all_node_ids", "list_all_node_ids"),
        _simple("get_node_properties", "get_node_properties", values=["node_id"]),
        Call("get_node_json_property_as_object", PG, "get_node_json_property_as_object", {"prop_name": "props"}, ["node_id"],
             expect=lambda c, nv: [(_k(PG, "get_node_properties"), 0)]),
        _simple("get_link_properties", "get_link_properties", values=["node_a", "node_b"]),
        _simple("update_node_property", "update_node_property", {"prop_name": "props"}, ["node_id", "prop_val"]),
        _simple("unset_node_property", "unset_node_property", {"prop_name": "props_unsettable"}, ["node_id"]),
        _simple("update_nodes_property", "update_nodes_property", {"prop_name": "props"}, ["prop_val"]),
        _simple("update_node_properties", "update_node_properties", values=["node_id"], maps=["props!"]),
        _simple("update_link_property", "update_link_property", {"kind": "rels", "prop_name": "props"}, ["node_a", "node_b", "prop_val"]),
        _simple("unset_link_property", "unset_link_property", {"kind": "rels", "prop_name": "props"}, ["node_a", "node_b"]),
        _simple("update_link_properties", "update_link_properties", {"kind": "rels"}, ["node_a", "node_b"], ["props!"]),
        Call("serialize_graph", PG, "serialize_graph", expect=lambda c, nv: [(_k(PG, "serialize_graph", 0), 0), (_k(PG, "serialize_graph", 1), 0)]),
        _simple("graph_exists", "graph_exists"),
        Call("get_nodes_on_shortest_path", PG, "get_nodes_on_shortest_path", {"rel": "rels?"}, ["node_a", "node_z"],
             expect=lambda c, nv: [(_k(PG, "get_nodes_on_shortest_path"), 0 if c["idents"].get("rel") is None else 1)]),
        Call("get_nodes_on_path_with_hops", PG, "get_nodes_on_path_with_hops", values=["node_a", "node_z", "cut_off"],
             kwargs=lambda c: {"hops": [] if c.get("empty_hops") else [c["values"]["node_z"]]}, expect=lambda c, nv: [(_k(PG, "get_nodes_on_path_with_hops"), 0)]),
        Call("get_first_neighbor", PG, "get_first_neighbor", {"rel": "rels", "node_label": "classes"}, ["node_id"],
             expect=lambda c, nv: [(_k(PG, "get_first_neighbor"), 0)]),
        Call("get_first_and_second_neighbor", PG, "get_first_and_second_neighbor",
             {"rel1": "rels", "node1_label": "classes", "rel2": "rels", "node2_label": "classes"}, ["node_id"],
             expect=lambda c, nv: [(_k(PG, "get_first_and_second_neighbor"), 0)]),
        _simple("delete_node", "delete_node", values=["node_id"]),
        _simple("node_exists", "node_exists", {"label": "classes"}, ["node_id"]),
        _simple("add_node", "add_node", {"label": "classes"}, ["node_id"], ["props"]),
        _simple("add_link", "add_link", {"rel": "rels"}, ["node_a", "node_b"], ["props"]),
        Call("find_matching_nodes", PG, "find_matching_nodes", kwargs=lambda c: {"other_graph": "OTHER"},
             expect=lambda c, nv: [ge + ("other",), (_k(PG, "find_matching_nodes"), 0)]),
        Call("merge_nodes", PG, "merge_nodes", values=["node_id"], maps=["merge_properties"], kwargs=lambda c: {"other_graph": "OTHER"},
             expect=lambda c, nv: [ge + ("other",), (_k(PG, "merge_nodes"), 1 if c["maps"].get("merge_properties") is None else 0)]),
        _simple("get_stitch_nodes", "get_stitch_nodes"),
        _simple("check_node_unique", "check_node_unique", {"label": "classes"}, ["name"]),
        Call("get_graph_diff", PG, "get_graph_diff", {"label": "classes"}, positional=("OTHER", "label"),
             expect=lambda c, nv: [(_k(PG, "get_graph_diff"), 0)]),
        Call("get_graph_property_diff", PG, "get_graph_property_diff", {"label": "classes"}, positional=("OTHER", "label"),
             expect=lambda c, nv: [(_k(PG, "get_graph_property_diff"), 0)]),
        # importer
        Call("importer._add_indexes", IM, "_add_indexes", target="importer",
             expect=lambda c, nv: [(_k(IM, "_add_indexes"), i) for i in range(nv(_k(IM, "_add_indexes")))]),
        Call("importer._import_graph", IM, "_import_graph", values=["graphml_file", "graph_id"], target="importer",
             positional=("graphml_file", "graph_id"),
             expect=lambda c, nv: [(_k(IM, "delete_graph"), 0), (_k(IM, "_import_graph", 0), 0), (_k(IM, "_import_graph", 1), 0)]),
        Call("importer.delete_all_graphs", IM, "delete_all_graphs", target="importer", expect=lambda c, nv: [(_k(IM, "delete_all_graphs"), 0)]),
        Call("importer.delete_graph", IM, "delete_graph", values=["graph_id"], target="importer", expect=lambda c, nv: [(_k(IM, "delete_graph"), 0)]),
        Call("importer.cast_graph", IM, "cast_graph", values=["graph_id"], target="importer", expect=lambda c, nv: [ge]),
        # CBM
        Call("cbm.get_matching_nodes_with_components", "Neo4jCBMGraph", "get_matching_nodes_with_components", {"label": "classes"},
             maps=["props!", "comps"],
             expect=lambda c, nv: [(_k("Neo4jCBMGraph", "get_matching_nodes_with_components"), 0 if not comp_rows(c) else 1)]),
    ]
    for m in ("get_intersite_links", "get_sites", "get_disconnected_sites", "get_connected_sites", "get_facility_ports"):
        L.append(_simple("cbm." + m, m, cls="Neo4jCBMGraph"))
    L += [
        _simple("asm.check_node_name", "check_node_name", {"label": "classes"}, ["node_id", "name"], cls="Neo4jASM"),
        Call("asm.find_node_by_name", "Neo4jASM", "find_node_by_name", {"label": "classes"}, ["node_name"],
             kwargs=lambda c: {}, expect=lambda c, nv: [(_k("Neo4jASM", "find_node_by_name"), 0)]),
    ]
    return L


CALLS = None


def call_by_name(name):
    global CALLS
    if CALLS is None:
        CALLS = {c.name: c for c in calls()}
    return CALLS[name]


def classes():
    from fim.graph.neo4j_property_graph import Neo4jPropertyGraph
    from fim.graph.resources.neo4j_cbm import Neo4jCBMGraph
    from fim.graph.slices.neo4j_asm import Neo4jASM
    from fim.graph.resources.neo4j_adm import Neo4jADMGraph
    from fim.graph.resources.neo4j_arm import Neo4jARMGraph
    return {"Neo4jPropertyGraph": Neo4jPropertyGraph, "Neo4jCBMGraph": Neo4jCBMGraph, "Neo4jASM": Neo4jASM,
            "Neo4jADMGraph": Neo4jADMGraph, "Neo4jARMGraph": Neo4jARMGraph}


def make_graph(clsname, gid, imp):
    K = classes()
    if clsname == "Neo4jARMGraph":
        return K[clsname](graph=K["Neo4jPropertyGraph"](graph_id=gid, importer=imp))
    return K[clsname](graph_id=gid, importer=imp)


def comp_rows(case):
    """(type, model, count) rows the way neo4j_cbm.py groups requested components"""
    comps = case["maps"].get("comps")
    rows = {}
    for t, m in comps or []:
        if t != "SharedNIC":
            rows[(t, m)] = rows.get((t, m), 0) + 1
        else:
            rows[(t, m)] = 1
    return [(t, m, n) for (t, m), n in rows.items()]


def build_comps(rows):
    from fim.slivers.attached_components import AttachedComponentsInfo, ComponentSliver, ComponentType
    if rows is None:
        return None
    ci = AttachedComponentsInfo()
    for i, (t, m) in enumerate(rows):
        cs = ComponentSliver()
        cs.node_id = "c%d" % i
        cs.resource_name = "c%d" % i
        cs.resource_type = ComponentType[t] if t is not None else None
        cs.resource_model = m
        ci.add_device(cs)
    return ci


_RUN_LINES = {}


def site_of(where):
    """call-site key `Class.method#k` of the backend frame that called run(): k = rank of that line among the run() calls of the
    function (found with a plain ast scan of the file, independent of the translator)"""
    import ast
    fn, line, qual = where
    if fn not in _RUN_LINES:
        tab = {}
        try:
            tree = ast.parse(open(fn).read())
            for cls in [n for n in tree.body if isinstance(n, ast.ClassDef)]:
                for f in [n for n in cls.body if isinstance(n, ast.FunctionDef)]:
                    lines = sorted({c.lineno for c in ast.walk(f) if isinstance(c, ast.Call) and isinstance(c.func, ast.Attribute)
                                    and c.func.attr == "run"})
                    for k, ln in enumerate(lines):
                        tab[ln] = "%s.%s#%d" % (cls.name, f.name, k)
        except (OSError, SyntaxError):
            pass
        _RUN_LINES[fn] = tab
    return _RUN_LINES[fn].get(line, "%s@%d" % (qual, line))


def drive(case, via=None):
    """run one backend call; -> (recorded [(text, sorted param names, params)], error kind or None)"""
    from fim.graph.neo4j_property_graph import Neo4jGraphImporter
    call = call_by_name(case["call"])
    imp = fake.make_importer()
    gid = case["values"].get("graph_id", "G1") if call.target == "graph" else "G1"
    oid = case["values"].get("other_graph_id", "G2")
    other = make_graph("Neo4jPropertyGraph", oid, imp)
    if call.target == "importer":
        obj = imp
        Neo4jGraphImporter.index_initialized = False
    else:
        obj = make_graph(via or call.cls, gid, imp)
    kw = {}
    for p in call.idents:
        v = case["idents"].get(p)
        if v is not None or call.idents[p].endswith("?"):
            kw[p] = v
    for p in call.values:
        if p in ("graph_id", "other_graph_id") and call.target == "graph":
            continue
        kw[p] = case["values"][p]
    for m in call.maps:
        mm = m.rstrip("!")
        rows = case["maps"].get(mm)
        if mm == "comps":
            kw["comps"] = build_comps(rows)
        else:
            kw[mm] = None if rows is None else {k: v for k, v in rows}
    if call.kwargs:
        kw.update(call.kwargs(case))
    for k in list(kw):
        if kw[k] == "OTHER":
            kw[k] = other
    args = []
    for p in call.positional:
        args.append(other if p == "OTHER" else kw.pop(p))
    if call.name == "asm.find_node_by_name":
        kw = {"node_name": case["values"]["node_name"], "label": case["idents"]["label"]}
    imp.driver.take()
    e = None
    try:
        getattr(obj, call.method)(*args, **kw)
    except Exception as ex:       # the stand-in's canned answers may not satisfy the caller; the statements are what matters
        e = err_kind(ex)
    rec = [(t, sorted(p), p) for t, p in imp.driver.take()]
    drive.where = [site_of(w) for w in imp.driver.last_where]
    if call.target == "importer":
        Neo4jGraphImporter.index_initialized = True
    return rec, e


def fmt(v):
    return v if isinstance(v, str) else format(v, "")


def model_env(case, which=None):
    """the environment handed to the Lean driver for one expected statement"""
    call = call_by_name(case["call"])
    idents = [[k, v] for k, v in sorted(case["idents"].items()) if v is not None]
    values = {k: fmt(v) for k, v in case["values"].items()}
    values.setdefault("graph_id", "G1")
    values.setdefault("other_graph_id", "G2")
    if which == "other":
        values["graph_id"] = values["other_graph_id"]
    if call.name == "importer.cast_graph":
        pass
    maps = []
    for m in ("props", "merge_properties"):
        rows = case["maps"].get(m)
        if rows is not None:
            if m == "props":
                maps.append([m, [[[["k", fmt(k)]], [["v", fmt(v)]]] for k, v in rows]])
            else:
                maps.append([m, [[[["k", fmt(k)], ["v", fmt(v)]], []] for k, v in rows]])
    if case["maps"].get("comps") is not None:
        rr = []
        for t, mdl, n in comp_rows(case):
            ids = ([["resource_type", t]] if t is not None else []) + [["count", str(n)]]
            vals = [["resource_model", mdl]] if mdl is not None else []
            rr.append([ids, vals])
        maps.append(["component_counts", rr])
    return idents, [[k, v] for k, v in sorted(values.items())], maps


# ------------------------------------------------------------------------------------------------------------
# case generation

ADVERSARIAL = [
    "x' }) DETACH DELETE s //", "x'} DETACH DELETE s //", 'a"b', "it's", "back\\slash", "trail\\", "{brace}", "{{dbl}}", "$graphId", "$nodeId x",
    "line1\nline2", "tab\there", "cr\rlf", "MATCH (n) DETACH DELETE n", "' OR 1=1 //", '" }) RETURN 1 //', "`tick`", "a, b: 'c'", "}) (", "[x]",
    "caf\u00e9 \u2192 \u4e2d", "", " ", "\\'", "\\\\'", "/* c */ // d", "'", '"', "\\u0041", "{name}", "$", "$$", "1; DROP", "null", "RETURN properties(s)",
]
BENIGN = ["alpha", "Beta7", "site_A", "renc-w1", "42", "x.y.z"]


def adv_value(rng):
    r = rng.random()
    if r < 0.6:
        return rng.choice(ADVERSARIAL)
    if r < 0.8:
        return rng.choice(BENIGN) + rng.choice(ADVERSARIAL) + rng.choice(BENIGN)
    if r < 0.9:
        return "".join(rng.choice("'\"\\{}$\n `()[]:,;/*abcXYZ0 ") for _ in range(rng.randrange(0, 12)))
    return rng.choice([0, 7, -3, 2.5, True])


def ident_choices(call, rng, limit):
    """all combinations of the call's identifier slots (None for optional ones), cut to `limit` by seeded sampling"""
    V = voc()
    slots = sorted(call.idents)
    doms = []
    for s in slots:
        d = call.idents[s]
        if d == "props_unsettable":
            from fim.graph.abc_property_graph import ABCPropertyGraph
            dom = [p for p in V["props"] if p not in ABCPropertyGraph.NO_UNSET_PROPERTIES]
        elif d.endswith("?"):
            dom = [None] + V[d[:-1]]
        else:
            dom = V[d]
        doms.append(dom)
    total = 1
    for d in doms:
        total *= len(d)
    if total <= limit:
        combos = list(itertools.product(*doms))
    else:
        combos = [tuple(d[0] for d in doms), tuple(d[-1] for d in doms)]
        seen = set(combos)
        # every value of every slot at least once, then random
        for i, d in enumerate(doms):
            for v in d:
                c = tuple(v if j == i else rng.choice(doms[j]) for j in range(len(doms)))
                if c not in seen:
                    seen.add(c)
                    combos.append(c)
        while len(combos) < limit:
            c = tuple(rng.choice(d) for d in doms)
            if c not in seen:
                seen.add(c)
                combos.append(c)
    return [dict(zip(slots, c)) for c in combos], total


def gen_values(call, rng, mode):
    """mode: 'benign' | 'adv'"""
    pick = (lambda: rng.choice(BENIGN)) if mode == "benign" else (lambda: adv_value(rng))
    pick_s = (lambda: rng.choice(BENIGN)) if mode == "benign" else (lambda: fmt(adv_value(rng)) if rng.random() < 0.9 else rng.choice(ADVERSARIAL))
    vals = {}
    for p in call.values:
        vals[p] = pick_s() if p != "cut_off" else (rng.choice([1, 5, 100]) if mode == "benign" else rng.choice([100, "5", pick_s()]))
    vals["graph_id"] = vals.get("graph_id") or pick_s() or "G1"
    vals["other_graph_id"] = pick_s() or "G2"
    return vals


def gen_maps(call, rng, mode, keys=None):
    V = voc()
    maps = {}
    for m in call.maps:
        must = m.endswith("!")
        mm = m.rstrip("!")
        if keys is not None:
            ks = keys.get(mm)
        elif mm == "props":
            n = rng.choice([0, 1, 1, 2, 3])
            ks = rng.sample(V["props"], n) if (n or must or rng.random() < 0.6) else None     # "!" = the call asserts props is not None
        elif mm == "merge_properties":
            ks = None if rng.random() < 0.3 else rng.sample(MERGE_KEYS, rng.choice([0, 1, 2, 3]))
        else:
            ks = None if rng.random() < 0.3 else [(rng.choice(["GPU", "SmartNIC", "SharedNIC", "NVME", "FPGA"]), rng.random() < 0.8)
                                                 for _ in range(rng.choice([0, 1, 2, 3, 4]))]
        if ks is None:
            maps[mm] = None
        elif mm == "props":
            maps[mm] = [[k, (rng.choice(BENIGN) if mode == "benign" else
                             (fmt(adv_value(rng)) if (must or call.name.startswith("cbm")) else adv_value(rng)))] for k in ks]
        elif mm == "merge_properties":
            # merge behaviours are identifiers (closed vocabulary): an adversarial run keeps them
            maps[mm] = [[k[0], k[1]] if isinstance(k, (list, tuple)) else [k, rng.choice(MERGE_VALS)] for k in ks]
        else:
            models = {}
            rows = []
            for t, has_model in ks:
                if has_model:
                    mdl = models.setdefault(t, rng.choice(BENIGN) if mode == "benign" else fmt(adv_value(rng)))
                else:
                    mdl = None
                rows.append([t, mdl])
            maps[mm] = rows
    return maps


def map_keys(maps):
    out = {}
    for m, rows in maps.items():
        if rows is None:
            out[m] = None
        elif m == "comps":
            out[m] = [(t, mdl is not None) for t, mdl in rows]
        elif m == "merge_properties":
            out[m] = [(k, v) for k, v in rows]
        else:
            out[m] = [k for k, _ in rows]
    return out


def nontrivial(case):
    s = json.dumps([case["values"], case["maps"]])
    return any(ch in s for ch in "'\\{}$`") or '\\"' in s or "\\n" in s


def corpus_cases():
    out = []
    for fn in sorted(glob.glob(os.path.join(CORPUS_DIR, ID, "*.json"))):
        with open(fn) as f:
            d = json.load(f)
        for c in d.get("cases", [d] if "call" in d else []):
            out.append(c)
    return out


def corner_groups(call, rng):
    """deterministic corner cases, always generated first: every mapping argument None (where the call allows it), EMPTY and with one
    entry, in every combination; every optional identifier both defaulted and supplied; an empty hop list"""
    V = voc()
    opts = []
    for m in call.maps:
        must = m.endswith("!")
        mm = m.rstrip("!")
        one = {"props": [V["props"][0]], "merge_properties": [("name", "overwrite")], "comps": [("GPU", True)]}[mm]
        two = {"props": V["props"][1:3], "merge_properties": [("name", "discard"), ("`.*`", "combine")],
               "comps": [("GPU", True), ("GPU", True), ("SharedNIC", False)]}[mm]
        opts.append([(mm, k) for k in (([] if must else [None]) + [[], one, two])])
    id_opts = []
    for slot in sorted(call.idents):
        d = call.idents[slot]
        dom = V["props" if d == "props_unsettable" else d.rstrip("?")]
        first = [p for p in dom if p not in ("GraphID", "NodeID", "Class", "Name", "Type")][0] if d == "props_unsettable" else dom[0]
        id_opts.append([(slot, v) for v in (([None] if d.endswith("?") else []) + [first])])
    out = []
    for mc in itertools.product(*opts):
        for ic in itertools.product(*id_opts):
            keys = dict(mc)
            for flags in ([{}, {"empty_hops": True}] if call.name == "get_nodes_on_path_with_hops" else [{}]):
                base = dict({"call": call.name, "idents": dict(ic), "values": gen_values(call, rng, "benign"),
                             "maps": gen_maps(call, rng, "benign", keys=keys)}, **flags)
                adv = dict({"call": call.name, "idents": dict(ic), "values": gen_values(call, rng, "adv"),
                            "maps": gen_maps(call, rng, "adv", keys=keys)}, **flags)
                out.append((base, [adv]))
    return out


def gen_cases(ctx, tag, per_call_idents, n_values, min_groups=8):
    """-> list of (benign case, [adversarial cases with the same identifiers and map keys])"""
    rng = ctx.sub_rng(tag)
    groups = []
    for call in calls():
        groups.extend(corner_groups(call, rng))
        combos, total = ident_choices(call, rng, per_call_idents)
        # calls with few identifier choices but stored values / mappings get more value assignments
        if (call.values or call.maps) and len(combos) < min_groups:
            combos = (combos * min_groups)[:max(min_groups, len(combos))]
        for ids in combos:
            base = {"call": call.name, "idents": ids, "values": gen_values(call, rng, "benign"), "maps": gen_maps(call, rng, "benign")}
            keys = map_keys(base["maps"])
            advs = []
            for _ in range(n_values):
                advs.append({"call": call.name, "idents": ids, "values": gen_values(call, rng, "adv"),
                             "maps": gen_maps(call, rng, "adv", keys=keys)})
            groups.append((base, advs))
    return groups


# ------------------------------------------------------------------------------------------------------------
# correspondence: recorded text == Lean rendering of the generated template; Lean lint == Python lint

def nvariants_table():
    tab = {}
    for o in cypher.table():
        tab[o["key"]] = max(tab.get(o["key"], 0), o["variant"] + 1)
    return tab


def correspondence(ctx, res):
    tab = nvariants_table()
    nv = lambda k: tab.get(k, 0)
    driven_keys = set()
    driven_variants = set()
    groups = gen_cases(ctx, "corr", ctx.scale(40, 100000), ctx.scale(2, 6), ctx.scale(8, 40))
    cases = []
    for c in corpus_cases():
        if "base" in c:
            cases.append(c["base"])
            cases.extend(c.get("advs", []))
        else:
            cases.append(c)
    for b, advs in groups:
        cases.append(b)
        cases.extend(advs)
    reqs, meta = [], []
    vias = ["Neo4jCBMGraph", "Neo4jASM", "Neo4jADMGraph", "Neo4jARMGraph"]
    for ci, case in enumerate(cases):
        call = call_by_name(case["call"])
        # inherited operations are also driven through the four subclasses (round robin)
        via = None
        if call.target == "graph" and call.cls == PG and ci % 3 == 0:
            via = vias[(ci // 3) % 4]
        rec, e = drive(case, via)
        exp = call.expect(case, nv)
        res.count("call:" + call.name)
        if via:
            res.count("via:" + via)
        if e:
            res.count("impl-err:" + e)
        if len(rec) != len(exp):
            res.disagreements.append({"case": case, "impl": [r[0] for r in rec], "model": "expected %d statements: %s" % (len(exp), exp)})
            continue
        for (text, pnames, _), ex in zip(rec, exp):
            key, variant = ex[0], ex[1]
            driven_keys.add(key)
            driven_variants.add((key, variant))
            ids, vals, maps = model_env(case, ex[2] if len(ex) > 2 else None)
            reqs.append(json.dumps(["render", key, variant, ids, vals, maps]))
            meta.append((case, key, variant, text, pnames))
    out = LeanDriver("C19").run(reqs)
    for (case, key, variant, text, pnames), line in zip(meta, out):
        m = json.loads(line)
        res.evaluations += 1
        res.count("site:" + key)
        impl = {"text": text, "supplied": pnames}
        impl.update(lint(text, pnames))
        if m[0] != "ok":
            res.disagreements.append({"case": case, "impl": impl, "model": m})
            continue
        mod = dict(m[1])
        mod["supplied"] = sorted(mod["supplied"])
        vf = mod.pop("vf")
        for d in impl["defects"]:
            res.count("lint:" + d)
        res.count("vf:%s" % vf)
        if nontrivial(case):
            res.nontrivial.add(canon([key, variant, case["idents"], case["values"], case["maps"]]))
        if mod != impl:
            res.disagreements.append({"case": {"site": key, "variant": variant, "case": case}, "impl": impl, "model": mod})
        res.sample({"site": key, "idents": case["idents"], "text": text[:200], "lint": impl["defects"]}, limit=3)
    # every generated call site must have been driven
    missing = sorted(set(tab) - driven_keys)
    if missing:
        res.disagreements.append({"case": "coverage", "impl": "call sites never reached by the harness", "model": missing})
    all_variants = {(k, v) for k, n in tab.items() for v in range(n)}
    missing_v = sorted(all_variants - driven_variants)
    if missing_v:
        res.disagreements.append({"case": "coverage", "impl": "template variants (if/else branches, table entries) never reached by the harness",
                                  "model": [list(x) for x in missing_v]})
    ctx.notes.append("correspondence reached %d of %d template variants" % (len(all_variants & driven_variants), len(all_variants)))
    ctx.notes.append("correspondence drove %d call sites of %d generated" % (len(driven_keys), len(tab)))


# ------------------------------------------------------------------------------------------------------------
# oracle: the property itself on the implementation

def check_wellformed(rec0, sites, res, case):
    for (text, pnames, _), site in zip(rec0, sites):
        for d in lint(text, pnames)["defects"]:
            res.violation("C19:%s:%s" % (site, d), "statement handed to the driver is malformed (%s)" % d,
                          case, observed=text, expected="balanced, expanded, bound, parameters supplied")


def compare_runs(rec0, sites, rec, supplied_vals, res, case):
    """the adversarial run must hand over the same texts, or texts that differ only inside string literals which decode back
    to a supplied value (a correctly escaped literal)"""
    for (t0, p0, _), (t1, p1, _), site in zip(rec0, rec, sites):
        if p1 != p0:
            res.violation("C19:%s:parameter-names" % site, "parameter names depend on stored values", case, observed=p1, expected=p0)
        if t1 == t0:
            continue
        _, s0, c0, l0 = lex(t0)
        _, s1, c1, l1 = lex(t1)
        ok = c1 and s0 == s1 and len(l0) == len(l1)
        if ok:
            for (q0, a), (q1, b) in zip(l0, l1):
                if a != b and (q1 == "`" or cypher_unescape(b) not in supplied_vals):
                    ok = False
        if not ok:
            res.violation("C19:%s:value-in-text" % site, "a stored value is interpolated into the statement text without escaping",
                          case, observed=t1, expected=t0)


def check_group(base, advs, res, nv=None):
    """benign run: well-formed, $names supplied.  adversarial runs (same identifiers, same map keys): the text is the same, or
    differs only inside string literals that decode back to a supplied value."""
    call = call_by_name(base["call"])
    rec0, _ = drive(base)
    sites = list(drive.where)
    check_wellformed(rec0, sites, res, {"kind": "wellformed", "base": base})
    for adv in advs:
        rec, _ = drive(adv)
        res.evaluations += 1
        if nontrivial(adv):
            res.nontrivial.add(canon(adv))
        case = {"kind": "independent", "base": base, "adv": adv}
        if len(rec) != len(rec0):
            res.violation("C19:%s.%s:statement-count" % (call.cls, call.method), "number of statements depends on stored values",
                          case, observed=len(rec), expected=len(rec0))
            continue
        supplied_vals = set()
        for v in list(adv["values"].values()) + [x[1] for x in (adv["maps"].get("props") or [])] + \
                [x[1] for x in (adv["maps"].get("comps") or []) if x[1] is not None]:
            supplied_vals.add(fmt(v))
        compare_runs(rec0, sites, rec, supplied_vals, res, case)


def oracle(ctx, res, per_call=None, n_values=None):
    # deterministic corpus first (the known findings' triggering cases live there)
    for c in corpus_cases():
        if "base" in c:
            check_group(c["base"], c.get("advs", []), res)
            res.count("corpus")
    groups = gen_cases(ctx, "oracle", per_call or ctx.scale(25, 100000), n_values or ctx.scale(6, 20), ctx.scale(10, 60))
    for base, advs in groups:
        res.count("call:" + base["call"])
        check_group(base, advs, res)
    # compound operations: every statement they issue must be well-formed
    compound(ctx, res)
    if groups:
        b, a = groups[len(groups) // 2]
        res.sample({"base": b, "adversarial": a[:1]})


def _compound_run(kind, ids):
    """merge_adm / unmerge_adm of the CBM against canned answers built from `ids` (graph ids, node ids, names)"""
    import io
    import networkx as nx
    from fim.slivers.capacities_labels import StructuralInfo
    cbm_id, adm_id, n1, n2, name = ids
    si = StructuralInfo(adm_graph_ids=[adm_id, "other"]).to_json()
    g = nx.Graph()
    g.add_node(1, GraphID=adm_id, NodeID=n1, Class="NetworkNode", Name=name, Type="Server")
    g.add_node(2, GraphID=adm_id, NodeID=n2, Class="Component", Name=name, Type="GPU")
    g.add_edge(1, 2, Class="has")
    buf = io.BytesIO()
    nx.write_graphml(g, buf)
    canned = {"graphml": buf.getvalue().decode(), "nodeids": [n1, n2], "common_ids": [n1],
              "node_props": {"Name": name, "Class": "NetworkNode", "Type": "Server", "StructuralInfo": si}}
    imp = fake.make_importer(canned)
    cbm = make_graph("Neo4jCBMGraph", cbm_id, imp)
    e = None
    try:
        if kind == "merge_adm":
            # uuid4 gives the temporary graph a fresh id on every run; pin it so that two runs are comparable
            import uuid
            orig = uuid.uuid4
            uuid.uuid4 = lambda: "00000000-0000-4000-8000-000000000000"
            try:
                cbm.merge_adm(adm=make_graph("Neo4jADMGraph", adm_id, imp))
            finally:
                uuid.uuid4 = orig
        else:
            cbm.unmerge_adm(graph_id=adm_id)
    except Exception as ex:
        e = err_kind(ex)
    rec = [(t, sorted(p), p) for t, p in imp.driver.take()]
    return rec, [site_of(w) for w in imp.driver.last_where], e


def compound(ctx, res):
    """the CBM's compound operations (clone, import bookkeeping, delegation rewrite, node merge, unmerge): every statement they
    issue is well-formed, and issuing them with adversarial graph ids / node ids / names changes no statement text"""
    rng = ctx.sub_rng("compound")
    benign = ("cbm1", "adm1", "n1", "n2", "alpha")
    for kind in ("merge_adm", "unmerge_adm"):
        rec0, sites, e0 = _compound_run(kind, benign)
        res.count("compound:%s:%d-statements" % (kind, len(rec0)))
        if e0:
            res.count("compound-err:" + e0)
        check_wellformed(rec0, sites, res, {"kind": "compound", "op": kind, "ids": list(benign)})
        for i in range(ctx.scale(4, 40)):
            ids = tuple((fmt(adv_value(rng)) or "z") + str(j) for j in range(5))
            rec, _, e = _compound_run(kind, ids)
            res.evaluations += 1
            if len(rec) != len(rec0):
                res.count("compound-skip")
                continue
            compare_runs(rec0, sites, rec, set(ids), res, {"kind": "compound", "op": kind, "ids": list(ids), "base_ids": list(benign)})


def search(ctx, res, broken):
    oracle(ctx, res, per_call=100000, n_values=ctx.scale(12, 40))


def replay(ctx, payload):
    r = Result()
    c = payload["case"]
    if c.get("kind") == "wellformed":
        check_group(c["base"], [], r)
    elif c.get("kind") == "independent":
        check_group(c["base"], [c["adv"]], r)
    elif c.get("kind") == "compound":
        rec0, sites, _ = _compound_run(c["op"], tuple(c.get("base_ids", c["ids"])))
        check_wellformed(rec0, sites, r, c)
        if "base_ids" in c:
            rec, _, _ = _compound_run(c["op"], tuple(c["ids"]))
            if len(rec) == len(rec0):
                compare_runs(rec0, sites, rec, set(c["ids"]), r, c)
    else:
        return False
    for v in r.violations:
        print("  ", v["signature"], v["what"])
        print("     observed:", str(v.get("observed"))[:300])
    return any(v["signature"] == payload.get("signature") for v in r.violations) or (not payload.get("signature") and bool(r.violations))
