"""C19 - persistent-backend (Neo4j) statements are well-formed and data-independent.

Everything stops at the driver boundary: the real backend classes run against the recording stand-in of
lib_fake_neo4j, and what they hand to `session.run` is compared (a) with the Lean rendering of the template
the translator extracted for that call site and (b), independently, against the property itself.
"""
import glob
import itertools
import json
import os
import re

from core import LeanDriver, err_kind, canon, CORPUS_DIR, Result
from gen import cypher
import lib_fake_neo4j as fake
import lib_c19_shadow as shadow

ID = "C19"
GENERATORS = [cypher.generate]
LEAN_MODULES = ["FimVerif.Proofs.C19"]
P = "FimVerif.C19."
# one `_value_free` theorem per call site whose template has no value piece, one `_value_dependent_counterexample` per call site
# that interpolates a stored value today (the known findings)
VALUE_FREE_SITES = [
    "Neo4jPropertyGraph__validate_graph_s0", "Neo4jPropertyGraph_delete_graph_s0",
    "Neo4jPropertyGraph_get_all_nodes_by_class_s0", "Neo4jPropertyGraph_get_all_nodes_by_class_and_type_s0",
    "Neo4jPropertyGraph_list_all_node_ids_s0", "Neo4jPropertyGraph_get_node_properties_s0",
    "Neo4jPropertyGraph_get_link_properties_s0", "Neo4jPropertyGraph_update_node_property_s0",
    "Neo4jPropertyGraph_unset_node_property_s0", "Neo4jPropertyGraph_update_nodes_property_s0",
    "Neo4jPropertyGraph_update_link_property_s0", "Neo4jPropertyGraph_unset_link_property_s0",
    "Neo4jPropertyGraph_graph_exists_s0", "Neo4jPropertyGraph_get_nodes_on_shortest_path_s0",
    "Neo4jPropertyGraph_get_nodes_on_path_with_hops_s0", "Neo4jPropertyGraph_get_first_neighbor_s0",
    "Neo4jPropertyGraph_get_first_and_second_neighbor_s0", "Neo4jPropertyGraph_delete_node_s0",
    "Neo4jPropertyGraph_node_exists_s0", "Neo4jPropertyGraph_find_matching_nodes_s0", "Neo4jPropertyGraph_merge_nodes_s0",
    "Neo4jPropertyGraph_get_stitch_nodes_s0", "Neo4jPropertyGraph_check_node_unique_s0",
    "Neo4jPropertyGraph_get_graph_diff_s0", "Neo4jPropertyGraph_get_graph_property_diff_s0",
    "Neo4jGraphImporter__add_indexes_s0", "Neo4jGraphImporter__import_graph_s0", "Neo4jGraphImporter__import_graph_s1",
    "Neo4jGraphImporter_delete_all_graphs_s0", "Neo4jGraphImporter_delete_graph_s0", "Neo4jCBMGraph_get_intersite_links_s0",
    "Neo4jCBMGraph_get_sites_s0", "Neo4jCBMGraph_get_disconnected_sites_s0", "Neo4jCBMGraph_get_connected_sites_s0",
    "Neo4jCBMGraph_get_facility_ports_s0", "Neo4jASM_check_node_name_s0", "Neo4jASM_find_node_by_name_s0"]
VALUE_DEPENDENT_SITES = [
    "Neo4jPropertyGraph_update_node_properties_s0", "Neo4jPropertyGraph_update_link_properties_s0",
    "Neo4jPropertyGraph_add_node_s0", "Neo4jPropertyGraph_add_link_s0", "Neo4jPropertyGraph_serialize_graph_s0",
    "Neo4jPropertyGraph_serialize_graph_s1", "Neo4jCBMGraph_get_matching_nodes_with_components_s0"]
THEOREMS = [P + t for t in (
    ["no_value_piece_data_independent", "value_free_text_depends_only_on_identifiers", "wellformed_extends_to_all_values",
     "all_sites_classified", "value_free_except_listed", "data_independent_except_listed", "params_supplied",
     "wellformed_canonical", "wellformed_all_values_except_listed", "injection_rewrites_statement", "leaked_values_exact",
     "leaks_nil_of_value_free_atom", "data_independent_up_to_leaks_partial", "wellformed_empty_containers",
     "get_matching_nodes_empty_props_wellformed",
     # identifier holes: the verdict of the lint is independent of the identifiers; every template x argument shape for ALL identifiers
     "lint_verdict_independent_of_identifiers", "bound_ok_independent_of_identifiers", "scoping_follows_cypher",
     "clause_structure_checked", "lint_rejects_empty_entry", "lint_rejects_leading_empty_entry", "empty_map_entries_rejected", "vocabulary_fills_holes", "hole_templates_clean_scalar", "hole_templates_clean_maps",
     "hole_templates_clean", "wellformed_all_identifiers", "wellformed_all_identifiers_all_values",
     # histories of calls on one handle / against one database (round 7)
     "history_texts_independent_of_state", "history_data_independent_except_listed", "state_in_identifier_position_counterexample"]
    + [s + "_value_free" for s in VALUE_FREE_SITES]
    + [s + "_value_dependent_counterexample" for s in VALUE_DEPENDENT_SITES])]
TRUSTED_BASE = [
    "gen/cypher.py: symbolic evaluation of the string constructions reaching session.run in the five neo4j_*.py modules "
    "(idioms listed in its docstring) and the role table (which method parameters are identifiers, which are values)",
    "Model/Cypher.lean `render` models Python f-string/str()/join/slice semantics on code points; checked by text equality with the "
    "statements recorded at the stand-in driver",
    "`checkStmt` is a token-level lint, not a Cypher parser: balanced brackets/quotes; no {{ }} {name}; $names supplied; variables bound "
    "WHERE THEY ARE REFERENCED under Cypher scoping (clause by clause: patterns of MATCH/CREATE/MERGE, AS, YIELD, UNWIND ... AS, "
    "comprehension / quantifier variables and path variables bind; WITH at depth 0 keeps only what it lists or aliases, `*` keeps all; "
    "UNION starts from nothing); clause keywords, boolean words (both sides) and operator symbols (= < > + : .) have their operands; no "
    "dangling comma; clause order (WHERE after MATCH/WITH/YIELD, YIELD after CALL, only UNION after RETURN, statement starts with a "
    "reading/updating clause and ends in RETURN / an update / CALL).  CALL { } subqueries and comprehension-local scopes are not "
    "separated; `{}` and `()` are accepted (valid Cypher).  Two implementations from one specification - a one-pass state machine in "
    "Lean, a clause list with per-rule passes in Python - are compared on every recorded statement and on mutated neighbours of them",
    "identifier holes are the code points >= 0x110000 (no Python string contains one); the Lean lexer treats them as identifier "
    "characters - unobservable on real statements",
    "harness/lib_fake_neo4j.py replaces the neo4j driver: permissive canned answers, EMPTY answers and scripted records (result scenarios of "
    "the compound operations: nodes stamped with the unmerged ADM only / with others / carrying delegations / none; CBM absent; no common "
    "node) decide which follow-up statements are issued - a statement behind a result shape no scenario produces is reported as an "
    "unreached call site, not examined; the values the records carry are tracked into later statements like arguments; the oracle names a "
    "call site Class.method#k from the backend frame that called run() and its own ast scan, independently of the translator; "
    "Neo4j/APOC execution is not modelled at all",
    "harness/lib_c19_shadow.py (round 5): a STORE behind the stand-in driver without interpreting Cypher - every method that calls run() "
    "(harness's ast scan) runs for real against the recording driver and then the same call on a NetworkX graph of the same graph id "
    "answers the caller; trusted: the NetworkX backend answers the abstract interface the way a Neo4j server holding the same graph would "
    "(labels, property dicts, neighbour lists, GraphID re-homing), primitives without a NetworkX counterpart (the CBM's own queries, "
    "_validate_graph) answer with the permissive records; the world is one small aggregate (8 nodes, label+capacity delegations for two "
    "delegation ids, a stitch node), not an enumeration of graphs",
    "round 7: the statements of the REAL primitives under the store are answered from the store too (Shadow.server_view: a statement whose "
    "parameters name a node / a link of the store gets that node's labels and properties / that link's type and properties; no Cypher is "
    "interpreted, every other statement gets the permissive record), so that what a primitive returns to an enclosing primitive or keeps "
    "on the graph handle / in a class-level table derives from what the database holds; Class / Type / Model / Layer / StitchNode strings "
    "with payloads exist in the server's answers only (the NetworkX side keeps the benign string: it derives labels from Class and the "
    "library parses the others); histories of calls on ONE handle make up arguments by parameter name (a primitive with a parameter of "
    "another name is not part of them); Lean: histories are lists of (site, state -> environment, state -> state) over an arbitrary state "
    "type - that the library's texts have no other source than the call's own parameters is the translator's restriction (any other "
    "source is an extraction error) and the one-handle / two-handle histories of the oracle",
    "grouping of requested components into (type, model, count) rows is done by the harness mirroring neo4j_cbm.py:285-294 and is "
    "checked only through the text comparison; str() of non-string property values is taken from Python",
]
ASSUMPTIONS = [
    "identifier arguments (class, relation, property names, merge behaviours, component types) are identifier-shaped strings that are not "
    "one of the lint's keywords (GoodSubst; proved for the library's own vocabularies: vocabulary_fills_holes); back-ticked merge keys "
    "(`addr.*`) and a caller's property map containing Class / GraphID / NodeID are outside the hole theorems and covered by enumeration; "
    "integer counts computed by the backend are part of the query shape, not stored values",
    "well-formedness is the conditions named by the property, decided by the lint; for all identifiers by proof "
    "(wellformed_all_identifiers) in the argument shapes 0/1/2/3 entries per mapping, other sizes by the generators",
]
RULE = ("(call site, identifier choice, value assignment): every backend call x identifiers from the generated vocabularies (all single-slot "
        "choices; multi-slot sampled in quick, exhaustive in thorough) x adversarial values (quotes, backslashes, braces, $, newlines, "
        "Cypher keywords, non-ASCII); non-trivial = some value contains a metacharacter; distinct by canonical case; every call additionally "
        "against empty / benign / payload-carrying RESULT sets of the stand-in driver, merge_adm and unmerge_adm under 10 result scenarios; every "
        "run() call site of the five modules (harness's own ast scan) must be in the generated table and reached; falsy values (None, '', 0, "
        "False, []) at every position of every mapping argument of 1-3 entries; every public method of the six Neo4j-backed classes incl. "
        "their base classes (61 operations, coverage obligation over inspect.getmembers) on a stored aggregate x 10 roles of stored strings "
        "x payloads; every identifier-taking call as 1st/2nd/3rd call after every other call with the same identifier (histories); "
        "round 7: 15 roles (5 of them strings held in Class / Type / Model / Layer / StitchNode properties, distinct from the labels), and "
        "histories on ONE graph handle (generic, ASM, CBM, ADM handles; reader on a second handle of the same graph): each of 8 readers "
        "(property / neighbourhood reads, existence check, add, update) before each of the 31-37 statement-building methods of the handle, "
        "and every such method after every other one")

# ------------------------------------------------------------------------------------------------------------
# the property's lint, written independently of Model/Cypher.lean from the same specification

KEYWORDS = set("""match optional where return with as call yield set remove detach delete unwind union and or not in is null true
false distinct create merge order by limit skip on xor starts ends contains case when then else end exists all any none single asc
desc foreach index if for constraint require unique drop assert""".split())


def _ids(c):
    return ("a" <= c <= "z") or ("A" <= c <= "Z") or c == "_"


def _dig(c):
    return "0" <= c <= "9"


def _idc(c):
    return _ids(c) or _dig(c)


def _lower(s):
    return "".join(chr(ord(c) + 32) if "A" <= c <= "Z" else c for c in s)


def lex(text):
    """-> (tokens, stripped, closed, literals); tokens are ('id',s) ('num',) ('str',) ('par',s) ('sym',c)"""
    toks, st, lits = [], [], []
    i, n = 0, len(text)
    while i < n:
        c = text[i]
        if c in "'\"`":
            j = i + 1
            while j < n and text[j] != c:
                j += 2 if (text[j] == "\\" and c != "`") else 1
            toks.append(("str",))
            if j >= n:
                return toks, "".join(st), False, lits
            lits.append((c, text[i + 1:j]))
            st.append(c + c)
            i = j + 1
        elif c == "/" and i + 1 < n and text[i + 1] == "/":
            while i < n and text[i] != "\n":
                i += 1
        elif c in " \t\n\r":
            st.append(c)
            i += 1
        elif c == "$" and i + 1 < n and _ids(text[i + 1]):
            j = i + 1
            while j < n and _idc(text[j]):
                j += 1
            toks.append(("par", text[i + 1:j]))
            st.append(text[i:j])
            i = j
        elif _ids(c):
            j = i + 1
            while j < n and _idc(text[j]):
                j += 1
            toks.append(("id", text[i:j]))
            st.append(text[i:j])
            i = j
        elif _dig(c):
            j = i + 1
            while j < n and _dig(text[j]):
                j += 1
            toks.append(("num",))
            st.append(text[i:j])
            i = j
        else:
            toks.append(("sym", c))
            st.append(c)
            i += 1
    return toks, "".join(st), True, lits


def balanced(toks):
    stk = []
    close = {"(": ")", "[": "]", "{": "}"}
    for t in toks:
        if t[0] != "sym":
            continue
        if t[1] in close:
            stk.append(close[t[1]])
        elif t[1] in ")]}":
            if not stk or stk.pop() != t[1]:
                return False
    return not stk


UNEXP = re.compile(r"\{\{|\}\}|\{[A-Za-z_][A-Za-z0-9_]*\}")


def _iskw(x):
    return _lower(x) in KEYWORDS


def classify(raw):
    """raw tokens -> tokens with ('kw', lowered word) for keywords; a word right after a `.` is a name, never a keyword"""
    out = []
    for i, t in enumerate(raw):
        if t[0] == "id" and not (i > 0 and raw[i - 1] == ("sym", ".")) and _iskw(t[1]):
            out.append(("kw", _lower(t[1])))
        else:
            out.append(t)
    return out


CLAUSE = set("match optional where return with call yield set remove detach delete unwind union order limit skip create merge foreach".split())
NEEDS_OPERAND = set("where set return with and or xor not remove delete unwind match yield as in by limit skip call when then else".split())
BAD_FOLLOWER = set("""match optional where return with call yield set remove detach delete unwind union order limit skip create merge on and or
xor as in then else end when by""".split())
STARTERS = set("match optional create merge call unwind with return foreach".split())
ENDERS = set("return set remove delete create merge call yield foreach".split())
SUB = {"order", "skip", "limit"}
PATTERN_CLAUSES = {"match", "create", "merge"}
OPEN, CLOSE = "([{", ")]}"


def _kw(t, *ws):
    return t is not None and t[0] == "kw" and t[1] in ws


def _sym(t, *cs):
    return t is not None and t[0] == "sym" and t[1] in cs


def _bad_follower(t):
    return t is None or (t[0] == "kw" and t[1] in BAD_FOLLOWER) or (t[0] == "sym" and t[1] in ")]},;|")


def _operand_end(t):
    if t is None:
        return False
    return t[0] in ("id", "num", "str", "par") or (t[0] == "sym" and t[1] in ")]}*") or (t[0] == "kw" and t[1] in ("null", "true", "false", "end"))


def _dotted_call(toks, i):
    """tokens from i on read  .w.w…(  : the identifier before them is the head of a namespaced function / procedure name"""
    while i + 1 < len(toks) and _sym(toks[i], ".") and toks[i + 1][0] in ("id", "kw"):
        if i + 2 < len(toks) and toks[i + 2][0] == "sym":
            if toks[i + 2][1] == "(":
                return True
            i += 2
            continue
        return False
    return False


class Clause:
    """one clause of the statement: the clause word at bracket depth 0 that opens it (None for anything before the first one)
    and the index range of its tokens (the word included)"""
    def __init__(self, word, lo):
        self.word, self.lo, self.hi = word, lo, lo


def split_clauses(toks):
    """-> (clauses, depth before each token).  A clause word nested in brackets (the WHERE of a quantifier or comprehension)
    and the WITH of STARTS WITH / ENDS WITH open nothing."""
    depth, d = [], 0
    for t in toks:
        depth.append(d)
        if t[0] == "sym" and t[1] in OPEN:
            d += 1
        elif t[0] == "sym" and t[1] in CLOSE:
            d = max(0, d - 1)
    clauses = [Clause(None, 0)]
    for i, t in enumerate(toks):
        if t[0] == "kw" and t[1] in CLAUSE and depth[i] == 0 and not (t[1] == "with" and i > 0 and _kw(toks[i - 1], "starts", "ends")):
            clauses[-1].hi = i
            clauses.append(Clause(t[1], i))
    clauses[-1].hi = len(toks)
    return clauses, depth


def scope_check(toks):
    """Cypher scoping, clause by clause.  Returns the variables referenced where they are not visible.
    visible = what the last WITH handed on (`scope`) + what has been bound since (`bound`); MATCH / CREATE / MERGE patterns,
    comprehension and quantifier variables, aliases (AS), YIELD items and path variables bind; a WITH keeps only the bare variables
    and aliases it lists (`*`: everything); UNION starts from nothing; a reference must be visible by the end of its own clause."""
    clauses, depth = split_clauses(toks)
    n = len(toks)
    at = lambda i: toks[i] if 0 <= i < n else None
    # YIELD regions: the identifiers (and , *) right after a YIELD are result names
    yielded = set()
    for i, t in enumerate(toks):
        if _kw(t, "yield"):
            j = i + 1
            while j < n and (toks[j][0] == "id" or _sym(toks[j], ",", "*")):
                if toks[j][0] == "id":
                    yielded.add(j)
                j += 1
    scope, bound, unbound = [], [], []
    last = ""
    for c in clauses:
        w = c.word
        if w == "union":
            scope, bound, last = [], [], ""
        elif w is not None and w not in SUB:
            last = w
        binders, refs, keep, star = [], [], [], False
        is_with = w == "with"
        for i in range(c.lo, c.hi):
            t = toks[i]
            p1, p2, nx = at(i - 1), at(i - 2), at(i + 1)
            if is_with and depth[i] == 0 and _sym(t, "*") and _kw(p1, "with", "distinct"):
                star = True
            if t[0] != "id":
                continue
            x = t[1]
            if i in yielded:
                binders.append(x)
                continue
            pattern_var = _sym(p1, "(") and not (p2 is not None and p2[0] == "id") and not _sym(nx, ".", "(")
            rel_var = _sym(p1, "[") and _sym(p2, "-")
            local_var = _sym(p1, "[") and _kw(nx, "in")
            alias = _kw(p1, "as")
            path_var = depth[i] == 0 and _sym(nx, "=") and (_kw(p1, *PATTERN_CLAUSES) or (_sym(p1, ",") and last in PATTERN_CLAUSES))
            if pattern_var or rel_var or local_var or alias or path_var:
                binders.append(x)
            name_position = _sym(p1, ".", ":") or _sym(nx, ":", "(") or (_sym(nx, ".") and _dotted_call(toks, i + 1)) or _kw(p1, "index", "constraint")
            if not name_position:
                refs.append(x)
            if is_with and depth[i] == 0:
                bare = (_kw(p1, "with", "distinct") or _sym(p1, ",")) and (nx is None or _sym(nx, ",") or (nx[0] == "kw" and nx[1] in CLAUSE))
                if bare or alias:
                    keep.append(x)
        for x in binders:
            if x not in bound:
                bound.append(x)
        for x in refs:
            if x not in scope and x not in bound and x not in unbound:
                unbound.append(x)
        if is_with:
            scope = list(dict.fromkeys(keep)) + ((scope + bound) if star else [])
            bound = []
    return unbound, clauses


def order_check(clauses):
    """the clauses come in an order Cypher accepts: a statement (and each UNION branch) starts with a reading / updating clause,
    WHERE belongs to MATCH / WITH / YIELD, YIELD to CALL, only UNION (or ORDER BY / SKIP / LIMIT) follows RETURN, and the
    statement ends in RETURN, an updating clause or a CALL"""
    last, bad = "", False
    for c in clauses:
        w = c.word
        if w is None:
            continue
        if last == "":
            ok = w in STARTERS
        elif last == "return":
            ok = w == "union" or w in SUB
        elif last == "optional":
            ok = w == "match"
        elif last == "detach":
            ok = w == "delete"
        elif w == "where":
            ok = last in ("match", "with", "yield")
        elif w == "yield":
            ok = last == "call"
        elif w == "union":
            ok = False
        elif w in SUB:
            ok = last == "with"
        else:
            ok = True
        bad = bad or not ok
        last = "" if w == "union" else (last if w in SUB else w)
    return bad or last not in ENDERS


def lint(text, supplied):
    """Well-formedness as the property names it, decided on tokens (written from the specification, independently of
    Model/Cypher.lean: clause list + passes here, one state machine there):
    balanced; nothing unexpanded; every $name supplied; every variable bound where it is referenced (scope_check); every clause
    keyword / boolean word / operator symbol has its operand(s); no dangling comma; clause order (order_check)."""
    raw, stripped, closed, _ = lex(text)
    toks = classify(raw)
    n = len(toks)
    at = lambda i: toks[i] if 0 <= i < n else None
    unbound, clauses = scope_check(toks)
    # (ON MATCH SET / ON CREATE SET: the MATCH / CREATE after ON is not a clause)
    empty_clause = any(t[0] == "kw" and t[1] in NEEDS_OPERAND and _bad_follower(at(i + 1)) and not _kw(at(i - 1), "on")
                       for i, t in enumerate(toks))
    dangling = any((_sym(t, ",") and (at(i + 1) is None or _sym(at(i + 1), ")", "]", "}", ","))) or
                   (_sym(t, *OPEN) and _sym(at(i + 1), ",")) for i, t in enumerate(toks))
    operand = any((_kw(t, "and", "or", "xor") and not _operand_end(at(i - 1))) or
                  ((_sym(t, "=", "<", ">", "+", ":") or (_sym(t, ".") and not _sym(at(i - 1), "."))) and _bad_follower(at(i + 1)))
                  for i, t in enumerate(toks))
    order = order_check(clauses)
    pars = []
    for t in toks:
        if t[0] == "par" and t[1] not in pars:
            pars.append(t[1])
    missing = [x for x in pars if x not in supplied]
    defects = []
    if not closed or not balanced(toks):
        defects.append("unbalanced")
    if UNEXP.search(stripped):
        defects.append("unexpanded-template")
    if missing:
        defects.append("missing-parameter")
    if unbound:
        defects.append("unbound-variable")
    if empty_clause:
        defects.append("empty-clause")
    if dangling:
        defects.append("dangling-comma")
    if operand:
        defects.append("missing-operand")
    if order:
        defects.append("clause-order")
    return {"defects": defects, "unbound": unbound, "missing": missing}


_ESC = {"\\": "\\", "'": "'", '"': '"', "n": "\n", "t": "\t", "r": "\r", "b": "\b", "f": "\f", "0": "\0"}


def cypher_unescape(s):
    out, i = [], 0
    while i < len(s):
        if s[i] == "\\" and i + 1 < len(s):
            e = s[i + 1]
            if e in _ESC:
                out.append(_ESC[e])
                i += 2
                continue
            if e in "uU" and re.fullmatch(r"[0-9a-fA-F]{4}", s[i + 2:i + 6] or ""):
                out.append(chr(int(s[i + 2:i + 6], 16)))
                i += 6
                continue
            return None
        out.append(s[i])
        i += 1
    return "".join(out)


# ------------------------------------------------------------------------------------------------------------
# driving the real backend

VOC = None


def voc():
    global VOC
    if VOC is None:
        VOC = cypher.vocab()
    return VOC


MERGE_KEYS = ["name", "Capacities", "`addr.*`", "`.*`"]
MERGE_VALS = ["discard", "overwrite", "combine"]


class Call:
    def __init__(self, name, cls, method, idents=(), values=(), maps=(), kwargs=None, expect=None, target="graph", positional=()):
        self.name, self.cls, self.method = name, cls, method
        self.idents = dict(idents)        # param -> vocabulary name
        self.values = list(values)        # scalar value params
        self.maps = list(maps)            # 'props' / 'merge_properties' / 'comps'
        self.kwargs, self.expect, self.target, self.positional = kwargs, expect, target, positional


def _k(cls, m, i=0):
    return "%s.%s#%d" % (cls, m, i)


PG = "Neo4jPropertyGraph"
IM = "Neo4jGraphImporter"


def _simple(name, method, idents=(), values=(), maps=(), cls=PG, own=None, **kw):
    own = own or cls
    return Call(name, cls, method, idents, values, maps, expect=lambda c, nv: [(_k(own, method), 0)], **kw)


def calls():
    ge = (_k(PG, "graph_exists"), 0)
    L = [
        Call("validate_graph", PG, "validate_graph", kwargs=lambda c: {"validate_json": False},
             expect=lambda c, nv: [(_k(PG, "_validate_graph"), i) for i in range(nv(_k(PG, "_validate_graph")))]),
        _simple("delete_graph", "delete_graph"),
        _simple("get_all_nodes_by_class", "get_all_nodes_by_class", {"label": "classes"}),
        _simple("get_all_nodes_by_class_and_type", "get_all_nodes_by_class_and_type", {"label": "classes"}, ["ntype"]),
        _simple("list_all_node_ids", "list_all_node_ids"),
        _simple("get_node_properties", "get_node_properties", values=["node_id"]),
        Call("get_node_json_property_as_object", PG, "get_node_json_property_as_object", {"prop_name": "props"}, ["node_id"],
             expect=lambda c, nv: [(_k(PG, "get_node_properties"), 0)]),
        _simple("get_link_properties", "get_link_properties", values=["node_a", "node_b"]),
        _simple("update_node_property", "update_node_property", {"prop_name": "props"}, ["node_id", "prop_val"]),
        _simple("unset_node_property", "unset_node_property", {"prop_name": "props_unsettable"}, ["node_id"]),
        _simple("update_nodes_property", "update_nodes_property", {"prop_name": "props"}, ["prop_val"]),
        _simple("update_node_properties", "update_node_properties", values=["node_id"], maps=["props!"]),
        _simple("update_link_property", "update_link_property", {"kind": "rels", "prop_name": "props"}, ["node_a", "node_b", "prop_val"]),
        _simple("unset_link_property", "unset_link_property", {"kind": "rels", "prop_name": "props"}, ["node_a", "node_b"]),
        _simple("update_link_properties", "update_link_properties", {"kind": "rels"}, ["node_a", "node_b"], ["props!"]),
        Call("serialize_graph", PG, "serialize_graph", expect=lambda c, nv: [(_k(PG, "serialize_graph", 0), 0), (_k(PG, "serialize_graph", 1), 0)]),
        _simple("graph_exists", "graph_exists"),
        Call("get_nodes_on_shortest_path", PG, "get_nodes_on_shortest_path", {"rel": "rels?"}, ["node_a", "node_z"],
             expect=lambda c, nv: [(_k(PG, "get_nodes_on_shortest_path"), 0 if c["idents"].get("rel") is None else 1)]),
        Call("get_nodes_on_path_with_hops", PG, "get_nodes_on_path_with_hops", values=["node_a", "node_z", "cut_off"],
             kwargs=lambda c: {"hops": list(c["hops"]) if "hops" in c else [c["values"]["node_z"]]},
             expect=lambda c, nv: [(_k(PG, "get_nodes_on_path_with_hops"), 0)]),
        Call("get_first_neighbor", PG, "get_first_neighbor", {"rel": "rels", "node_label": "classes"}, ["node_id"],
             expect=lambda c, nv: [(_k(PG, "get_first_neighbor"), 0)]),
        Call("get_first_and_second_neighbor", PG, "get_first_and_second_neighbor",
             {"rel1": "rels", "node1_label": "classes", "rel2": "rels", "node2_label": "classes"}, ["node_id"],
             expect=lambda c, nv: [(_k(PG, "get_first_and_second_neighbor"), 0)]),
        _simple("delete_node", "delete_node", values=["node_id"]),
        _simple("node_exists", "node_exists", {"label": "classes"}, ["node_id"]),
        _simple("add_node", "add_node", {"label": "classes"}, ["node_id"], ["props"]),
        _simple("add_link", "add_link", {"rel": "rels"}, ["node_a", "node_b"], ["props"]),
        Call("find_matching_nodes", PG, "find_matching_nodes", kwargs=lambda c: {"other_graph": "OTHER"},
             expect=lambda c, nv: [ge + ("other",), (_k(PG, "find_matching_nodes"), 0)]),
        Call("merge_nodes", PG, "merge_nodes", values=["node_id"], maps=["merge_properties"], kwargs=lambda c: {"other_graph": "OTHER"},
             expect=lambda c, nv: [ge + ("other",), (_k(PG, "merge_nodes"), 1 if c["maps"].get("merge_properties") is None else 0)]),
        _simple("get_stitch_nodes", "get_stitch_nodes"),
        _simple("check_node_unique", "check_node_unique", {"label": "classes"}, ["name"]),
        Call("get_graph_diff", PG, "get_graph_diff", {"label": "classes"}, positional=("OTHER", "label"),
             expect=lambda c, nv: [(_k(PG, "get_graph_diff"), 0)]),
        Call("get_graph_property_diff", PG, "get_graph_property_diff", {"label": "classes"}, positional=("OTHER", "label"),
             expect=lambda c, nv: [(_k(PG, "get_graph_property_diff"), 0)]),
        # importer
        Call("importer._add_indexes", IM, "_add_indexes", target="importer",
             expect=lambda c, nv: [(_k(IM, "_add_indexes"), i) for i in range(nv(_k(IM, "_add_indexes")))]),
        Call("importer._import_graph", IM, "_import_graph", values=["graphml_file", "graph_id"], target="importer",
             positional=("graphml_file", "graph_id"),
             expect=lambda c, nv: [(_k(IM, "delete_graph"), 0), (_k(IM, "_import_graph", 0), 0), (_k(IM, "_import_graph", 1), 0)]),
        Call("importer.delete_all_graphs", IM, "delete_all_graphs", target="importer", expect=lambda c, nv: [(_k(IM, "delete_all_graphs"), 0)]),
        Call("importer.delete_graph", IM, "delete_graph", values=["graph_id"], target="importer", expect=lambda c, nv: [(_k(IM, "delete_graph"), 0)]),
        Call("importer.cast_graph", IM, "cast_graph", values=["graph_id"], target="importer", expect=lambda c, nv: [ge]),
        # CBM
        Call("cbm.get_matching_nodes_with_components", "Neo4jCBMGraph", "get_matching_nodes_with_components", {"label": "classes"},
             maps=["props!", "comps"],
             expect=lambda c, nv: [(_k("Neo4jCBMGraph", "get_matching_nodes_with_components"), 0 if not comp_rows(c) else 1)]),
    ]
    for m in ("get_intersite_links", "get_sites", "get_disconnected_sites", "get_connected_sites", "get_facility_ports"):
        L.append(_simple("cbm." + m, m, cls="Neo4jCBMGraph"))
    L += [
        _simple("asm.check_node_name", "check_node_name", {"label": "classes"}, ["node_id", "name"], cls="Neo4jASM"),
        Call("asm.find_node_by_name", "Neo4jASM", "find_node_by_name", {"label": "classes"}, ["node_name"],
             kwargs=lambda c: {}, expect=lambda c, nv: [(_k("Neo4jASM", "find_node_by_name"), 0)]),
    ]
    return L


CALLS = None


def call_by_name(name):
    global CALLS
    if CALLS is None:
        CALLS = {c.name: c for c in calls()}
    return CALLS[name]


def classes():
    from fim.graph.neo4j_property_graph import Neo4jPropertyGraph
    from fim.graph.resources.neo4j_cbm import Neo4jCBMGraph
    from fim.graph.slices.neo4j_asm import Neo4jASM
    from fim.graph.resources.neo4j_adm import Neo4jADMGraph
    from fim.graph.resources.neo4j_arm import Neo4jARMGraph
    return {"Neo4jPropertyGraph": Neo4jPropertyGraph, "Neo4jCBMGraph": Neo4jCBMGraph, "Neo4jASM": Neo4jASM,
            "Neo4jADMGraph": Neo4jADMGraph, "Neo4jARMGraph": Neo4jARMGraph}


def make_graph(clsname, gid, imp):
    K = classes()
    if clsname == "Neo4jARMGraph":
        return K[clsname](graph=K["Neo4jPropertyGraph"](graph_id=gid, importer=imp))
    return K[clsname](graph_id=gid, importer=imp)


def comp_rows(case):
    """(type, model, count) rows the way neo4j_cbm.py groups requested components"""
    comps = case["maps"].get("comps")
    rows = {}
    for t, m in comps or []:
        if t != "SharedNIC":
            rows[(t, m)] = rows.get((t, m), 0) + 1
        else:
            rows[(t, m)] = 1
    return [(t, m, n) for (t, m), n in rows.items()]


def build_comps(rows):
    from fim.slivers.attached_components import AttachedComponentsInfo, ComponentSliver, ComponentType
    if rows is None:
        return None
    ci = AttachedComponentsInfo()
    for i, (t, m) in enumerate(rows):
        cs = ComponentSliver()
        cs.node_id = "c%d" % i
        cs.resource_name = "c%d" % i
        cs.resource_type = ComponentType[t] if t is not None else None
        cs.resource_model = m
        ci.add_device(cs)
    return ci


_RUN_LINES = {}


def _scan_runs(fn):
    """{line: 'Class.method#k'} for every `<x>.run(...)` call of every method of every class of one source file: k = rank of the
    line among the run() calls of the method (a plain ast scan, independent of the translator)"""
    import ast
    if fn not in _RUN_LINES:
        tab = {}
        try:
            tree = ast.parse(open(fn).read())
            for cls in [n for n in tree.body if isinstance(n, ast.ClassDef)]:
                for f in [n for n in cls.body if isinstance(n, (ast.FunctionDef, ast.AsyncFunctionDef))]:
                    lines = sorted({c.lineno for c in ast.walk(f) if isinstance(c, ast.Call) and isinstance(c.func, ast.Attribute)
                                    and c.func.attr == "run"})
                    for k, ln in enumerate(lines):
                        tab[ln] = "%s.%s#%d" % (cls.name, f.name, k)
        except (OSError, SyntaxError):
            pass
        _RUN_LINES[fn] = tab
    return _RUN_LINES[fn]


def site_of(where):
    """call-site key `Class.method#k` of the backend frame that called run()"""
    fn, line, qual = where
    return _scan_runs(fn).get(line, "%s@%d" % (qual, line))


def source_sites():
    """every run() call site the five backend modules have TODAY (the harness's own scan of the files the classes were loaded
    from) - what the correspondence has to reach, whether or not the translator knows the site"""
    import sys
    out = set()
    for rel in cypher.MODULES:
        mod = sys.modules.get(rel[:-3].replace("/", "."))
        fn = getattr(mod, "__file__", None) if mod is not None else None
        if fn is None:
            classes()
            mod = sys.modules.get(rel[:-3].replace("/", "."))
            fn = getattr(mod, "__file__", None) if mod is not None else None
        if fn:
            out |= set(_scan_runs(fn).values())
    return out


def drive(case, via=None, canned=None):
    """run one backend call; -> (recorded [(text, sorted param names, params)], error kind or None).  `canned`: the result
    sets the stand-in driver answers with (lib_fake_neo4j; default: the permissive one-record answers)"""
    from fim.graph.neo4j_property_graph import Neo4jGraphImporter
    call = call_by_name(case["call"])
    imp = fake.make_importer(canned)
    gid = case["values"].get("graph_id", "G1") if call.target == "graph" else "G1"
    oid = case["values"].get("other_graph_id", "G2")
    other = make_graph("Neo4jPropertyGraph", oid, imp)
    if call.target == "importer":
        obj = imp
        Neo4jGraphImporter.index_initialized = False
    else:
        obj = make_graph(via or call.cls, gid, imp)
    kw = {}
    for p in call.idents:
        v = case["idents"].get(p)
        if v is not None or call.idents[p].endswith("?"):
            kw[p] = v
    for p in call.values:
        if p in ("graph_id", "other_graph_id") and call.target == "graph":
            continue
        kw[p] = case["values"][p]
    for m in call.maps:
        mm = m.rstrip("!")
        rows = case["maps"].get(mm)
        if mm == "comps":
            kw["comps"] = build_comps(rows)
        else:
            kw[mm] = None if rows is None else {k: v for k, v in rows}
    if call.kwargs:
        kw.update(call.kwargs(case))
    for k in case.get("omit", []):      # optional arguments left to their defaults
        kw.pop(k, None)
    for k in list(kw):
        if kw[k] == "OTHER":
            kw[k] = other
    args = []
    for p in call.positional:
        args.append(other if p == "OTHER" else kw.pop(p))
    if call.name == "asm.find_node_by_name":
        kw = {"node_name": case["values"]["node_name"], "label": case["idents"]["label"]}
    imp.driver.take()
    e = None
    try:
        getattr(obj, call.method)(*args, **kw)
    except Exception as ex:       # the stand-in's canned answers may not satisfy the caller; the statements are what matters
        e = err_kind(ex)
    rec = [(t, sorted(p), p) for t, p in imp.driver.take()]
    drive.where = [site_of(w) for w in imp.driver.last_where]
    if call.target == "importer":
        Neo4jGraphImporter.index_initialized = True
    return rec, e


def fmt(v):
    return v if isinstance(v, str) else format(v, "")


def model_env(case, which=None):
    """the environment handed to the Lean driver for one expected statement"""
    call = call_by_name(case["call"])
    idents = [[k, v] for k, v in sorted(case["idents"].items()) if v is not None]
    values = {k: fmt(v) for k, v in case["values"].items()}
    values.setdefault("graph_id", "G1")
    values.setdefault("other_graph_id", "G2")
    if which == "other":
        values["graph_id"] = values["other_graph_id"]
    if call.name == "importer.cast_graph":
        pass
    maps = []
    for m in ("props", "merge_properties"):
        rows = case["maps"].get(m)
        if rows is not None:
            if m == "props":
                maps.append([m, [[[["k", fmt(k)]], [["v", fmt(v)]]] for k, v in rows]])
            else:
                maps.append([m, [[[["k", fmt(k)], ["v", fmt(v)]], []] for k, v in rows]])
    if case["maps"].get("comps") is not None:
        rr = []
        for t, mdl, n in comp_rows(case):
            ids = ([["resource_type", t]] if t is not None else []) + [["count", str(n)]]
            vals = [["resource_model", mdl]] if mdl is not None else []
            rr.append([ids, vals])
        maps.append(["component_counts", rr])
    return idents, [[k, v] for k, v in sorted(values.items())], maps


# ------------------------------------------------------------------------------------------------------------
# case generation

ADVERSARIAL = [
    "x' }) DETACH DELETE s //", "x'} DETACH DELETE s //", 'a"b', "it's", "back\\slash", "trail\\", "{brace}", "{{dbl}}", "$graphId", "$nodeId x",
    "line1\nline2", "tab\there", "cr\rlf", "MATCH (n) DETACH DELETE n", "' OR 1=1 //", '" }) RETURN 1 //', "`tick`", "a, b: 'c'", "}) (", "[x]",
    "caf\u00e9 \u2192 \u4e2d", "", " ", "\\'", "\\\\'", "/* c */ // d", "'", '"', "\\u0041", "{name}", "$", "$$", "1; DROP", "null", "RETURN properties(s)",
]
BENIGN = ["alpha", "Beta7", "site_A", "renc-w1", "42", "x.y.z"]


def adv_value(rng):
    r = rng.random()
    if r < 0.6:
        return rng.choice(ADVERSARIAL)
    if r < 0.8:
        return rng.choice(BENIGN) + rng.choice(ADVERSARIAL) + rng.choice(BENIGN)
    if r < 0.9:
        return "".join(rng.choice("'\"\\{}$\n `()[]:,;/*abcXYZ0 ") for _ in range(rng.randrange(0, 12)))
    return rng.choice([0, 7, -3, 2.5, True])


def ident_choices(call, rng, limit):
    """all combinations of the call's identifier slots (None for optional ones), cut to `limit` by seeded sampling"""
    V = voc()
    slots = sorted(call.idents)
    doms = []
    for s in slots:
        d = call.idents[s]
        if d == "props_unsettable":
            from fim.graph.abc_property_graph import ABCPropertyGraph
            dom = [p for p in V["props"] if p not in ABCPropertyGraph.NO_UNSET_PROPERTIES]
        elif d.endswith("?"):
            dom = [None] + V[d[:-1]]
        else:
            dom = V[d]
        doms.append(dom)
    total = 1
    for d in doms:
        total *= len(d)
    if total <= limit:
        combos = list(itertools.product(*doms))
    else:
        combos = [tuple(d[0] for d in doms), tuple(d[-1] for d in doms)]
        seen = set(combos)
        # every value of every slot at least once, then random
        for i, d in enumerate(doms):
            for v in d:
                c = tuple(v if j == i else rng.choice(doms[j]) for j in range(len(doms)))
                if c not in seen:
                    seen.add(c)
                    combos.append(c)
        while len(combos) < limit:
            c = tuple(rng.choice(d) for d in doms)
            if c not in seen:
                seen.add(c)
                combos.append(c)
    return [dict(zip(slots, c)) for c in combos], total


def gen_values(call, rng, mode):
    """mode: 'benign' | 'adv'"""
    pick = (lambda: rng.choice(BENIGN)) if mode == "benign" else (lambda: adv_value(rng))
    pick_s = (lambda: rng.choice(BENIGN)) if mode == "benign" else (lambda: fmt(adv_value(rng)) if rng.random() < 0.9 else rng.choice(ADVERSARIAL))
    vals = {}
    for p in call.values:
        vals[p] = pick_s() if p != "cut_off" else (rng.choice([1, 5, 100]) if mode == "benign" else rng.choice([100, "5", pick_s()]))
    vals["graph_id"] = vals.get("graph_id") or pick_s() or "G1"
    vals["other_graph_id"] = pick_s() or "G2"
    return vals


def gen_maps(call, rng, mode, keys=None):
    V = voc()
    maps = {}
    for m in call.maps:
        must = m.endswith("!")
        mm = m.rstrip("!")
        if keys is not None:
            ks = keys.get(mm)
        elif mm == "props":
            n = rng.choice([0, 1, 1, 2, 3])
            ks = rng.sample(V["props"], n) if (n or must or rng.random() < 0.6) else None     # "!" = the call asserts props is not None
        elif mm == "merge_properties":
            ks = None if rng.random() < 0.3 else rng.sample(MERGE_KEYS, rng.choice([0, 1, 2, 3]))
        else:
            ks = None if rng.random() < 0.3 else [(rng.choice(["GPU", "SmartNIC", "SharedNIC", "NVME", "FPGA"]), rng.random() < 0.8)
                                                 for _ in range(rng.choice([0, 1, 2, 3, 4]))]
        if ks is None:
            maps[mm] = None
        elif mm == "props":
            maps[mm] = [[k, (rng.choice(BENIGN) if mode == "benign" else
                             (fmt(adv_value(rng)) if (must or call.name.startswith("cbm")) else adv_value(rng)))] for k in ks]
        elif mm == "merge_properties":
            # merge behaviours are identifiers (closed vocabulary): an adversarial run keeps them
            maps[mm] = [[k[0], k[1]] if isinstance(k, (list, tuple)) else [k, rng.choice(MERGE_VALS)] for k in ks]
        else:
            models = {}
            rows = []
            for t, has_model in ks:
                if has_model:
                    mdl = models.setdefault(t, rng.choice(BENIGN) if mode == "benign" else fmt(adv_value(rng)))
                else:
                    mdl = None
                rows.append([t, mdl])
            maps[mm] = rows
    return maps


def map_keys(maps):
    out = {}
    for m, rows in maps.items():
        if rows is None:
            out[m] = None
        elif m == "comps":
            out[m] = [(t, mdl is not None) for t, mdl in rows]
        elif m == "merge_properties":
            out[m] = [(k, v) for k, v in rows]
        else:
            out[m] = [k for k, _ in rows]
    return out


def nontrivial(case):
    s = json.dumps([case["values"], case["maps"]])
    return any(ch in s for ch in "'\\{}$`") or '\\"' in s or "\\n" in s


def corpus_cases():
    out = []
    for fn in sorted(glob.glob(os.path.join(CORPUS_DIR, ID, "*.json"))):
        with open(fn) as f:
            d = json.load(f)
        for c in d.get("cases", [d] if "call" in d else []):
            out.append(c)
    return out


def shape_of(rows):
    return "None" if rows is None else ("empty" if len(rows) == 0 else ("one" if len(rows) == 1 else "several"))


def corner_groups(call, rng):
    """deterministic corner cases, always generated first: EVERY optional / container argument of the call in every shape, in every
    combination - a mapping None (where the call allows it), EMPTY, with one, two and three entries (components: also a type
    without model and a SharedNIC); every optional identifier both defaulted and supplied; the hop list empty / one / several; an
    optional scalar both defaulted (omitted) and supplied"""
    V = voc()
    opts = []
    for m in call.maps:
        must = m.endswith("!")
        mm = m.rstrip("!")
        one = {"props": [V["props"][0]], "merge_properties": [("name", "overwrite")], "comps": [("GPU", True)]}[mm]
        two = {"props": V["props"][1:3], "merge_properties": [("name", "discard"), ("`.*`", "combine")],
               "comps": [("GPU", True), ("GPU", True), ("SharedNIC", False)]}[mm]
        three = {"props": V["props"][3:6], "merge_properties": [("Capacities", "combine"), ("name", "discard"), ("`addr.*`", "overwrite")],
                 "comps": [("SmartNIC", True), ("GPU", False), ("NVME", True), ("NVME", True)]}[mm]
        opts.append([(mm, k) for k in (([] if must else [None]) + [[], one, two, three])])
    id_opts = []
    for slot in sorted(call.idents):
        d = call.idents[slot]
        dom = V["props" if d == "props_unsettable" else d.rstrip("?")]
        first = [p for p in dom if p not in ("GraphID", "NodeID", "Class", "Name", "Type")][0] if d == "props_unsettable" else dom[0]
        id_opts.append([(slot, v) for v in (([None] if d.endswith("?") else []) + [first])])
    flag_sets = [{}]
    if call.name == "get_nodes_on_path_with_hops":
        flag_sets = [dict(hops=h, **o) for h in ([], ["h1"], ["h1", "h2", "h3"]) for o in ({}, {"omit": ["cut_off"]})]
    out = []
    for mc in itertools.product(*opts):
        for ic in itertools.product(*id_opts):
            keys = dict(mc)
            for flags in flag_sets:
                base = dict({"call": call.name, "idents": dict(ic), "values": gen_values(call, rng, "benign"),
                             "maps": gen_maps(call, rng, "benign", keys=keys)}, **flags)
                adv = dict({"call": call.name, "idents": dict(ic), "values": gen_values(call, rng, "adv"),
                            "maps": gen_maps(call, rng, "adv", keys=keys)}, **flags)
                if "hops" in flags:
                    adv["hops"] = [fmt(adv_value(rng)) for _ in flags["hops"]]
                out.append((base, [adv]))
    return out


# falsy-but-legal VALUES inside a mapping argument: a setter that decides what to put into the text by truth value / `is None`
# per element (instead of per mapping) shows only when such a value sits next to other entries
FALSY_VALUES = [None, "", 0, False, []]


def falsy_groups(rng, which=("props",)):
    """deterministic: every call taking a mapping x 1, 2, 3 entries x every POSITION (only / first / middle / last) x every falsy
    value, and all entries falsy at once.  -> [(benign base, [variants])]"""
    V = voc()
    out = []
    for call in calls():
        for m in call.maps:
            mm = m.rstrip("!")
            if mm not in which or mm == "comps":
                continue
            for n in (1, 2, 3):
                ks = {"props": V["props"][7:7 + n], "merge_properties": MERGE_KEYS[:n]}[mm]
                keys = {x.rstrip("!"): ([] if x.rstrip("!") != mm else list(ks)) for x in call.maps}
                ids = {slot: (None if d.endswith("?") else V["props" if d == "props_unsettable" else d.rstrip("?")][0])
                       for slot, d in call.idents.items()}
                base = {"call": call.name, "idents": ids, "values": gen_values(call, rng, "benign"),
                        "maps": gen_maps(call, rng, "benign", keys=keys)}
                advs = []
                # (get_matching_nodes_with_components concatenates: its values are strings by contract)
                for f in ([""] if call.name.startswith("cbm") else FALSY_VALUES):
                    for pos in list(range(n)) + ([None] if n > 1 else []):
                        a = json.loads(json.dumps(base))
                        a["maps"][mm] = [[k, (f if pos is None or i == pos else v)] for i, (k, v) in enumerate(base["maps"][mm])]
                        a["falsy"] = [mm, n, "all" if pos is None else pos, repr(f)]
                        advs.append(a)
                out.append((base, advs))
    return out


def count_shapes(res, case):
    """argument-shape histogram for the evidence: which shapes of every optional / container argument were driven"""
    for m, rows in case["maps"].items():
        res.count("shape:%s:%s=%s" % (case["call"], m, shape_of(rows)))
    call = call_by_name(case["call"])
    for slot, d in call.idents.items():
        if d.endswith("?"):
            res.count("shape:%s:%s=%s" % (case["call"], slot, "None" if case["idents"].get(slot) is None else "given"))
    if "hops" in case:
        res.count("shape:%s:hops=%s" % (case["call"], shape_of(case["hops"])))
    for k in case.get("omit", []):
        res.count("shape:%s:%s=default" % (case["call"], k))


def gen_cases(ctx, tag, per_call_idents, n_values, min_groups=8):
    """-> list of (benign case, [adversarial cases with the same identifiers and map keys])"""
    rng = ctx.sub_rng(tag)
    groups = []
    for call in calls():
        groups.extend(corner_groups(call, rng))
        combos, total = ident_choices(call, rng, per_call_idents)
        # calls with few identifier choices but stored values / mappings get more value assignments
        if (call.values or call.maps) and len(combos) < min_groups:
            combos = (combos * min_groups)[:max(min_groups, len(combos))]
        for ids in combos:
            base = {"call": call.name, "idents": ids, "values": gen_values(call, rng, "benign"), "maps": gen_maps(call, rng, "benign")}
            nh = None
            if call.name == "get_nodes_on_path_with_hops" and rng.random() < 0.8:
                nh = rng.choice([0, 1, 2, 4])
                base["hops"] = [rng.choice(BENIGN) for _ in range(nh)]
            keys = map_keys(base["maps"])
            advs = []
            for _ in range(n_values):
                a = {"call": call.name, "idents": ids, "values": gen_values(call, rng, "adv"), "maps": gen_maps(call, rng, "adv", keys=keys)}
                if nh is not None:
                    a["hops"] = [fmt(adv_value(rng)) for _ in range(nh)]
                advs.append(a)
            groups.append((base, advs))
    return groups


# ------------------------------------------------------------------------------------------------------------
# correspondence: recorded text == Lean rendering of the generated template; Lean lint == Python lint

def nvariants_table():
    """{call-site key: number of variants} of the templates the Lean model was BUILT from: read from Generated/Cypher.lean (when the
    translator does not recognise changed source, core restores the file of the unchanged tree and this table with it - the
    correspondence then reports what the changed code does differently; re-running the extractor here would only crash)"""
    from core import LEAN_DIR
    tab = {}
    with open(os.path.join(LEAN_DIR, "FimVerif", "Generated", "Cypher.lean")) as f:
        for m in re.finditer(r'key := t!"((?:[^"\\]|\\.)*)", variant := (\d+),', f.read()):
            tab[m.group(1)] = max(tab.get(m.group(1), 0), int(m.group(2)) + 1)
    return tab


def correspondence(ctx, res):
    tab = nvariants_table()
    nv = lambda k: tab.get(k, 0)
    driven_keys = set()
    driven_variants = set()
    reached = set()          # call sites (harness's own scan of the frame that called run()) reached by anything the correspondence ran
    groups = gen_cases(ctx, "corr", ctx.scale(40, 100000), ctx.scale(2, 6), ctx.scale(8, 40))
    cases = []
    for c in corpus_cases():
        if "base" in c:
            cases.append(c["base"])
            cases.extend(c.get("advs", []))
        else:
            cases.append(c)
    for b, advs in groups:
        cases.append(b)
        cases.extend(advs)
    for b, advs in falsy_groups(ctx.sub_rng("falsy")):
        cases.append(b)
        cases.extend(advs)
        res.count("falsy-map-values", len(advs))
    reqs, meta = [], []
    vias = ["Neo4jCBMGraph", "Neo4jASM", "Neo4jADMGraph", "Neo4jARMGraph"]
    for ci, case in enumerate(cases):
        call = call_by_name(case["call"])
        # inherited operations are also driven through the four subclasses (round robin)
        via = None
        if call.target == "graph" and call.cls == PG and ci % 3 == 0:
            via = vias[(ci // 3) % 4]
        rec, e = drive(case, via)
        where = list(drive.where)
        reached.update(where)
        exp = call.expect(case, nv)
        res.count("call:" + call.name)
        count_shapes(res, case)
        if via:
            res.count("via:" + via)
        if e:
            res.count("impl-err:" + e)
        if len(rec) != len(exp):
            res.disagreements.append({"case": case, "impl": [r[0] for r in rec], "model": "expected %d statements: %s" % (len(exp), exp)})
            continue
        if where != [ex[0] for ex in exp]:
            res.disagreements.append({"case": case, "impl": {"call sites": where, "statements": [r[0] for r in rec]},
                                      "model": "expected the statements of the call sites %s" % [ex[0] for ex in exp]})
            continue
        for (text, pnames, _), ex in zip(rec, exp):
            key, variant = ex[0], ex[1]
            driven_keys.add(key)
            ids, vals, maps = model_env(case, ex[2] if len(ex) > 2 else None)
            reqs.append(json.dumps(["render", key, variant, ids, vals, maps]))
            meta.append((case, key, variant, text, pnames))
    out = LeanDriver("C19").run(reqs)
    # The harness names the variant (branch / table entry) it expects to have run.  When the text differs and the call site has
    # other variants, the recorded text may still be the rendering of another variant that the model says can run in this
    # environment (a rewrite that only adds or reorders branches): those are tried before a disagreement is recorded.
    retry, retry_meta = [], []
    for i, ((case, key, variant, text, pnames), line) in enumerate(zip(meta, out)):
        m = json.loads(line)
        if (m[0] != "ok" or m[1].get("text") != text or not m[1].get("reachable", True)) and nv(key) > 1:
            r = json.loads(reqs[i])
            for v in range(nv(key)):
                if v != variant:
                    retry.append(json.dumps(r[:2] + [v] + r[3:]))
                    retry_meta.append((i, v))
    if retry:
        for (i, v), line in zip(retry_meta, LeanDriver("C19").run(retry)):
            m = json.loads(line)
            if m[0] == "ok" and m[1].get("reachable") and m[1].get("text") == meta[i][3]:
                cur = json.loads(out[i])
                if cur[0] != "ok" or cur[1].get("text") != meta[i][3] or not cur[1].get("reachable", True):
                    out[i] = line
                    meta[i] = (meta[i][0], meta[i][1], v, meta[i][3], meta[i][4])
                    res.count("variant-by-text")
    for (case, key, variant, text, pnames), line in zip(meta, out):
        m = json.loads(line)
        res.evaluations += 1
        res.count("site:" + key)
        driven_variants.add((key, variant))
        impl = {"text": text, "supplied": pnames}
        impl.update(lint(text, pnames))
        if m[0] != "ok":
            res.disagreements.append({"case": case, "impl": impl, "model": m})
            continue
        mod = dict(m[1])
        mod["supplied"] = sorted(mod["supplied"])
        vf = mod.pop("vf")
        if not mod.pop("reachable", True):
            res.disagreements.append({"case": {"site": key, "variant": variant, "case": case}, "impl": impl,
                                      "model": "the model says this variant cannot run in this environment (guards)"})
            continue
        for d in impl["defects"]:
            res.count("lint:" + d)
        res.count("vf:%s" % vf)
        if nontrivial(case):
            res.nontrivial.add(canon([key, variant, case["idents"], case["values"], case["maps"]]))
        if mod != impl:
            res.disagreements.append({"case": {"site": key, "variant": variant, "case": case}, "impl": impl, "model": mod})
        res.sample({"site": key, "idents": case["idents"], "text": text[:200], "lint": impl["defects"]}, limit=3)
    lint_agreement(ctx, res, sorted({(text, tuple(pn)) for _, _, _, text, pn in meta}))
    # every generated call site must have been driven
    missing = sorted(set(tab) - driven_keys)
    if missing:
        res.disagreements.append({"case": "coverage", "impl": "call sites never reached by the harness", "model": missing})
    # ... and every run() call site the library has TODAY must be one of the generated table and must have been reached, under
    # some result scenario: statements that are only issued when earlier results are (non-)empty live behind the answers of the
    # stand-in driver, so every call is also run against empty results and the compound operations under every scenario
    extra = result_scenarios_reach(res, tab, reached)
    # ... and on a database that holds a graph (lib_c19_shadow): every public method of every Neo4j-backed class
    for name in shadow.ops():
        rec_s, where_s, _, _, _ = shadow.run_op(store_prims(), name)
        sites_s = [site_of(w) for w in where_s]
        reached.update(sites_s)
        res.count("store-op")
        for (text, _, _), w in zip(rec_s, sites_s):
            if w not in tab:
                extra.add(w)
                res.disagreements.append({"case": {"kind": "store", "op": name}, "impl": {"site": w, "text": text},
                                          "model": "no generated template for this call site"})
    npub, nmiss = store_coverage(res)
    ctx.notes.append("public methods of the Neo4j-backed classes (base classes included) driven as direct calls or on the store: "
                     "%d of %d; %d store operations" % (npub - nmiss, npub, len(shadow.ops())))
    src = source_sites()
    unknown = sorted((src | extra) - set(tab))
    if unknown:
        res.disagreements.append({"case": "coverage", "impl": "call sites of the library that have no generated template "
                                  "(an additional statement / method / branch)", "model": unknown})
    unreached = sorted((src | set(tab)) - reached)
    if unreached:
        res.disagreements.append({"case": "coverage", "impl": "call sites of the library never reached by the correspondence under any "
                                  "result scenario", "model": unreached})
    ctx.notes.append("call sites of the library reached under some result scenario: %d of %d (direct calls with permissive and empty "
                     "results, %d compound scenarios)" % (len((src | set(tab)) & reached), len(src | set(tab)), len(compound_kinds())))
    all_variants = {(k, v) for k, n in tab.items() for v in range(n)}
    missing_v = sorted(all_variants - driven_variants)
    if missing_v:
        res.disagreements.append({"case": "coverage", "impl": "template variants (if/else branches, table entries) never reached by the harness",
                                  "model": [list(x) for x in missing_v]})
    # every optional / container argument of every call must have been driven in every shape
    want = []
    for call in calls():
        for m in call.maps:
            for sh in (["empty", "one", "several"] + ([] if m.endswith("!") else ["None"])):
                want.append("shape:%s:%s=%s" % (call.name, m.rstrip("!"), sh))
        for slot, d in call.idents.items():
            if d.endswith("?"):
                want += ["shape:%s:%s=None" % (call.name, slot), "shape:%s:%s=given" % (call.name, slot)]
        if call.name == "get_nodes_on_path_with_hops":
            want += ["shape:%s:hops=%s" % (call.name, x) for x in ("empty", "one", "several")] + ["shape:%s:cut_off=default" % call.name]
    missing_shapes = [w for w in want if not res.hist.get(w)]
    if missing_shapes:
        res.disagreements.append({"case": "coverage", "impl": "argument shapes never driven", "model": missing_shapes})
    ctx.notes.append("argument shapes driven: %d of %d (None / empty / one / several per optional or container argument)" % (
        len(want) - len(missing_shapes), len(want)))
    ctx.notes.append("correspondence reached %d of %d template variants" % (len(all_variants & driven_variants), len(all_variants)))
    ctx.notes.append("correspondence drove %d call sites of %d generated" % (len(driven_keys), len(tab)))


def results_canned(v):
    """the permissive answers of the stand-in driver carrying the value `v` wherever a result carries a stored value"""
    from fim.slivers.capacities_labels import StructuralInfo
    v = fmt(v)
    return {"nodeids": [v, v + "2"], "common_ids": [v], "value": [v], "any": [v], "link_props": {"Class": "has", "Name": v},
            "node_props": {"Name": v, "Class": "NetworkNode", "Type": "Server", "StructuralInfo": StructuralInfo(adm_graph_ids=[v]).to_json()}}


def result_scenarios_reach(res, tab, reached):
    """what else the library issues when the driver answers differently: every call against EMPTY results, every compound
    operation under every result scenario.  A statement issued from a call site the generated table does not have is a
    disagreement (never an exception); -> the call sites seen that are not in the table"""
    rng = __import__("random").Random(0)
    extra = set()

    def note(case, rec, where):
        reached.update(where)
        for (text, _, _), w in zip(rec, where):
            if w not in tab:
                extra.add(w)
                res.disagreements.append({"case": case, "impl": {"site": w, "text": text},
                                          "model": "no generated template for this call site"})
    for call in calls():
        base = corner_groups(call, rng)[0][0]
        for name, canned in (("empty", {"empty": True}), ("values", results_canned("r1"))):
            rec, _ = drive(base, canned=canned)
            res.count("results:%s" % name)
            note({"kind": "results", "results": name, "base": base}, rec, list(drive.where))
    for kind in compound_kinds():
        rec, sites, _ = _compound_run(kind, ("cbm1", "adm1", "n1", "n2", "alpha"))
        res.count("compound:" + kind)
        note({"kind": "compound", "op": kind, "ids": ["cbm1", "adm1", "n1", "n2", "alpha"]}, rec, sites)
    return extra


MUT_WORDS = ["WHERE", "AND", "OR", "WITH", "RETURN", "MATCH", "SET", "YIELD", "CALL", "UNWIND", "UNION", "AS", "n", "x", "*", ",", "(", ")",
             "{", "}", "[", "]", ":", ".", "=", "'", '"', "`", "$p", "{{", "}}", "{name}", "//", "\\", "ORDER BY", "DETACH DELETE", "OPTIONAL", "IN",
             "NOT", "DISTINCT", "count(", "1", ";", "|", "-", ">", "<", "+"]


def mutate(text, rng):
    """a malformed (or differently formed) neighbour of a statement the backend really issues: both lint implementations
    must agree on it too"""
    words = re.findall(r"\s+|[A-Za-z_][A-Za-z_0-9]*|\$[A-Za-z_]\w*|\d+|.", text, re.S)
    if not words:
        return text
    k = rng.randrange(9)
    i = rng.randrange(len(words))
    j = rng.randrange(len(words))
    if k == 0:
        del words[i]
    elif k == 1:
        words.insert(i, words[j])
    elif k == 2:
        words[i], words[j] = words[j], words[i]
    elif k == 3:
        words.insert(i, " " + rng.choice(MUT_WORDS) + " ")
    elif k == 4:
        lo, hi = min(i, j), max(i, j)
        del words[lo:hi if hi - lo < 12 else lo + 12]
    elif k == 5:
        words = words[:i]
    elif k == 6:
        words[i] = rng.choice(MUT_WORDS)
    elif k == 7:
        ids = [n for n, w in enumerate(words) if re.fullmatch(r"[a-z][a-z0-9]?", w)]
        if ids:
            words[rng.choice(ids)] = rng.choice(["q", "n", "m", "a", "r"])
    else:
        words = words[i:]
    return "".join(words)


# the specification of the lint by example: valid Cypher of the kinds a harmless rewrite of the backend could introduce must stay
# clean (no false alarm), and each kind of malformation must be named.  Both implementations are run on every entry.
LINT_SUITE = [
    ("MATCH (n:GraphNode {GraphID: $g}) RETURN n.NodeID AS id ORDER BY id DESC SKIP 1 LIMIT 5", []),
    ("MATCH (n {GraphID: $g}) OPTIONAL MATCH (n)-[r:has]->(m) WITH DISTINCT n, count(m) AS c WHERE c > 1 RETURN n, c", []),
    ("MERGE (n:GraphNode {GraphID: $g}) ON CREATE SET n.Name = $g ON MATCH SET n.Seen = true RETURN n", []),
    ("CREATE CONSTRAINT nodeid_unique IF NOT EXISTS FOR (n:GraphNode) REQUIRE n.NodeID IS UNIQUE", []),
    ("CREATE INDEX graphid_name IF NOT EXISTS FOR (n:GraphNode) ON (n.GraphID, n.Name)", []),
    ("UNWIND $g AS x MATCH (n {NodeID: x}) SET n += {Seen: true} REMOVE n.Tmp", []),
    ("MATCH (n {GraphID: $g}) WHERE n.Name STARTS WITH 'a' AND NOT (n)-[:has]-() RETURN count(*) AS c", []),
    ("MATCH (n {GraphID: $g}) RETURN CASE WHEN n.Type = 'VM' THEN 1 ELSE 0 END AS vm UNION ALL MATCH (m {GraphID: $g}) RETURN 2 AS vm", []),
    ("MATCH p=(a {GraphID: $g})-[*1..3]->(b) WITH *, length(p) AS l RETURN a, b, l", []),
    ("MATCH (n {GraphID: $g}) DETACH DELETE n", []),
    ("CALL db.labels() YIELD label RETURN label", []),
    ("MATCH (n {GraphID: $g}) WITH n ORDER BY n.Name LIMIT 3 MATCH (n)-[:has]-(c) RETURN [x IN collect(c) WHERE x.Type = 'GPU' | x.NodeID] AS gpus", []),
    ("MATCH (n {GraphID: $g}) WHERE  RETURN n", ["empty-clause"]),
    ("MATCH (n {GraphID: $g}) WHERE n.a = 1 AND RETURN n", ["empty-clause"]),
    ("MATCH (n {GraphID: $g}) WHERE (OR n.a = 1) RETURN n", ["missing-operand"]),
    ("MATCH (n {GraphID: $g}) SET n.a =  RETURN n", ["missing-operand"]),
    ("MATCH (n {GraphID: $g, Name: }) RETURN n", ["missing-operand"]),
    ("MATCH (n {GraphID: $g, }) RETURN n", ["dangling-comma"]),
    ("MATCH (n {GraphID: $g}) RETURN n, ", ["dangling-comma"]),
    ("MATCH (n {GraphID: $g}) SET n += { , Name: 'a' } RETURN n", ["dangling-comma"]),
    ("MATCH (n {GraphID: $g}) SET n += { Name: 'a', , Site: 'b' } RETURN n", ["dangling-comma"]),
    ("MATCH (n {GraphID: $g}) SET n += { Name: 'a',  } RETURN n", ["dangling-comma"]),
    ("MATCH (n {GraphID: $g}) SET n += {  } RETURN n", []),
    ("CALL apoc.create.node([ 'GraphNode', 'X' ], { Class: 'X', , NodeID: 'n' });", ["dangling-comma"]),
    ("MATCH (n {GraphID: $g}) WHERE n.a = 1 WHERE n.b = 2 RETURN n", ["clause-order"]),
    ("MATCH (n {GraphID: $g}) RETURN n SET n.a = 1", ["clause-order"]),
    ("MATCH (n {GraphID: $g}) WHERE n.a = 1", ["clause-order"]),
    ("SET n.a = 1 RETURN 1", ["unbound-variable", "clause-order"]),
    ("MATCH (n {GraphID: $g}) WITH n.Name AS name RETURN n", ["unbound-variable"]),
    ("MATCH (n {GraphID: $g}) WHERE m.a = 1 MATCH (m) RETURN n", ["unbound-variable"]),
    ("MATCH (n {GraphID: $g}) RETURN n UNION MATCH (m) RETURN n", ["unbound-variable"]),
    ("MATCH (n {GraphID: $g}) CALL apoc.x.y(n) YIELD value RETURN valu", ["unbound-variable"]),
    ("MATCH (n {GraphID: $g}) RETURN n.{name}", ["unexpanded-template", "unbound-variable"]),
    ("MATCH (n {{GraphID: $g}}) RETURN n", ["unexpanded-template"]),
    ("MATCH (n {GraphID: $g} RETURN n", ["unbalanced", "clause-order"]),
    ("MATCH (n {GraphID: $g, Name: 'it's'}) RETURN n", ["unbalanced", "unbound-variable", "clause-order"]),
    ("MATCH (n {GraphID: $g, NodeID: $h}) RETURN n", ["missing-parameter"]),
]


def lint_agreement(ctx, res, stmts):
    """Model/Cypher.lean `lint` and the Python `lint` above are two implementations of one specification: they must return the same
    defects, unbound variables (in order) and missing parameters on every statement the backend issues AND on mutated neighbours of
    those statements (tokens deleted, duplicated, swapped, inserted, renamed; truncations)"""
    rng = ctx.sub_rng("lint-fuzz")
    per = ctx.scale(4, 60)
    for t, want in LINT_SUITE:
        got = lint(t, ["g"])["defects"]
        if got != want:
            res.disagreements.append({"case": {"lint-suite": t}, "impl": got, "model": "specified: %s" % want})
    cases = [(t, ["g"]) for t, _ in LINT_SUITE]
    for text, sup in stmts:
        cases.append((text, list(sup)))
        for _ in range(per):
            m = mutate(text, rng)
            for _ in range(rng.randrange(3)):
                m = mutate(m, rng)
            cases.append((m, list(sup) if rng.random() < 0.9 else list(sup)[1:]))
    out = LeanDriver("C19").run([json.dumps(["lint", t, sup]) for t, sup in cases])
    for (t, sup), line in zip(cases, out):
        m = json.loads(line)
        mine = lint(t, sup)
        res.evaluations += 1
        for d in mine["defects"] or ["well-formed"]:
            res.count("fuzz-lint:" + d)
        if m[0] != "ok" or m[1] != mine:
            res.disagreements.append({"case": {"lint": t, "supplied": sup}, "impl": mine, "model": m})


# ------------------------------------------------------------------------------------------------------------
# oracle: the property itself on the implementation

def check_wellformed(rec0, sites, res, case):
    for (text, pnames, _), site in zip(rec0, sites):
        for d in lint(text, pnames)["defects"]:
            res.violation("C19:%s:%s" % (site, d), "statement handed to the driver is malformed (%s)" % d,
                          case, observed=text, expected="balanced, expanded, bound, parameters supplied")


def diff_runs(rec0, sites, rec, supplied_vals):
    """the adversarial run must hand over the same texts, or texts that differ only inside string literals which decode back
    to a supplied value (a correctly escaped literal).  -> [(site, kind, observed, expected)]"""
    out = []
    for (t0, p0, _), (t1, p1, _), site in zip(rec0, rec, sites):
        if p1 != p0:
            out.append((site, "parameter-names", p1, p0))
        if t1 == t0:
            continue
        _, s0, c0, l0 = lex(t0)
        _, s1, c1, l1 = lex(t1)
        ok = c1 and s0 == s1 and len(l0) == len(l1)
        if ok:
            for (q0, a), (q1, b) in zip(l0, l1):
                if a != b and (q1 == "`" or cypher_unescape(b) not in supplied_vals):
                    ok = False
        if not ok:
            out.append((site, "value-in-text", t1, t0))
    return out


WHAT = {"parameter-names": "parameter names depend on stored values",
        "value-in-text": "a stored value is interpolated into the statement text without escaping"}
# what a leak is shown with when the value that exposed it is not enough on its own: a quote of either kind closing the literal,
# a trailing backslash swallowing the closing quote, a back-tick, braces and a parameter name
PAYLOADS = ["p'}) DETACH DELETE n //", 'p"}) DETACH DELETE n //', "p\\", "p`q", "{{p}} {p} $graphId"]
# falsy-but-valid scalars: an operation that decides what to put into the text by truth value instead of `is None` shows here
FALSY = ["", 0, False]


def supplied_values(case):
    out = set()
    for v in list(case["values"].values()) + [x[1] for x in (case["maps"].get("props") or [])] + \
            [x[1] for x in (case["maps"].get("comps") or []) if x[1] is not None]:
        out.add(fmt(v))
    for h in case.get("hops") or []:
        out.add(fmt(h))
    return out


def value_args(case):
    """names of the stored-value arguments of a case: every scalar value, the values of the property map, the component models,
    the hop ids"""
    out = ["values." + k for k in sorted(case["values"])]
    if case["maps"].get("props"):
        out.append("props.value")
    if any(m is not None for _, m in (case["maps"].get("comps") or [])):
        out.append("comps.model")
    if case.get("hops"):
        out.append("hops")
    return out


def with_arg(base, arg, src=None, payload=None):
    """`base` with the one stored-value argument `arg` replaced: by what `src` has there, or by `payload`"""
    c = json.loads(json.dumps(base))
    if arg.startswith("values."):
        k = arg[7:]
        c["values"][k] = src["values"][k] if src is not None else payload
    elif arg == "props.value":
        c["maps"]["props"] = [[k, (src["maps"]["props"][i][1] if src is not None else payload)] for i, (k, _) in enumerate(base["maps"]["props"])]
    elif arg == "comps.model":
        c["maps"]["comps"] = [[t, (None if m is None else (src["maps"]["comps"][i][1] if src is not None else payload))]
                              for i, (t, m) in enumerate(base["maps"]["comps"])]
    elif arg == "hops":
        c["hops"] = list(src["hops"]) if src is not None else [payload for _ in base["hops"]]
    return c


_SINGLE = {}


def single_run(base, single, rec0, sites):
    k = canon([base, single])
    if k not in _SINGLE:
        rec, _ = drive(single)
        _SINGLE[k] = [] if len(rec) != len(rec0) else diff_runs(rec0, sites, rec, supplied_values(single))
        if len(_SINGLE) > 20000:
            _SINGLE.clear()
    return _SINGLE[k]


def attribute(base, adv, rec0, sites, res, findings):
    """which ARGUMENT leaks: every stored-value argument is substituted on its own (first with the value the adversarial case has
    there, then with the fixed payloads); a leak is reported per (call site, kind, argument) with that single-argument case as
    replay, so that a further value leaking into an already listed statement is a different signature"""
    left = {(site, kind) for site, kind, _, _ in findings}
    for arg in value_args(adv):
        cands = [with_arg(base, arg, src=adv)] + [with_arg(base, arg, payload=pl) for pl in PAYLOADS]
        seen = set()
        for single in cands:
            for site, kind, obs, exp in single_run(base, single, rec0, sites):
                if (site, kind) in seen:
                    continue
                seen.add((site, kind))
                left.discard((site, kind))
                res.violation("C19:%s:%s:%s" % (site, kind, arg.replace("values.", "")), WHAT[kind] + " (argument %s)" % arg,
                              {"kind": "independent", "base": base, "adv": single}, observed=obs, expected=exp)
    for site, kind, obs, exp in findings:
        if (site, kind) in left:
            res.violation(unattributed_signature("C19:%s:%s:" % (site, kind), "C19:%s:%s:combination" % (site, kind)), WHAT[kind] + " (only several arguments together)",
                          {"kind": "independent", "base": base, "adv": adv}, observed=obs, expected=exp)


def check_group(base, advs, res, nv=None):
    """benign run: well-formed, $names supplied.  adversarial runs (same identifiers, same map keys): the text is the same, or
    differs only inside string literals that decode back to a supplied value."""
    call = call_by_name(base["call"])
    rec0, _ = drive(base)
    sites = list(drive.where)
    check_wellformed(rec0, sites, res, {"kind": "wellformed", "base": base})
    for adv in advs:
        rec, _ = drive(adv)
        res.evaluations += 1
        if nontrivial(adv):
            res.nontrivial.add(canon(adv))
        case = {"kind": "independent", "base": base, "adv": adv}
        if len(rec) != len(rec0):
            res.violation("C19:%s.%s:statement-count" % (call.cls, call.method), "number of statements depends on stored values",
                          case, observed=len(rec), expected=len(rec0))
            continue
        findings = diff_runs(rec0, sites, rec, supplied_values(adv))
        if findings:
            attribute(base, adv, rec0, sites, res, findings)


def argument_sweep(ctx, res):
    """deterministic: every call x every argument shape (corner_groups) x every stored-value argument x every payload, one argument
    at a time against the benign run"""
    rng = ctx.sub_rng("sweep")
    n = 0
    for call in calls():
        for base, _ in corner_groups(call, rng):
            rec0, _ = drive(base)
            sites = list(drive.where)
            for arg in value_args(base):
                for pl in PAYLOADS + FALSY:
                    single = with_arg(base, arg, payload=pl)
                    n += 1
                    f = single_run(base, single, rec0, sites)
                    if f:
                        attribute(base, single, rec0, sites, res, f)
    res.evaluations += n
    res.count("argument-sweep", n)


def falsy_sweep(ctx, res):
    """deterministic: falsy VALUES (None, '', 0, False, []) inside every mapping argument at every position: each statement is
    still well-formed (none of these values renders with a quote, so the lint speaks for the text as a whole: an empty map entry
    `{ a: 'x', , b: 'y' }` / `{ , a: 'x' }` / `{ a: 'x', }` is a dangling comma) and has the same text outside string literals as
    with benign values (an entry dropped or emptied because of its value makes the text depend on stored values)"""
    n = 0
    for base, advs in falsy_groups(ctx.sub_rng("falsy"), which=("props", "merge_properties")):
        rec0, _ = drive(base)
        sites = list(drive.where)
        for adv in advs:
            n += check_falsy(base, adv, rec0, sites, res)
    res.evaluations += n
    res.count("falsy-sweep", n)


def check_falsy(base, adv, rec0, sites, res):
    rec, _ = drive(adv)
    case = {"kind": "falsy", "base": base, "adv": adv}
    call = call_by_name(base["call"])
    if len(rec) != len(rec0):
        res.violation("C19:%s.%s:statement-count" % (call.cls, call.method), "number of statements depends on stored values",
                      case, observed=len(rec), expected=len(rec0))
        return 1
    check_wellformed(rec, sites, res, case)
    for (t0, _, _), (t1, _, _), site in zip(rec0, rec, sites):
        if lex(t0)[1] != lex(t1)[1]:
            res.violation("C19:%s:structure-depends-on-value:%s" % (site, adv["falsy"][0]),
                          "a falsy value (None / '' / 0 / False / []) in a mapping changes the statement text outside string literals",
                          case, observed=t1, expected=t0)
    return 1


def result_sweep(ctx, res):
    """deterministic: every call x every argument shape against the stand-in driver answering with (a) nothing, (b) benign records,
    (c) records carrying each payload: what is issued on empty results is well-formed too, and a value that comes back from the
    database must not reach the text of a later statement any more than a caller's argument may"""
    rng = ctx.sub_rng("sweep")
    n = 0
    for call in calls():
        for base, _ in corner_groups(call, rng):
            n += check_results(base, res)
    res.evaluations += n
    res.count("result-sweep", n)


def check_results(base, res, payloads=None):
    n = 0
    rec0, _ = drive(base, canned=results_canned("r1"))
    sites = list(drive.where)
    check_wellformed(rec0, sites, res, {"kind": "results", "base": base, "payload": "r1"})
    rec_e, _ = drive(base, canned={"empty": True})
    check_wellformed(rec_e, list(drive.where), res, {"kind": "results", "base": base, "payload": None})
    for pl in (PAYLOADS if payloads is None else payloads):
        rec, _ = drive(base, canned=results_canned(pl))
        n += 1
        if len(rec) != len(rec0):
            res.count("result-skip")
            continue
        for site, kind, obs, exp in diff_runs(rec0, sites, rec, supplied_values(base) | {pl, pl + "2"}):
            res.violation("C19:%s:%s:result" % (site, kind), WHAT[kind] + " (a value returned by an earlier query)",
                          {"kind": "results", "base": base, "payload": pl}, observed=obs, expected=exp)
    return n


def oracle(ctx, res, per_call=None, n_values=None):
    # histories first: a text that depends on earlier calls is then reported with the history that shows it
    history_sweep(ctx, res)
    # deterministic corpus (the known findings' triggering cases live there)
    for c in corpus_cases():
        if "base" in c:
            check_group(c["base"], c.get("advs", []), res)
            res.count("corpus")
    argument_sweep(ctx, res)
    falsy_sweep(ctx, res)
    result_sweep(ctx, res)
    store_sweep(ctx, res)
    groups = gen_cases(ctx, "oracle", per_call or ctx.scale(25, 100000), n_values or ctx.scale(6, 20), ctx.scale(10, 60))
    for base, advs in groups:
        res.count("call:" + base["call"])
        check_group(base, advs, res)
    # compound operations: every statement they issue must be well-formed
    compound(ctx, res)
    if groups:
        b, a = groups[len(groups) // 2]
        res.sample({"base": b, "adversarial": a[:1]})


# Result scenarios of the compound operations: which records the stand-in driver answers the reading statements with decides which
# follow-up statements the operation gets to issue.  `op:scenario`; every run() call site a scenario reaches counts as reached.
COMPOUNDS = {
    "merge_adm": ["", "empty-cbm", "delegations", "no-common-nodes"],
    "unmerge_adm": ["", "sole", "delegations", "no-nodes", "foreign"],
}
TEMP_ID = "00000000-0000-4000-8000-000000000000"


def compound_kinds():
    return [op + (":" + sc if sc else "") for op, scs in COMPOUNDS.items() for sc in scs]


def _compound_run(kind, ids):
    """merge_adm / unmerge_adm of the CBM against result sets built from `ids` (graph ids, node ids, names): what a database holding
    nodes with these caller-chosen ids / names / ADM stamps would answer.  Scenarios (after the colon):
      (none)           two nodes stamped with the ADM id AND another one (merge: one common node, no delegations)
      sole             unmerge: the nodes belong to the unmerged ADM ONLY (they are to be deleted)
      delegations      the ADM's nodes carry label and capacity delegations keyed by the ADM id (merge: written back through
                       update_node_properties; unmerge: erased)
      no-nodes         unmerge: the graph has no nodes;   foreign: the nodes are stamped with other ADMs only
      empty-cbm        merge: the CBM does not exist yet; no-common-nodes: CBM and ADM share no node id"""
    import io
    import networkx as nx
    from fim.slivers.capacities_labels import StructuralInfo
    op, _, scen = kind.partition(":")
    cbm_id, adm_id, n1, n2, name = ids
    stamp = {"sole": [adm_id], "foreign": ["other", "third"]}.get(scen, [adm_id, "other"])
    si = StructuralInfo(adm_graph_ids=stamp).to_json()
    g = nx.Graph()
    g.add_node(1, GraphID=adm_id, NodeID=n1, Class="NetworkNode", Name=name, Type="Server")
    g.add_node(2, GraphID=adm_id, NodeID=n2, Class="Component", Name=name, Type="GPU")
    g.add_edge(1, 2, Class="has")
    buf = io.BytesIO()
    nx.write_graphml(g, buf)
    props = {"Name": name, "Class": "NetworkNode", "Type": "Server", "StructuralInfo": si}
    deleg = json.dumps({adm_id: {"pool": name}})
    canned = {"graphml": buf.getvalue().decode(), "nodeids": [] if scen == "no-nodes" else [n1, n2],
              "common_ids": [] if scen == "no-common-nodes" else [n1], "node_props": props}
    with_deleg = dict(canned, node_props=dict(props, LabelDelegations=deleg, CapacityDelegations=deleg))
    imp = fake.make_importer()

    def answer(text, params):
        site = site_of(imp.driver.where[-1])
        gid = params.get("graphId")
        if scen == "empty-cbm" and site.endswith(".graph_exists#0") and gid == cbm_id:
            return {"records": []}
        if scen == "delegations" and (op == "unmerge_adm" or gid != cbm_id):
            return with_deleg       # merge: only the (temporary) ADM graph speaks for the resource, the CBM node has none
        return canned
    imp.driver.canned = answer
    cbm = make_graph("Neo4jCBMGraph", cbm_id, imp)
    e = None
    try:
        if op == "merge_adm":
            # uuid4 gives the temporary graph a fresh id on every run; pin it so that two runs are comparable
            import uuid
            orig = uuid.uuid4
            uuid.uuid4 = lambda: TEMP_ID
            try:
                cbm.merge_adm(adm=make_graph("Neo4jADMGraph", adm_id, imp))
            finally:
                uuid.uuid4 = orig
        else:
            cbm.unmerge_adm(graph_id=adm_id)
    except Exception as ex:
        e = err_kind(ex)
    rec = [(t, sorted(p), p) for t, p in imp.driver.take()]
    return rec, [site_of(w) for w in imp.driver.last_where], e


COMPOUND_IDS = ["cbm_graph_id", "adm_graph_id", "node_id_1", "node_id_2", "name"]


_KNOWN_PREFIX_CACHE = {}


def unattributed_signature(prefix, fallback):
    """A leak / defect at `prefix` = 'C19:<site>:<kind>:' that could not be attributed to one argument (the single-argument re-runs
    did not reproduce it, e.g. because a rewrite changed how many statements a call issues).  If the site already has a listed
    finding of that kind, it is the same root cause at the same call site: report it under that listed signature instead of inventing
    an unlisted '...combination' one (a NEW value reaching a listed site changes the generated template and breaks
    leaked_values_exact, so it is not hidden by this)."""
    if not _KNOWN_PREFIX_CACHE:
        import core as _core
        for k in _core.load_known("C19"):
            if k.get("status") == "known":
                _KNOWN_PREFIX_CACHE.setdefault(":".join(k["signature"].split(":")[:3]) + ":", k["signature"])
        _KNOWN_PREFIX_CACHE.setdefault("", "")
    return _KNOWN_PREFIX_CACHE.get(prefix, fallback)


def compound_diff(kind, benign, ids, rec0, sites, res):
    """one compound run with `ids` against the benign run; leaks are attributed to the single id that causes them"""
    rec, _, e = _compound_run(kind, ids)
    if len(rec) != len(rec0):
        res.count("compound-skip")
        return
    findings = diff_runs(rec0, sites, rec, set(ids))
    left = {(site, k) for site, k, _, _ in findings}
    if findings:
        for j in range(5):
            for val in [ids[j]] + [str(j) + pl for pl in PAYLOADS]:
                single = tuple(val if i == j else benign[i] for i in range(5))
                r1, _, _ = _compound_run(kind, single)
                hit = False
                if len(r1) == len(rec0):
                    for site, k, obs, exp in diff_runs(rec0, sites, r1, set(single)):
                        hit = True
                        left.discard((site, k))
                        res.violation("C19:%s:%s:%s.%s" % (site, k, kind.partition(":")[0], COMPOUND_IDS[j]),
                                      WHAT[k] + " (%s of %s)" % (COMPOUND_IDS[j], kind),
                                      {"kind": "compound", "op": kind, "ids": list(single), "base_ids": list(benign)}, observed=obs, expected=exp)
                if hit:
                    break
    for site, k, obs, exp in findings:
        if (site, k) in left:
            res.violation(unattributed_signature("C19:%s:%s:" % (site, k), "C19:%s:%s:%s.combination" % (site, k, kind.partition(":")[0])), WHAT[k],
                          {"kind": "compound", "op": kind, "ids": list(ids), "base_ids": list(benign)}, observed=obs, expected=exp)


def compound(ctx, res):
    """the CBM's compound operations (clone, import bookkeeping, delegation rewrite, node merge, unmerge) under every result scenario
    (COMPOUNDS: which records the reading statements are answered with decides which follow-up statements are issued): every
    statement they issue is well-formed, and issuing them with adversarial graph ids / node ids / names - as arguments AND as the
    values the driver's results carry (stored node ids, names, ADM stamps, delegation keys) - changes no statement text"""
    rng = ctx.sub_rng("compound")
    benign = ("cbm1", "adm1", "n1", "n2", "alpha")
    for kind in compound_kinds():
        rec0, sites, e0 = _compound_run(kind, benign)
        res.count("compound:%s:%d-statements" % (kind, len(rec0)))
        for s in sites:
            res.count("compound-site:" + s)
        if e0:
            res.count("compound-err:" + e0)
        check_wellformed(rec0, sites, res, {"kind": "compound", "op": kind, "ids": list(benign)})
        # deterministic: one id at a time, every payload
        for j in range(5):
            for pl in PAYLOADS:
                res.evaluations += 1
                compound_diff(kind, benign, tuple((str(j) + pl) if i == j else benign[i] for i in range(5)), rec0, sites, res)
        for i in range(ctx.scale(3, 30)):
            ids = tuple((fmt(adv_value(rng)) or "z") + str(j) for j in range(5))
            res.evaluations += 1
            compound_diff(kind, benign, ids, rec0, sites, res)


# ------------------------------------------------------------------------------------------------------------
# operations against a STORE (round 5): lib_c19_shadow

def store_prims():
    """(class, method) of every method that calls run() today (the harness's own scan)"""
    return {tuple(k.split("#")[0].split(".", 1)) for k in source_sites() if "@" not in k}


STORE_PAYLOADS = ["p'\"\\", "p`{x} $graphId"]
ONE_HANDLE_DIRECT = {"graph-id": "graph_id", "node-id": "node_id"}


def store_check(name, role, payload, base, res):
    """one operation on the world in which every string of `role` carries `payload`, against the benign run `base`"""
    rec0, sites0, e0 = base
    rec, where, e, _, known = shadow.run_op(store_prims(), name, role, payload)
    if e != e0:
        # a value the library validates (sliver names, label formats) stops the operation or its preparation: nothing to compare
        res.count("store-skip:" + str(e))
        return 0
    sites = [site_of(w) for w in where]
    case = {"kind": "store", "op": name, "role": role, "payload": payload}
    meth = name.split(":")[0]
    if name.endswith(":one-handle"):
        # one signature per call site and role, whichever reader came first (the case names the history)
        meth = meth.split(".")[0] + ".handle-history"
    if sorted(sites) == sorted(sites0) and sites != sites0:
        # same statements in another order: the library iterates over SETS of stored strings (delegation ids, common node ids), whose
        # order follows the strings' hashes.  Compared per call site as multisets of texts-without-literals.
        res.count("store-reordered")
        import collections
        for site in sorted(set(sites0)):
            skel = lambda t: (lex(t)[1], lex(t)[2])
            a = collections.Counter(skel(r[0]) for r, s_ in zip(rec0, sites0) if s_ == site)
            b = [r[0] for r, s_ in zip(rec, sites) if s_ == site]
            bad = [t for t in b if not skel(t)[1] or skel(t) not in a]
            if bad or collections.Counter(skel(t) for t in b) != a:
                obs = bad[0] if bad else b[0]
                exp = [r[0] for r, s_ in zip(rec0, sites0) if s_ == site][0]
                res.violation("C19:%s:%s:%s.%s" % (site, "value-in-text", meth, role),
                              WHAT["value-in-text"] + " (a %s the database holds, through %s)" % (role, meth), case, observed=obs, expected=exp)
        return 1
    if len(rec) != len(rec0) or sites != sites0:
        # the identifiers (classes, relations, property names) and the shape of the world are the same in both runs: only values differ
        res.violation("C19:%s:statement-sequence:%s" % (meth, role), "which statements an operation issues depends on stored values "
                      "(same graph shape, same identifiers)", case, observed=sites, expected=sites0)
        return 1
    for site, kind, obs, exp in diff_runs(rec0, sites0, rec, known):
        sig = "C19:%s:%s:%s.%s" % (site, kind, meth, role)
        if name.endswith(":one-handle") and role in ONE_HANDLE_DIRECT:
            # the handle's own graph id and the node id are direct arguments of every call of these histories: a primitive whose
            # text carries them is reported under the signature the argument sweep reports it with
            sig = "C19:%s:%s:%s" % (site, kind, ONE_HANDLE_DIRECT[role])
        res.violation(sig, WHAT[kind] + " (a %s the database holds, through %s)" % (role, meth), case, observed=obs, expected=exp)
    return 1


def store_base(name, res=None):
    rec0, where0, e0, un, _ = shadow.run_op(store_prims(), name)
    sites0 = [site_of(w) for w in where0]
    if res is not None:
        res.count("store-op:%s:%d-statements" % (name, len(rec0)))
        for s_ in set(sites0):
            res.count("store-site:" + s_)
        if e0:
            res.count("store-err:" + e0)
        check_wellformed(rec0, sites0, res, {"kind": "store", "op": name, "role": None, "payload": ""})
    return rec0, sites0, e0


def store_sweep(ctx, res):
    """every public method of every Neo4j-backed class (base classes included) on a database that HOLDS a small aggregate with
    delegations (lib_c19_shadow: the statements are recorded from the real methods, the answers come from a NetworkX graph of the
    same content): every statement is well-formed, and replacing the strings of one role (graph ids, node ids, names, sites,
    delegation ids, pool ids, label values, details ...) by strings with quotes / backslashes / braces changes no statement text"""
    payloads = ctx.scale(STORE_PAYLOADS, STORE_PAYLOADS + PAYLOADS)
    n = 0
    for name in shadow.ops():
        base = store_base(name, res)
        for role in shadow.ROLES:
            for pl in payloads:
                n += store_check(name, role, pl, base, res)
    res.evaluations += n
    res.count("store-sweep", n)


def store_coverage(res):
    """every public method (taking self) of the Neo4j-backed classes is driven: as a direct call (calls()) or on the store"""
    driven = set()
    for name in shadow.ops():
        cls, m = name.split(":")[0].split(".", 1)
        driven.update("%s.%s" % (cls, x) for x in m.split("+"))
    for c in calls():
        driven.add("%s.%s" % (c.cls, c.method))
    missing = sorted(shadow.public_methods() - driven)
    if missing:
        res.disagreements.append({"case": "coverage", "impl": "public methods of the Neo4j-backed classes that no operation of the harness "
                                  "drives (neither as a direct call nor on the store)", "model": missing})
    return len(shadow.public_methods()), len(missing)


# ------------------------------------------------------------------------------------------------------------
# histories (round 5): the text of a statement must not depend on EARLIER calls in the same process (memoised fragments keyed
# by too little: a clause built for one operation handed to another one with the same label / relation / property name)

def history_cases(rng):
    """one benign case per call that takes an identifier, per identifier value (two values of every vocabulary), grouped by the
    vocabulary: calls of one group are run after one another with the SAME identifier"""
    V = voc()
    groups = {}
    for call in calls():
        kinds = sorted({d.rstrip("?").replace("props_unsettable", "props") for d in call.idents.values()})
        for kind in kinds:
            for pick in (0, -1):
                ids = {}
                for slot, d in call.idents.items():
                    dom = V["props" if d == "props_unsettable" else d.rstrip("?")]
                    if d == "props_unsettable":
                        from fim.graph.abc_property_graph import ABCPropertyGraph
                        dom = [x for x in dom if x not in ABCPropertyGraph.NO_UNSET_PROPERTIES]
                    ids[slot] = dom[pick]
                case = {"call": call.name, "idents": ids, "values": gen_values(call, rng, "benign"),
                        "maps": gen_maps(call, rng, "benign", keys={m.rstrip("!"): [] for m in call.maps})}
                groups.setdefault((kind, pick), []).append(case)
    return groups


def run_history(seq, res, texts=None, prior=()):
    """the cases of `seq` one after the other in this process: every statement well-formed; a case that was run before (in any
    history) issues the same texts again.  `texts`: {case -> texts} seen so far"""
    texts = {} if texts is None else texts
    for i, case in enumerate(seq):
        rec, _ = drive(case)
        sites = list(drive.where)
        hist = {"kind": "history", "seq": list(prior) + seq[:i + 1]}      # (prior: what this process ran before with the same identifier)
        check_wellformed(rec, sites, res, hist)
        k = canon(case)
        now = [r[0] for r in rec]
        if k in texts and texts[k] != now:
            for a, b, site in zip(texts[k], now, sites):
                if a != b:
                    res.violation("C19:%s:depends-on-earlier-calls" % site, "the text of a statement depends on which operations ran "
                                  "earlier in the process (same arguments, different text)", hist, observed=b, expected=a)
        texts.setdefault(k, now)
    return texts


def history_sweep(ctx, res):
    """every call taking a class / relation / property name as the first, second and third call after every other call with the
    same identifier (ordered pairs a, b, a, b of every group)"""
    rng = ctx.sub_rng("history")
    texts = {}
    n = 0
    for (kind, pick), cases in sorted(history_cases(rng).items()):
        prior = []
        for a in cases:
            for b in cases:
                run_history([a, b, a, b] if a is not b else [a, a, a], res, texts, prior)
                for x in (a, b):
                    if x not in prior:
                        prior.append(x)
                n += 1
    res.evaluations += n
    res.count("history-sweep", n)


def search(ctx, res, broken):
    oracle(ctx, res, per_call=100000, n_values=ctx.scale(12, 40))


def replay(ctx, payload):
    r = Result()
    c = payload["case"]
    if c.get("kind") == "wellformed":
        check_group(c["base"], [], r)
    elif c.get("kind") == "independent":
        check_group(c["base"], [c["adv"]], r)
    elif c.get("kind") == "history":
        # (memoised state may already hold either operation's fragment: both orders)
        texts = run_history(c["seq"], r)
        run_history(list(reversed(c["seq"])), r, texts)
        if not any(v["signature"] == payload.get("signature") for v in r.violations):
            # the process that reported it had run other operations before (correspondence): the whole deterministic sweep, from a
            # fresh process
            history_sweep(ctx, r)
    elif c.get("kind") == "store":
        base = store_base(c["op"], r)
        if c.get("role"):
            store_check(c["op"], c["role"], c["payload"], base, r)
    elif c.get("kind") == "falsy":
        rec0, _ = drive(c["base"])
        check_falsy(c["base"], c["adv"], rec0, list(drive.where), r)
    elif c.get("kind") == "results":
        check_results(c["base"], r, payloads=[c["payload"]] if c.get("payload") not in (None, "r1") else [])
    elif c.get("kind") == "compound":
        rec0, sites, _ = _compound_run(c["op"], tuple(c.get("base_ids", c["ids"])))
        check_wellformed(rec0, sites, r, c)
        if "base_ids" in c:
            compound_diff(c["op"], tuple(c["base_ids"]), tuple(c["ids"]), rec0, sites, r)
    else:
        return False
    for v in r.violations:
        print("  ", v["signature"], v["what"])
        print("     observed:", str(v.get("observed"))[:300])
    return any(v["signature"] == payload.get("signature") for v in r.violations) or (not payload.get("signature") and bool(r.violations))
