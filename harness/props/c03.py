"""C03 - attribute value codecs are lossless, canonical and never mutate their input."""
import copy
import glob
import json
import os
from datetime import datetime, timezone, timedelta

from core import LeanDriver, err_kind, canon, CORPUS_DIR
from gen import fields as genfields
from gen import miphase as genmiphase
from gen import ttshared as genttshared
import lib_c03alias
from lib_c03alias import AliasOracle, alias_group, alias_nontrivial
from lib_c03fail import FailOracle, fail_group, fail_battery, fail_random, impl_seq, seq_requests
from lib_c03stored import StoredOracle, stored_group, stored_nontrivial, stored_battery, stored_random, mi_phase_battery

ID = "C03"
GENERATORS = [genfields.generate, genmiphase.generate, genttshared.generate]
LEAN_MODULES = ["FimVerif.Proofs.C03"]
P = "FimVerif.C03."
THEOREMS = [P + t for t in (
    "tables_agree", "specs_sane", "roundtrip_iff", "lossless",
    "capacities_lossless", "capacityHints_lossless", "labels_lossless", "reservationInfo_lossless",
    "structuralInfo_lossless", "location_lossless", "flags_lossless", "location_old_rule_counterexample",
    "reencode_stable", "encode_sorted", "unknown_keys_ignored", "unknown_key_anywhere", "known_fields_survive", "update_pure",
    "tags_roundtrip", "tags_constructed_roundtrip", "jsondata_text_idempotent", "jsondata_obj_roundtrip", "jsondata_none_roundtrip",
    "finalized_immutable", "finalize_locks", "encode_requires_finalize", "maintenance_roundtrip", "entry_unknown_key", "iso_roundtrip", "entryOK_of_dates", "maintenance_roundtrip_concrete",
    "pathinfo_encode_total", "pathinfo_roundtrip", "ero_roundtrip", "pathinfo_unknown_key", "path_unknown_key",
    "ttuple_fromstring_exact", "ttuple_fromstring_iff", "ttuple_int_exact", "ttuple_fromstring_roundtrip", "ttuple_parse_roundtrip", "ttuple_fromstring_counterexample", "ttuple_int_counterexample",
    "tuple_types_clean", "gateway_roundtrip", "gateway_unset",
    "all_classes_lossless", "all_classes_reencode_stable", "gateway_ctor_idempotent", "gateway_reencode_stable", "gateway_unknown_key",
    "history_reads_depend_on_state_only", "history_reads_ignore_owned", "jsondata_value_is_function_of_text", "jsondata_eq_own_text",
    "tags_reads_stable", "maintenance_reads_stable", "update_copies", "update_copy_independent", "update_shared_counterexample",
    "history_keeps_roundtrip", "list_classes_sane",
    "json_roundtrip", "jsonfield_text_roundtrip", "all_classes_text_roundtrip", "tags_text_roundtrip", "jsondata_obj_value",
    "maintenance_text_roundtrip", "iso_subsecond_offset_counterexample", "pathinfo_text_roundtrip", "gateway_text_roundtrip", "location_text_roundtrip",
    # failed calls: the state after an exception (Model/CodecFail.lean)
    "ttuple_parse_failed_unchanged", "ttuple_history_type_ok", "ttuple_history_roundtrip",
    # the validator object shared by the tuple classes: histories of lookups over several categories (Model/CodecShared.lean)
    "ttuple_shared_validator_history", "ttuple_validator_memo_by_name_counterexample", "ttuple_validator_history_free_code",
    "setfields_failed_prefix", "setfields_single_failed_unchanged", "setfields_history_constructible", "setfields_failed_unchanged_counterexample",
    "pathinfo_set_failed_unchanged", "pathinfo_history_domain", "maintenance_failed_unchanged", "maintenance_history_finalized",
    # handles that outlive finalize (Model/CodecPhase.lean, flags probed by gen/miphase.py)
    "phase_flags_safe", "phase_finalize_keeps_view", "phase_finalized_immutable", "phase_finalized_immutable_code",
    "phase_no_copy_at_finalize_counterexample",
)]
TRUSTED_BASE = [
    "gen/fields.py: AST patterns for JSONField._set_fields guards / field test (getattribute or membership in __dict__), to_json/to_dict "
    "drop conditions, from_json/update statement lists (update: by-reference or list-copying value expression -> updateCopiesLists); "
    "field names/defaults read from instantiated classes; the class list is every descendant of JSONField in the running module, "
    "cross-checked against the class statements of every module under /repo/fim (a subclass declared elsewhere is an extraction error)",
    "Model/Json.lean render = json.dumps (default separators, ensure_ascii) and Model/JsonParse.lean parse = json.loads are hand-written "
    "mirrors checked differentially on every run (json.parse / *.dectext lines: own encodings, re-spaced, duplicate keys, escapes, "
    "surrogate pairs, NaN/Infinity, syntactically damaged texts); parse (render j) = some j is PROVED for every value with distinct "
    "keys whose floats are number lexemes with a fraction or exponent (parse_render). A float is carried as the text json.dumps "
    "writes for it: the float<->text conversion of CPython (repr / float()) is not modelled, and a float lexeme that is not in "
    "repr form is outside the model; lone surrogates and nesting beyond the recursion limit are outside the model",
    "Labels VALIDATORS/LAMBDA_VALIDATORS and the Tags pattern are abstract predicates `valid` / `okTag` in the theorems (C16 owns them); the "
    "driver uses `true` and the harness only sends values the implementation accepted",
    "Model/IsoDate.lean: datetime.isoformat() and fromisoformat() on the shape isoformat() writes, with datetime's range checks and "
    "CPython's offset handling (fields summed, whole-second part zero -> UTC), checked differentially (iso lines); fromisoformat's other "
    "spellings are supplied by table in mi.dec lines",
    "aliasing: the Lean model separates the value object's state from caller-owned objects (Hist.World) and proves reads are functions of "
    "the state; that the code IS such a world (JSONData, Tags, finalized MaintenanceInfo) or a by-reference world (JSONField list fields, "
    "update copies) is established by hist correspondence lines that really mutate arguments and returned objects in place, and by the "
    "alias oracle family on every class (deep-copy snapshots of every argument, mutate-arg, mutate-result, second reads, derived instances); "
    "process-level hidden state: class orders in this process and in fresh interpreters; the translator refuses class-level mutable "
    "attributes / run-time writes to class attributes on JSONField classes",
    "failed calls (Model/CodecFail.lean): an in-place method is modelled as state -> (state afterwards, exception): validating setters "
    "(TypedTuple.parse_from_string, PathInfo/ERO.set, MaintenanceInfo.add/rem/pop) return the SAME state when they raise, "
    "JSONField._set_fields the state with the keywords before the rejected one applied (as the code does); that the code leaves these "
    "states behind is established by the tt.seq / jf.seq / pi.seq / mi.run correspondence lines (state compared after every step, "
    "rejected ones too) and by the failed-call oracle family on every class (lib_c03fail: value, encoding, decode(encode), ==/hash "
    "before and after every rejected call)",
    "phase change of a maintenance record (Model/CodecPhase.lean): object identity is modelled as cells of a heap, the record's table and "
    "the caller's handles; which call copies (add / get on an open record / finalize / get on a finalized record) are flags probed on the "
    "running code by object identity (gen/miphase.py: finalize() and NodeSliver.set_maintenance_info, one and three entries); that the code "
    "is such a heap world is established by the phase_mi oracle family (every pre-finalize handle x every route into the finalized state), "
    "not by a differential driver",
    "stored attributes (lib_c03stored): the model elements' write / read paths and the property-graph layer between the codec and the stored "
    "text are exercised by the oracle only (histories of writes per element kind x attribute x write path); they are not modelled in Lean",
    "keys that name a method/class attribute of a class whose _set_fields tests __getattribute__, and the parameter names "
    "self/forgiving/cls/lab, are outside the model (`unmodelled`); the oracle reports the former on the implementation",
]
ASSUMPTIONS = [
    "WellTyped domain: values constructible through the public constructors/setters in their documented domain "
    "(non-negative ints for Capacities, str for hints, str or list of str for Labels/ReservationInfo/StructuralInfo, str or finite "
    "float for Location, bool for Flags); None or bool in a capacity field, NaN/inf coordinates are excluded",
    "Labels values are drawn from examples the implementation's validators accept",
    "by-reference channels (a list the caller assigned to a JSONField list field / Path.a2z,z2a, the Path given to PathInfo.set, the "
    "entries of an unfinalized MaintenanceInfo) are not required to be private copies: the property does not state it; they are counted "
    "and the object must stay lossless after the change (history_keeps_roundtrip)",
    "MaintenanceEntry dates: every datetime except a UTC offset shorter than one second (known finding, lost by CPython's fromisoformat)",
]
RULE = ("(class, value, call that is rejected): every in-place setter / decoder / copy-with-changes / constructor of every class with invalid input "
        "(unknown type, wrong kind of payload, locked record, absent name, bad keyword first / last / between good ones, damaged text) - the value "
        "object is observed before and after; histories of accepted and rejected calls on one object against the Lean model; "
        "(class, value), (class, text with unknown keys / re-spaced / damaged) and (class, value, history of reads and in-place mutations of "
        "arguments and results) over every JSONField class found in the source, Tags, 3 JSONData classes, Gateway, PathInfo, ERO, "
        "MaintenanceInfo/Entry and 4 typed tuples; every field, scalar / list / tuple forms, 0/0.0/False/''/[] and huge values, non-ASCII; "
        "JSON texts and ISO dates against CPython; non-trivial = at least one field set (or a non-empty payload/list) / a history with at "
        "least one mutation; distinct by (op, class, canonical request)")

# --------------------------------------------------------------------------
# wire form


def to_wire(v):
    if v is None or isinstance(v, (bool, str)):
        return v
    if isinstance(v, int):
        return v
    if isinstance(v, float):
        return {"f": repr(v)}
    if isinstance(v, (list, tuple)):
        return [to_wire(x) for x in v]
    if isinstance(v, dict):
        return {"o": [[k, to_wire(x)] for k, x in v.items()]}
    raise TypeError("not a JSON value: %r" % (v,))


def from_wire(w):
    if isinstance(w, list):
        return [from_wire(x) for x in w]
    if isinstance(w, dict):
        if "f" in w:
            return float(w["f"])
        return {k: from_wire(x) for k, x in w["o"]}
    return w


def kind(e):
    k = err_kind(e)
    n = type(e).__name__
    if n in ("JSONDataError", "MeasurementDataError", "UserDataError", "LayoutDataError"):
        return "jsondata"
    if n in ("TypedTupleException",):
        return "tuple"
    return k


def mods():
    import fim.slivers.capacities_labels as cl
    import fim.slivers.tags as tg
    import fim.slivers.json_data as jd
    import fim.slivers.gateway as gw
    import fim.slivers.path_info as pi
    import fim.slivers.maintenance_mode as mm
    import fim.graph.typed_tuples as tt
    import fim.logging.fim_logger as fl
    import logging
    fl.get_logger().setLevel(logging.CRITICAL)     # forgiving decoding logs a warning per unknown key
    return cl, tg, jd, gw, pi, mm, tt


def jf_classes(cl):
    """every descendant of JSONField in the running module (a new subclass - also of a subclass - is picked up)"""
    def desc(k):
        out = []
        for c in k.__subclasses__():
            out += [c] + desc(c)
        return out
    return [c for c in desc(cl.JSONField) if c.__module__ == cl.__name__]


# --------------------------------------------------------------------------
# implementation side of every driver operation

def show(o):
    d = o.to_dict()
    return [[to_wire(v) for v in o.__dict__.values()], o.to_json(), None if d is None else [[k, to_wire(v)] for k, v in d.items()]]


def opt_text(jv):
    return None if jv is None else json.dumps(from_wire(jv[0]))


def pi_build(pi, w, ero):
    t = {None: None, "Path": pi.PathRepresentationType.Path, "Graph": pi.PathRepresentationType.Graph}[w["type"]]
    p = pi.ERO(t, from_wire(w["strict"])) if ero else pi.PathInfo(t)
    pl = w["payload"]
    if pl is None:
        p.payload = None
    elif "path" in pl:
        q = pi.Path()
        q.set(a2z=from_wire(pl["path"][0]), z2a=from_wire(pl["path"][1]))
        p.payload = q
    else:
        p.payload = from_wire(pl["raw"])
    return p


def pi_wire(pi, p):
    pl = p.payload
    if pl is None:
        w = None
    elif isinstance(pl, pi.Path):
        w = {"path": [to_wire(pl.a2z), to_wire(pl.z2a)]}
    else:
        w = {"raw": to_wire(pl)}
    return {"type": None if p.type is None else str(p.type), "strict": to_wire(getattr(p, "strict", False)), "payload": w}


def pi_show(pi, p):
    if p is None:
        return None
    try:
        enc = ["ok", p.to_json()]
    except Exception as e:
        enc = ["err", kind(e)]
    return [pi_wire(pi, p), enc]


def dt_build(x):
    """a datetime from its ISO text, or from {"dt": [y, mo, d, h, mi, s, us], "tz_us": offset in microseconds | null}
    (the form for datetimes CPython's fromisoformat cannot rebuild from their own isoformat())"""
    if x is None:
        return None
    if isinstance(x, dict):
        return datetime(*x["dt"], tzinfo=None if x.get("tz_us") is None else timezone(timedelta(microseconds=x["tz_us"])))
    return datetime.fromisoformat(x)


def entry_build(mm, w):
    st, dl, ee = w
    return mm.MaintenanceEntry(mm.MaintenanceState[st] if st is not None else "no-such-state", dt_build(dl), dt_build(ee))


def entry_wire(e):
    return [None if e.state is None else e.state.name,
            None if e.deadline is None else e.deadline.isoformat(),
            None if e.expected_end is None else e.expected_end.isoformat()]


def mi_wire(m):
    return [[[k, entry_wire(e)] for k, e in m._nodes.items()], m._lock]


def mi_run(mm, ops):
    m = mm.MaintenanceInfo()
    out = []
    for op in ops:
        try:
            if op[0] == "add":
                m.add(op[1], entry_build(mm, op[2]))
                out.append(["ok", None])
            elif op[0] == "rem":
                m.rem(op[1])
                out.append(["ok", None])
            elif op[0] == "pop":
                out.append(["ok", entry_wire(m.pop(op[1]))])
            elif op[0] == "finalize":
                m.finalize()
                out.append(["ok", None])
            elif op[0] == "copy":
                m = m.copy()
                out.append(["ok", None])
            elif op[0] == "enc":
                out.append(["ok", m.to_json()])
        except Exception as e:
            out.append(["err", kind(e)])
    out.append(mi_wire(m))
    return out


TT = {"Label": "Label", "Capacity": "Capacity", "Location": "Location", "AllocationConstraint": "AllocationConstraint"}


def impl_eval(M, r):
    cl, tg, jd, gw, pi, mm, tt = M
    op = r[0]
    try:
        if op == "jf.new":
            return ["ok", show(getattr(cl, r[1])(**{k: from_wire(v) for k, v in r[2]}))]
        if op == "jf.dec":
            o = getattr(cl, r[1]).from_json(opt_text(r[2]))
            return ["ok", None if o is None else show(o)]
        if op == "jf.upd":
            C = getattr(cl, r[1])
            x = C()
            for f, v in zip(list(x.__dict__), r[2]):
                x.__dict__[f] = from_wire(v)
            return ["ok", show(C.update(x, **{k: from_wire(v) for k, v in r[3]}))]
        if op == "tags.new":
            t = tg.Tags(*[from_wire(a) for a in r[1]])
            return ["ok", [list(t.tags), t.to_json()]]
        if op == "tags.dec":
            t = tg.Tags.from_json(opt_text(r[1]))
            return ["ok", None if t is None else [list(t.tags), t.to_json()]]
        if op == "jd.text":
            return ["ok", getattr(jd, r[1])(r[2]).json]
        if op == "jd.obj":
            return ["ok", getattr(jd, r[1])(from_wire(r[2])).json]
        if op == "gw.new":
            if r[1] is None:
                g = gw.Gateway(None)
            else:
                lab = cl.Labels()
                for f, v in zip(list(lab.__dict__), r[1]):
                    lab.__dict__[f] = from_wire(v)
                g = gw.Gateway(lab)
            return ["ok", None if g.lab is None else show(g.lab)]
        if op == "gw.dec":
            g = gw.Gateway.from_json(opt_text(r[1]))
            return ["ok", None if g is None or g.lab is None else show(g.lab)]
        if op in ("pi.enc", "ero.enc"):
            return ["ok", pi_build(pi, r[1], op == "ero.enc").to_json()]
        if op == "pi.dec":
            return ["ok", pi_show(pi, pi.PathInfo.from_json(opt_text(r[1])))]
        if op == "ero.dec":
            return ["ok", pi_show(pi, pi.ERO.from_json(opt_text(r[1])))]
        if op == "mi.run":
            return ["ok", mi_run(mm, r[1])]
        if op == "mi.dec":
            m = mm.MaintenanceInfo.from_json(opt_text(r[1]))
            if m is None:
                return ["ok", None]
            try:
                enc = ["ok", m.to_json()]
            except Exception as e:
                enc = ["err", kind(e)]
            return ["ok", [mi_wire(m), enc]]
        if op == "tt.new":
            t = getattr(tt, r[1])(atype=r[2], aval=from_wire(r[3]))
            return ["ok", [t.type, to_wire(t.val), t.get_as_string()]]
        if op == "tt.from":
            t = getattr(tt, r[1])(fromstring=r[2])
            return ["ok", [t.type, to_wire(t.val), t.get_as_string()]]
        if op == "tt.parse":
            C = getattr(tt, r[1])
            t = C(atype=C_first_type(tt, r[1]), aval="")
            t.parse_from_string(r[2])
            return ["ok", [t.type, to_wire(t.val), t.get_as_string()]]
        if op == "json.parse":
            return ["ok", to_wire(json.loads(r[1]))]
        if op == "jf.dectext":
            o = getattr(cl, r[1]).from_json(r[2])
            return ["ok", None if o is None else show(o)]
        if op == "gw.dectext":
            g = gw.Gateway.from_json(r[1])
            return ["ok", None if g is None or g.lab is None else show(g.lab)]
        if op == "pi.dectext":
            return ["ok", pi_show(pi, pi.PathInfo.from_json(r[1]))]
        if op == "ero.dectext":
            return ["ok", pi_show(pi, pi.ERO.from_json(r[1]))]
        if op == "tags.dectext":
            t = tg.Tags.from_json(r[1])
            return ["ok", None if t is None else [list(t.tags), t.to_json()]]
        if op == "mi.dectext":
            m = mm.MaintenanceInfo.from_json(r[1])
            if m is None:
                return ["ok", None]
            try:
                enc = ["ok", m.to_json()]
            except Exception as e:
                enc = ["err", kind(e)]
            return ["ok", [mi_wire(m), enc]]
        if op == "iso":
            return ["ok", datetime.fromisoformat(r[1]).isoformat()]
        if op == "hist":
            return ["ok", hist_eval(M, r)]
        if op in ("tt.seq", "jf.seq", "pi.seq"):
            return ["ok", impl_seq(M, r)]
    except Exception as e:
        return ["err", kind(e)]
    raise ValueError("unknown op %s" % op)


def json_key(k):
    """how json.dumps writes a dict key"""
    if isinstance(k, str):
        return k
    if k is True:
        return "true"
    if k is False:
        return "false"
    if k is None:
        return "null"
    if isinstance(k, float):
        return repr(k)
    return str(k)


def to_wire_json(v):
    """wire form of the JSON value a Python object stands for (tuples as lists, keys as json.dumps writes them)"""
    if isinstance(v, dict):
        return {"o": [[json_key(k), to_wire_json(x)] for k, x in v.items()]}
    if isinstance(v, (list, tuple)):
        return [to_wire_json(x) for x in v]
    return to_wire(v)


def hist_eval(M, r):
    """run a history (reads / in-place edits of caller-owned objects / looks at them) against the real objects"""
    import ast
    from lib_c03alias import deep_edit, grow
    cl, tg, jd, gw, pi, mm, tt = M
    knd = r[1]
    out = []
    if knd == "jf":
        C = getattr(cl, r[2])
        kw = {k: from_wire(v) for k, v in r[3]}
        x, y = C(**kw), None

        def shown(o):
            return None if o is None else [[to_wire(v) for v in o.__dict__.values()], o.to_json()]
        for st in r[4]:
            if st[0] == "growX":
                if isinstance(kw.get(st[1]), list):
                    grow(kw[st[1]], from_wire(st[2]))
                out.append(None)
            elif st[0] == "update":
                y = C.update(x)
                out.append(None)
            elif st[0] == "growY":
                if y is not None and isinstance(y.__dict__.get(st[1]), list):
                    grow(y.__dict__[st[1]], from_wire(st[2]))
                out.append(None)
            else:
                out.append(shown(x if st[0] == "showX" else y))
        return out
    if knd == "jd":
        C = getattr(jd, r[2])
        src = r[3]
        arg = src[1] if src[0] == "text" else (ast.literal_eval(src[2]) if len(src) > 2 else from_wire(src[1]))
        x = C(arg)
        owned = [arg]

        def read(g, a):
            if g == "json":
                return x.json
            if g == "data":
                return x.data
            tw = C(a)
            return (x == tw) and (tw == x) and hash(x) == hash(tw)
        edit = deep_edit
        wire = to_wire_json
    elif knd == "tags":
        args = [from_wire(a) for a in r[2]]
        x = tg.Tags(*args)
        owned = list(args)

        def read(g, a):
            return x.to_json() if g == "json" else list(iter(x))
        edit = deep_edit
        wire = to_wire_json
    elif knd == "mi":
        built = [(nm, entry_build(mm, w)) for nm, w in r[2]]
        x = mm.MaintenanceInfo()
        for nm, e in built:
            x.add(nm, e)
        x.finalize()
        owned = [e for _, e in built]
        S = list(mm.MaintenanceState)

        def read(g, a):
            return {"json": x.to_json, "names": x.list_names, "details": x.list_details, "iter": lambda: list(x.iter())}[g]() if g != "get" else x.get(a)

        def edit(o):
            if isinstance(o, mm.MaintenanceEntry):
                o.state = S[(S.index(o.state) + 1) % len(S)] if o.state in S else S[0]
                o.deadline = None if o.deadline is not None else datetime(1999, 9, 9, 9, 9, 9)
                o.expected_end = datetime(2001, 1, 1) if o.expected_end is None else None
                return True
            if isinstance(o, list):
                for it in o:
                    if isinstance(it, tuple) and len(it) == 2 and isinstance(it[1], mm.MaintenanceEntry):
                        edit(it[1])
                o.append("__m__")
                return True
            return False

        def wire(o):
            if isinstance(o, mm.MaintenanceEntry):
                return entry_wire(o)
            if isinstance(o, (list, tuple)):
                return [wire(i) for i in o]
            return to_wire(o)
    else:
        raise ValueError("unknown history kind %s" % knd)
    for st in r[-1]:
        if st[0] == "read":
            v = read(st[1], st[2])
            owned.append(v)
            out.append([wire(v)])
        elif st[1] >= len(owned):
            out.append(None)
        elif st[0] == "edit":
            out.append([edit(owned[st[1]])])
        else:
            out.append([wire(owned[st[1]])])
    return out


def norm_floats(w):
    """floats are carried as text: compare them as the numbers they denote"""
    if isinstance(w, list):
        return [norm_floats(x) for x in w]
    if isinstance(w, dict):
        if "f" in w and isinstance(w["f"], str):
            try:
                return {"f": repr(float(w["f"]))}
            except ValueError:
                return w
        return {k: norm_floats(x) for k, x in w.items()}
    return w


_TYPES = {}


def tuple_types(tt, cname):
    if cname not in _TYPES:
        C = getattr(tt, cname)
        probe = object.__new__(C)
        try:
            C.__init__(probe, atype="\x00", aval="")
        except Exception:
            pass
        _TYPES[cname] = probe.lv.get_types(probe.category)
    return _TYPES[cname]


def C_first_type(tt, cname):
    return tuple_types(tt, cname)[0]


# --------------------------------------------------------------------------
# value generators

BIG = [0, 0, 1, 1, 2, 7, 10, 100, 1000, 4096, 2 ** 31 - 1, 2 ** 31, 2 ** 63, 2 ** 64 + 1, 10 ** 30]
STRS = ["", "a", "0", "fabric.c7.m8.d10", "None", "null", "x y", " lead", "trail ", "é✓", "\U0001f600", "q\"b\\s", "line\nbreak\ttab",
        "\u0000\u001f\u007f", "0.0", "[]", "{}", "a:b", "A" * 40]
FLOATS = [0.0, -0.0, 35.7, -78.9, 90.0, 1e-07, 1e22, 5e-324, 1.7976931348623157e308, 0.1, -180.0, 2.5]
JUNK = [None, True, False, 0, 1, -1, 3, 0.0, 1.5, -2.5, "", "s", "3", [], ["a"], [1], [["a"]], {}, {"a": 1}, {"a": {"b": [1, None]}}]
UNKNOWN_KEYS = ["future_field", "x", "", "Cpu", "cpu ", "é", "vlan2", "new flag", "payload", "type", "0"]

LABEL_CANDIDATES = {
    "bdf": ["0000:00:00.0", "0000:41:00.1", "a:bc:de.f"], "mac": ["00:11:22:33:44:55", "aA:bB:cC:dD:eE:fF"],
    "ipv4": ["192.168.1.1", "0.0.0.0", "255.255.255.255"], "ipv4_range": ["192.168.1.1-192.168.1.10"],
    "ipv4_subnet": ["192.168.1.0/24", "10.0.0.0/8"], "ipv6": ["2001:0db8:85a3:0000:0000:8a2e:0370:7334", "::", "fe80::1"],
    "ipv6_range": ["2001:db8::1-2001:db8::ff"], "ipv6_subnet": ["2001:0db8:85a3:0000:0000/48", "::/0"],
    "asn": ["12345", "1", "4294967295"], "vlan": ["0", "1234", "4096", "7"], "vlan_range": ["100-200", "0-4096", "5-5"],
    "inner_vlan": ["0", "1234"], "bgp_key": ["secret-key_1", "abcdef"], "account_id": ["123456789012", "a/b.c-d"],
    "region": ["us-central1", "abc"], "usb_id": ["1234:abcd"], "numa": ["0", "-1", "7"],
}
_LABEL_OK = {}


def label_values(cl, field):
    """known-valid values per label field: candidates the implementation's validators accept (C16 owns validation)"""
    if field not in _LABEL_OK:
        if field in LABEL_CANDIDATES:
            ok = []
            for v in LABEL_CANDIDATES[field]:
                try:
                    cl.Labels(**{field: v})
                    ok.append(v)
                except Exception:
                    pass
            _LABEL_OK[field] = ok or None
        else:
            _LABEL_OK[field] = STRS
    return _LABEL_OK[field]


_GUARDS = {"Capacities": "nat", "CapacityHints": "str", "Labels": "strlist", "ReservationInfo": "strlist",
           "StructuralInfo": "strlist", "Location": "strfloat", "Flags": "bool"}


def guard_of(C):
    """documented value type of the class's fields; for a class this table does not know yet it is found by probing the
    constructor with one value of each kind (first field without a validator)"""
    n = C.__name__
    if n not in _GUARDS:
        f = [k for k in C().__dict__ if k not in getattr(C, "VALIDATORS", {}) and k not in getattr(C, "LAMBDA_VALIDATORS", {})][0]
        acc = []
        for v in (1, "s", ["s"], 1.5, True):
            try:
                C(**{f: v})
                acc.append(True)
            except Exception:
                acc.append(False)
        _GUARDS[n] = {(True, False, False, False, True): "nat", (False, True, False, False, False): "str",
                      (False, True, True, False, False): "strlist", (False, True, False, True, False): "strfloat",
                      (False, False, False, False, True): "bool"}[tuple(acc)]
    return _GUARDS[n]


def passes_guard(C, v):
    """independent statement of each class's documented value type (what _set_fields asserts)"""
    g = guard_of(C)
    if g == "nat":
        return v is None or (isinstance(v, int) and v >= 0)
    if g == "str":
        return isinstance(v, str)
    if g == "strlist":
        return isinstance(v, (str, list))
    if g == "strfloat":
        return isinstance(v, (str, float))
    return isinstance(v, bool)


def domain_value(cl, C, field, rng):
    """a value of the documented domain of C.field"""
    g = guard_of(C)
    if g == "nat":
        return rng.choice(BIG) if rng.random() < 0.7 else rng.randrange(0, 50)
    if g == "str":
        return rng.choice(STRS)
    if g == "strlist":
        pool = label_values(cl, field) if C.__name__ == "Labels" else STRS
        if pool is None:
            return None
        if rng.random() < 0.3:
            return [rng.choice(pool) for _ in range(rng.choice([0, 1, 1, 2, 3]))]
        return rng.choice(pool)
    if g == "strfloat":
        if field == "postal":
            return rng.choice(STRS)
        return rng.choice(FLOATS) if rng.random() < 0.8 else rng.choice(STRS)
    return rng.random() < 0.5


def domain_kwargs(cl, C, rng, density=None):
    names = list(C().__dict__)
    density = rng.choice([0.0, 0.15, 0.5, 1.0]) if density is None else density
    kw = {}
    order = names[:]
    rng.shuffle(order)
    for f in order:
        if rng.random() < density:
            v = domain_value(cl, C, f, rng)
            if v is not None:
                kw[f] = v
    return kw


def junk_fields(C):
    """fields that may receive arbitrary values in the correspondence (Labels: only fields without validators)"""
    names = list(C().__dict__)
    if C.__name__ == "Labels":
        names = [f for f in names if f not in LABEL_CANDIDATES]
    return names


def corner_kwargs(cl, C):
    """deterministic corners: nothing set; each field alone with each zero-like / extreme value of its domain"""
    names = list(C().__dict__)
    g = guard_of(C)
    out = [{}]
    for f in names:
        if g == "nat":
            vals = [0, 1, 2 ** 64 + 1]
        elif g == "str":
            vals = ["", "a", "é\U0001f600"]
        elif g == "strlist":
            pool = label_values(cl, f) if C.__name__ == "Labels" else STRS
            vals = [pool[0], [], [pool[0]], list(pool[:2])] if pool else []
            if C.__name__ != "Labels" or f not in LABEL_CANDIDATES:
                vals += ["", "0"]
        elif g == "strfloat":
            vals = ["", "x"] if f == "postal" else [0.0, -0.0, 35.5, "0"]
        else:
            vals = [False, True]
        for v in vals:
            out.append({f: v})
    if g == "bool":
        out.append({f: True for f in names})
    return out


def with_unknown(d, rng, n=None, keys=None, vals=None):
    """insert n unknown keys at random positions of dict d (returns items list)"""
    items = list(d.items())
    for _ in range(n if n is not None else rng.choice([1, 1, 2, 3])):
        k = rng.choice(keys or UNKNOWN_KEYS)
        if k in d or any(k == a for a, _ in items):
            continue
        items.insert(rng.randrange(0, len(items) + 1), (k, rng.choice(vals if vals is not None else JUNK)))
    return items


def iso_table(strings):
    out = []
    for s in sorted(set(strings)):
        try:
            out.append([s, datetime.fromisoformat(s).isoformat()])
        except Exception:
            out.append([s, None])
    return out


DATES = [datetime(2024, 1, 2, 3, 4, 5), datetime(2024, 1, 2, 3, 4, 5, 123), datetime(1970, 1, 1, tzinfo=timezone.utc),
         datetime(2030, 12, 31, 23, 59, 59, 999999, tzinfo=timezone(timedelta(hours=-5))),
         datetime(2024, 2, 29, 12, 0, tzinfo=timezone(timedelta(hours=5, minutes=30))),
         datetime(1, 1, 1, 0, 0, 0, 1, tzinfo=timezone(timedelta(hours=5, minutes=30, seconds=15, microseconds=7))),
         datetime(9999, 12, 31, 23, 59, 59, 999999, tzinfo=timezone(-timedelta(hours=23, minutes=59, seconds=59, microseconds=999999))),
         datetime(2000, 2, 29, 0, 0, 1, tzinfo=timezone(-timedelta(seconds=1)))]
STATES = ["Active", "PreMaint", "Maint", "Unknown", None]
NODE_NAMES = ["RENC", "UKY", "n1", "", "é", "a b", "ALL"]


def gen_requests(M, rng, n):
    cl, tg, jd, gw, pi, mm, tt = M
    reqs = []
    classes = jf_classes(cl)
    # --- JSONField: deterministic corners
    for C in classes:
        names = list(C().__dict__)
        for kw in corner_kwargs(cl, C):
            reqs.append(["jf.new", C.__name__, [[k, to_wire(v)] for k, v in kw.items()]])
        reqs.append(["jf.dec", C.__name__, None])
        reqs.append(["jf.new", C.__name__, [["no_such_field", to_wire(domain_value(cl, C, names[0], rng))]]])
        for j in JUNK:
            reqs.append(["jf.new", C.__name__, [[junk_fields(C)[-1], to_wire(j)]]])
            reqs.append(["jf.dec", C.__name__, [to_wire({"future_field": j})]])
            reqs.append(["jf.dec", C.__name__, [to_wire(j)]])
    # --- JSONField: random
    for i in range(n):
        C = rng.choice(classes)
        names = list(C().__dict__)
        kw = domain_kwargs(cl, C, rng)
        r = rng.random()
        if r < 0.25:
            reqs.append(["jf.new", C.__name__, [[k, to_wire(v)] for k, v in kw.items()]])
        elif r < 0.65:
            # decode the encoding of a domain value, possibly with unknown keys / junk values
            try:
                t = C(**kw).to_json()
            except Exception:
                continue
            d = json.loads(t) if t else {}
            rr = rng.random()
            if rr < 0.4:
                items = list(d.items())
                rng.shuffle(items)
            elif rr < 0.8:
                good = [j for j in JUNK if passes_guard(C, j)]
                items = with_unknown(d, rng, vals=good if rng.random() < 0.6 else None)
            else:
                items = list(d.items())
                if names:
                    items.insert(rng.randrange(0, len(items) + 1), (rng.choice(junk_fields(C)) if rng.random() < 0.5 else "zz", rng.choice(JUNK)))
                    seen, uniq = set(), []
                    for k, v in items:
                        if k not in seen:
                            seen.add(k)
                            uniq.append((k, v))
                    items = uniq
            reqs.append(["jf.dec", C.__name__, [{"o": [[k, to_wire(v)] for k, v in items]}]])
        else:
            x = C(**kw)
            kw2 = domain_kwargs(cl, C, rng, density=rng.choice([0.0, 0.2, 0.5]))
            items = list(kw2.items())
            if rng.random() < 0.15:
                items.insert(rng.randrange(0, len(items) + 1), ("no_such_field", rng.choice(JUNK)))
            if rng.random() < 0.15 and names:
                items.append((rng.choice([k for k in junk_fields(C) if k not in kw2] or ["zz"]), rng.choice(JUNK)))
            reqs.append(["jf.upd", C.__name__, [to_wire(v) for v in x.__dict__.values()], [[k, to_wire(v)] for k, v in items]])
    # --- Tags
    TAGS = ["a", "tag-1", "under_score", "A" * 255, "é", "0"]
    reqs += [["tags.new", []], ["tags.new", [[]]], ["tags.new", ["a", ["b", "c"]]], ["tags.dec", None], ["tags.dec", [[]]],
             ["tags.dec", ["a"]], ["tags.dec", [{"o": [["a", 1]]}]], ["tags.dec", [None]], ["tags.dec", [3]], ["tags.new", [3]],
             ["tags.new", [["a", 3]]], ["tags.dec", [[["a"]]]]]
    for i in range(n // 8):
        ts = [rng.choice(TAGS) for _ in range(rng.choice([0, 1, 2, 3, 5]))]
        reqs.append(["tags.new", [ts]] if rng.random() < 0.5 else ["tags.dec", [ts]])
    # --- JSONData
    for cname in ("MeasurementData", "UserData", "LayoutData"):
        mx = getattr(jd, cname).MAX_SIZE
        texts = ["{}", "", "null", '{"a": 1}', ' {"a":[1,2.5,null,true]} ', "not json", '"s"', "[" + "1," * ((mx - 2) // 2) + "1]",
                 '"' + "x" * (mx - 2) + '"', '"' + "x" * (mx - 1) + '"', '"' + "é" * (mx - 2) + '"', "{" * (mx + 5)]
        for t in texts:
            try:
                json.loads(t)
                v = True
            except Exception:
                v = False
            reqs.append(["jd.text", cname, t, v])
        objs = [{}, [], 0, 1.5, True, None, {"a": {"b": [1, 2, {"c": None}]}}, ["é\U0001f600", "q\"\\"], {"k": "x" * (mx - 9)},
                {"k": "x" * (mx - 8)}, {"k": "é" * (mx // 6)}, [0] * (mx // 3), [0] * (mx // 3 + 1), -7, 2 ** 70]
        for o in objs:
            reqs.append(["jd.obj", cname, to_wire(o)])
    # --- Gateway
    lab_names = list(cl.Labels().__dict__)

    def labvals(**kw):
        return [to_wire(kw.get(f)) for f in lab_names]
    v4 = dict(ipv4_subnet="192.168.1.0/24", ipv4="192.168.1.1")
    v6 = dict(ipv6_subnet="2001:db8::/48", ipv6="2001:db8::1")
    gws = [None, labvals(), labvals(**v4), labvals(**v6), labvals(mac="00:11:22:33:44:55", **v4), labvals(mac="00:11:22:33:44:55", **v6),
           labvals(vlan="5", **v4), labvals(ipv4="1.2.3.4"), labvals(ipv4_subnet="1.2.3.0/24"), labvals(ipv6="::1", **v4),
           labvals(mac="00:11:22:33:44:55"), labvals(**dict(v4, **v6)), labvals(ipv4_subnet=["10.0.0.0/8"], ipv4=["10.0.0.1"])]
    for g in gws:
        reqs.append(["gw.new", g])
    for d in [None, {}, v4, v6, dict(v4, mac="00:11:22:33:44:55"), dict(v6, vlan="7"), {"ipv4": "1.2.3.4"}, dict(v4, future="x"),
              dict(v4, future=5), {"mac": "00:11:22:33:44:55"}]:
        reqs.append(["gw.dec", None if d is None else [to_wire(d)]])
    # --- PathInfo / ERO
    lists = [None, [], ["a"], ["n1", "n2", "n3"], [1, 2], ["é"]]
    payloads = [None, {"raw": "graph-id-1"}, {"raw": ""}, {"raw": 5}] + \
               [{"path": [to_wire(a), to_wire(z)]} for a in lists[:4] for z in lists[:4]] + [{"path": [to_wire(lists[4]), to_wire(lists[5])]}]
    for t in ("Path", "Graph", None):
        for pl in payloads:
            reqs.append(["pi.enc", {"type": t, "strict": False, "payload": pl}])
            for st in (False, True):
                reqs.append(["ero.enc", {"type": t, "strict": st, "payload": pl}])
    dec = [None, {}, {"type": None}, {"type": "Path"}, {"type": "Graph"}, {"type": "Graph", "payload": None}, {"type": "Graph", "payload": "g1"},
           {"type": "Path", "payload": None}, {"type": "Path", "payload": {"a2z": ["a"], "z2a": ["b"]}},
           {"type": "Path", "payload": {"a2z": None, "z2a": None}}, {"type": "Path", "payload": {"a2z": ["a"]}},
           {"type": "Path", "payload": {"a2z": ["a"], "z2a": [], "extra": 1}, "extra": {"x": 1}},
           {"type": "List", "payload": {"a2z": ["a"], "z2a": ["b"]}}, {"type": "List", "payload": "g"}, {"type": 5, "payload": "g"},
           {"payload": "g"}, {"type": "Graph", "payload": "g", "strict": "True"}, {"type": "Graph", "payload": "g", "strict": "true"},
           {"type": "Graph", "payload": "g", "strict": "False"}, {"type": "Graph", "payload": "g", "strict": True},
           {"type": "Graph", "payload": "g", "strict": "TRUE"}, {"type": "Graph", "payload": "g", "strict": ["True"]},
           {"strict": "True", "type": "Path", "payload": {"z2a": [], "a2z": ["x", "y"]}}, [], "s", 3,
           {"type": "Graph", "payload": {"a2z": [], "z2a": []}}, {"type": "Graph", "payload": ["g"]}]
    for d in dec:
        w = None if d is None else [to_wire(d)]
        reqs.append(["pi.dec", w])
        reqs.append(["ero.dec", w])
    # --- MaintenanceInfo
    def entry(r):
        d1 = r.choice(DATES + [None, None])
        d2 = r.choice(DATES + [None, None])
        return [r.choice(STATES), None if d1 is None else d1.isoformat(), None if d2 is None else d2.isoformat()]
    reqs.append(["mi.run", [["enc"], ["finalize"], ["enc"], ["add", "a", entry(rng)], ["rem", "a"], ["pop", "a"], ["copy"], ["add", "a", entry(rng)], ["enc"]]])
    for i in range(max(6, n // 20)):
        ops = []
        for _ in range(rng.choice([2, 4, 6, 9])):
            k = rng.random()
            nm = rng.choice(NODE_NAMES)
            if k < 0.45:
                ops.append(["add", nm, entry(rng)])
            elif k < 0.55:
                ops.append(["rem", nm])
            elif k < 0.65:
                ops.append(["pop", nm])
            elif k < 0.8:
                ops.append(["finalize"])
            elif k < 0.88:
                ops.append(["copy"])
            else:
                ops.append(["enc"])
        ops += [["finalize"], ["enc"]]
        reqs.append(["mi.run", ops])
    midec = [None, {}, {"n": {"state": "Active"}}, {"n": {"state": "Maint", "deadline": "2024-01-02T03:04:05", "expected_end": None}},
             {"n": {"state": "Bogus", "deadline": "", "expected_end": "2024-01-02"}}, {"n": {"deadline": None}}, {"n": {"state": None}},
             {"n": {"state": "Active", "new_key": 1}}, {"n": {"state": "Active", "deadline": "yesterday"}}, {"n": {"state": "Active", "deadline": 5}},
             {"n": {"state": "Active", "deadline": 0, "expected_end": []}}, {"n": "Active"}, {"n": None}, [], "x",
             {"a": {"state": "PreMaint", "deadline": "2030-12-31T23:59:59.999999-05:00", "expected_end": "1970-01-01T00:00:00+00:00"},
              "b": {"expected_end": None, "state": "Unknown", "deadline": None}}, {"n": {"state": 5}}]
    for d in midec:
        strs = []
        if isinstance(d, dict):
            for v in d.values():
                if isinstance(v, dict):
                    strs += [x for x in (v.get("deadline"), v.get("expected_end")) if isinstance(x, str)]
        reqs.append(["mi.dec", None if d is None else [to_wire(d)], iso_table(strs)])
    # --- typed tuples
    TV = ["x", "", "a:b", ":", " lead", "trail ", "  ", "t\t", " nb ", "é", "5"]
    for cname in TT:
        types = tuple_types(tt, cname)
        for t in types[:3] + ["nope", "", " " + types[0], types[0] + " ", "\t" + types[-1], types[0].upper(), types[0][:1] + " " + types[0][1:]]:
            for v in TV[:6]:
                reqs.append(["tt.new", cname, t, v])
        reqs.append(["tt.new", cname, types[0], 5])
        reqs.append(["tt.new", cname, types[0], 0])
        for s in ["nocolon", "", ":", types[0] + ":", " " + types[0] + ":v ", types[0] + " :v", types[0] + ":a:b", " " + types[-1] + ":x ",
                  types[0] + ": v", "nope:v", types[0] + ":é"]:
            reqs.append(["tt.from", cname, s])
            reqs.append(["tt.parse", cname, s])
    for i in range(n // 8):
        cname = rng.choice(list(TT))
        t = rng.choice(tuple_types(tt, cname))
        s = rng.choice(["", " ", "\t"]) + t + ":" + rng.choice(TV) + rng.choice(["", " ", "\n"])
        reqs.append([rng.choice(["tt.from", "tt.parse"]), cname, s])
    # type names of EVERY category offered to every category (the validator behind the four classes is one shared helper object;
    # the model's verdict is a function of (category, name) alone): a seeded order, so that a name meets its own category first in
    # some runs and a foreign category first in others, and every (category, name) pair is asked more than once
    every = sorted({t for c in TT for t in tuple_types(tt, c)})
    cross = [[op, cname, t] for op in ("tt.new", "tt.from", "tt.parse") for cname in TT for t in every]
    rng.shuffle(cross)
    cross = cross + cross[:len(cross) // 3]
    for op, cname, t in cross:
        reqs.append([op, cname, t, "4"] if op == "tt.new" else [op, cname, t + ":4"])
    # --- the decoders on TEXT (json.loads inside the model): own encodings, re-spaced, with unknown keys, damaged
    def respace(t, r):
        try:
            o = json.loads(t)
        except Exception:
            return t
        k = r.random()
        return t if k < 0.4 else json.dumps(o, indent=r.choice([0, 2])) if k < 0.6 else json.dumps(o, separators=(",", ":")) if k < 0.8 else \
            " " + json.dumps(o, ensure_ascii=False) + "\n"

    def damage(t, r):
        if len(t) < 2 or r.random() < 0.8:
            return t
        j = r.randrange(len(t))
        c = r.choice([t[:j], t[:j] + t[j + 1:], t + "}", t[:j] + "," + t[j:]])
        try:        # damage that leaves valid JSON changes a *value* (a label the validators reject, a non-canonical date ...): the abstract
            json.loads(c)       # parts of the model are not meant for those; only syntactic damage is sent
            return t
        except Exception:
            return c
    for C in classes:
        for t in ["", "None", "null", "{}", "[]", "0", '""', " ", "{", '{"future_field": 1}', "nul"]:
            reqs.append(["jf.dectext", C.__name__, t])
        for i in range(max(6, n // 40)):
            try:
                t = C(**domain_kwargs(cl, C, rng)).to_json()
            except Exception:
                continue
            if t and rng.random() < 0.3:
                d = json.loads(t)
                t = json.dumps(dict(with_unknown(d, rng, vals=[j for j in JUNK if passes_guard(C, j)])))
            t = respace(t, rng)
            if guard_of(C) != "strfloat":       # a damaged float lexeme may still be a number whose repr differs from the lexeme (outside the model)
                t = damage(t, rng)
            if "\\u" in t and t.count('"') % 2:
                continue
            reqs.append(["jf.dectext", C.__name__, t])
    for t in ["", "None", "[]", '["a"]', '["a", "b-1", "é"]', '[1]', '{"a": 1}', '"a"', "null", "[", '["a",]']:
        reqs.append(["tags.dectext", t])
    for i in range(max(6, n // 60)):
        t = damage(respace(json.dumps([rng.choice(TAGS) for _ in range(rng.choice([0, 1, 3]))]), rng), rng)
        try:        # the tag pattern is an abstract predicate of the model (the driver accepts every str): only tags the pattern accepts
            if any(isinstance(x, str) and x not in TAGS for x in json.loads(t)):
                continue
        except Exception:
            pass
        reqs.append(["tags.dectext", t])
    for t in ["", "{}", "[]", "null", '{"n": {"state": "Active"}}', '{"n": {"state": "Maint", "deadline": "2024-01-02T03:04:05", "expected_end": null}}',
              '{"n": {"state": "Maint", "deadline": "2024-01-02T03:04:05+05:60"}}', '{"n": {"state": "Maint", "deadline": "2024-02-30T03:04:05"}}',
              '{"a": {"state": "Active"}, "a": {"state": "Maint"}}', '{"n": {"state": "Active", "operator": "x"}}', '{"n"']:
        reqs.append(["mi.dectext", t])
    for i in range(max(6, n // 60)):
        m0 = mm.MaintenanceInfo()
        for _ in range(rng.choice([0, 1, 2, 3])):
            m0.add(rng.choice(NODE_NAMES), entry_build(mm, entry(rng)))
        m0.finalize()
        reqs.append(["mi.dectext", damage(respace(m0.to_json(), rng), rng)])
    for d in [{}, v4, v6, dict(v4, mac="00:11:22:33:44:55"), dict(v6, vlan="7"), {"ipv4": "1.2.3.4"}, dict(v4, future="x"), dict(v4, **v6), {"mac": "00:11:22:33:44:55"}]:
        reqs.append(["gw.dectext", damage(respace(json.dumps(d), rng), rng)])
    for t in ["", "None", "null", "[]", "{", '{"ipv4_subnet": "10.0.0.0/8", "ipv4": "10.0.0.1", "ipv4_subnet": "10.0.0.0/16"}']:
        reqs.append(["gw.dectext", t])
    for d in dec:
        if d is not None:
            t = damage(respace(json.dumps(d), rng), rng)
            reqs.append(["pi.dectext", t])
            reqs.append(["ero.dectext", t])
    for t in ["", "{}", "null", "[]", '{"type": "Path", "payload": {"a2z": ["a", "é"], "z2a": null}, "strict": "True"}', '{"type":"Graph","payload":"g","strict":"true"}', "{"]:
        reqs.append(["pi.dectext", t])
        reqs.append(["ero.dectext", t])
    # --- datetime.fromisoformat on the texts isoformat() writes (canonical shape), valid and invalid field values
    def rand_dt(r):
        y = r.choice([1, 2, 999, 1970, 2000, 2023, 2024, 2100, 9999, r.randrange(1, 10000)])
        mo = r.randrange(1, 13)
        dim = [31, 29 if (y % 4 == 0 and (y % 100 != 0 or y % 400 == 0)) else 28, 31, 30, 31, 30, 31, 31, 30, 31, 30, 31][mo - 1]
        tz = None
        if r.random() < 0.6:
            secs = r.choice([0, 0, 1, 59, 60, 3600, 5 * 3600 + 1800, 19800, 86399, r.randrange(0, 86400)])
            us = r.choice([0, 0, 0, 1, 999999, r.randrange(0, 1000000)])
            td = timedelta(seconds=secs, microseconds=us)
            tz = timezone(-td if r.random() < 0.5 and td else td)
        return datetime(y, mo, r.choice([1, dim, r.randrange(1, dim + 1)]), r.choice([0, 23, r.randrange(24)]), r.choice([0, 59, r.randrange(60)]),
                        r.choice([0, 59, r.randrange(60)]), r.choice([0, 0, 1, 999999, r.randrange(1000000)]), tzinfo=tz)
    for d0 in DATES:
        reqs.append(["iso", d0.isoformat()])
    for s0 in ["", "yesterday", "2024-01-02T03:0", "2024-01-02T03:04:5", "2024-02-30T00:00:00", "2023-02-29T00:00:00", "2024-02-29T00:00:00", "1900-02-29T00:00:00", "2000-02-29T00:00:00",
               "0000-01-01T00:00:00", "2024-00-10T00:00:00", "2024-13-10T00:00:00", "2024-01-00T00:00:00", "2024-01-32T00:00:00", "2024-04-31T00:00:00",
               "2024-01-02T24:00:00", "2024-01-02T03:60:00", "2024-01-02T03:04:60", "2024-01-02T03:04:05+24:00", "2024-01-02T03:04:05-23:59:60",
               "2024-01-02T03:04:05+05:60", "2024-01-02T03:04:05+99:00", "2024-01-02T03:04:05-00:00", "2024-01-02T03:04:05+00:00:00.000001",
               "2024-01-02T03:04:05-00:00:00.999999", "2024-01-02T03:04:05+00:00:01.000001", "2024-01-02T03:04:05.000000", "2024-01-02T03:04:05+",
               "2024-01-02T03:04:05+5:00", "2024-01-02T03:04:05.000001+00:00x", "x024-01-02T03:04:05", "2024-01-02T03:04:05-23:59:59.999999"]:
        reqs.append(["iso", s0])
    for i in range(n // 5):
        reqs.append(["iso", rand_dt(rng).isoformat()])
    # --- json.loads (the decoder of every stored text)
    for t in PARSE_TEXTS:
        reqs.append(["json.parse", t])
    for i in range(n // 6):
        o = json.loads(json.dumps(rand_json(rng, tuples=True, nonstr=True)))
        k = rng.random()
        t = json.dumps(o) if k < 0.4 else json.dumps(o, indent=rng.choice([0, 1, 3]), sort_keys=rng.random() < 0.5) if k < 0.6 else \
            json.dumps(o, separators=(",", ":"), ensure_ascii=False)
        if k > 0.85 and len(t) > 1:          # damaged texts
            j = rng.randrange(len(t))
            t = rng.choice([t[:j], t[:j] + t[j + 1:], t[:j] + rng.choice(",:]}[{\"\\ 0e.-") + t[j:], t + rng.choice(["]", ",", " x", "\n"])])
            if "\\u" in t:                    # a cut surrogate pair is a lone surrogate in Python; outside the model
                continue
        reqs.append(["json.parse", t])
    # --- histories: reads / in-place edits of the caller's objects / looks (aliasing)
    jd_getters = [("json",), ("data",)]
    for cname in ("MeasurementData", "UserData", "LayoutData"):
        C = getattr(jd, cname)
        fixed = [({"k": ["a", "b"], "n": {"x": 0}}, [["read", "data", None], ["edit", 0], ["read", "data", None], ["edit", 1], ["edit", 2], ["read", "data", None],
                                                    ["read", "json", None], ["show", 0], ["show", 1], ["show", 2], ["show", 3]]),
                 (None, [["read", "data", None], ["edit", 1], ["read", "data", None], ["read", "json", None], ["show", 1]]),
                 ([[1], [2]], [["edit", 0], ["read", "data", None], ["read", "json", None]]),
                 ({"t": (1, (2, 3)), 1: "one"}, [["read", "data", None], ["edit", 1], ["read", "data", None], ["read", "json", None]])]
        for o, steps in fixed:
            reqs.append(["hist", "jd", cname, ["obj", to_wire_json(o), repr(o)], steps])
        for t in ['{"k": ["a", "b"], "z": 0}', ' [ {"a": []}, [1] ] ', "{}", '{"b":2,"a":1,"b":{"c":[]}}']:
            reqs.append(["hist", "jd", cname, ["text", t, True], [["read", "data", None], ["edit", 1], ["read", "data", None], ["edit", 2], ["read", "data", None],
                                                                 ["read", "json", None], ["show", 1], ["read", "eq", json.dumps(json.loads(t), sort_keys=True)],
                                                                 ["read", "eq", "[0]"]]])
        for i in range(max(4, n // 60)):
            o = rand_json(rng, tuples=rng.random() < 0.3, nonstr=rng.random() < 0.3)
            if isinstance(o, str):
                continue
            twin = json.dumps(json.loads(json.dumps(o)), sort_keys=True, indent=rng.choice([None, 1]))
            other = json.dumps(rand_json(rng))
            getters = jd_getters + ([("eq", lambda r_, a=twin, b=other: r_.choice([a, a, b]))] if len(twin) <= C.MAX_SIZE and len(other) <= C.MAX_SIZE else [])
            if rng.random() < 0.6:
                reqs.append(["hist", "jd", cname, ["obj", to_wire_json(o), repr(o)], rand_steps(rng, getters, 1, editable0=not has_tuple(o))])
            else:
                t = json.dumps(json.loads(json.dumps(o)), indent=rng.choice([None, None, 2]))
                reqs.append(["hist", "jd", cname, ["text", t, True], rand_steps(rng, getters, 1)])
    for args in [[["a", "b"]], ["a", ["b", "c"], []], [[]], []]:
        reqs.append(["hist", "tags", args, [["read", "iter", None], ["edit", 0], ["edit", len(args)], ["read", "iter", None], ["read", "json", None], ["show", len(args)]]])
    for i in range(max(4, n // 60)):
        args = [[rng.choice(TAGS) for _ in range(rng.choice([0, 1, 3]))] if rng.random() < 0.7 else rng.choice(TAGS) for _ in range(rng.choice([1, 1, 2, 3]))]
        reqs.append(["hist", "tags", args, rand_steps(rng, [("json",), ("iter",)], len(args))])
    for i in range(max(4, n // 60)):
        es, seen = [], set()
        for _ in range(rng.choice([1, 2, 3])):
            nm = rng.choice(NODE_NAMES)
            if nm not in seen:
                seen.add(nm)
                es.append([nm, entry(rng)])
        getters = [("json",), ("details",), ("names",), ("iter",), ("get", lambda r_, ns=[e[0] for e in es]: r_.choice(ns + ["absent"]))]
        steps = [st for st in rand_steps(rng, getters, len(es)) if st[0] != "show"]
        reqs.append(["hist", "mi", es, steps])
    for C in classes:
        if guard_of(C) != "strlist":
            continue
        names = list(C().__dict__)
        for i in range(max(3, n // 100)):
            kw = {}
            for f in rng.sample(names, min(len(names), 3)):
                pool = label_values(cl, f) if C.__name__ == "Labels" else STRS
                if pool:
                    kw[f] = [rng.choice(pool) for _ in range(rng.choice([0, 1, 2, 3]))] if rng.random() < 0.75 else rng.choice(pool)
            steps = [["showX"]]
            for _ in range(rng.choice([3, 6, 10])):
                f = rng.choice(list(kw) + names[:1]) if kw else names[0]
                pool = (label_values(cl, f) if C.__name__ == "Labels" else STRS) or ["x"]
                steps.append(rng.choice([["growX", f, rng.choice(pool)], ["growY", f, rng.choice(pool)], ["update"], ["showX"], ["showY"]]))
            steps += [["showX"], ["showY"]]
            reqs.append(["hist", "jf", C.__name__, [[k, to_wire(v)] for k, v in kw.items()], steps])
    # --- histories with REJECTED calls (typed tuples, _set_fields in place, PathInfo.set): the state after every step
    reqs += seq_requests(M, rng, n)
    return reqs


def rand_json(rng, d=0, tuples=False, nonstr=False):
    """a random Python object json.dumps accepts; `tuples` / `nonstr`: also forms JSON normalises"""
    k = rng.random()
    if d > 3 or k < 0.35:
        return rng.choice([None, True, False, 0, 1, -7, 2 ** 70, 0.0, 2.5, -1e-07, 1e22] + (["", "s", "é", "q\"\\", "\U0001f600\n", "\x7f/"] if d else []))
    if k < 0.6:
        return [rand_json(rng, d + 1, tuples, nonstr) for _ in range(rng.choice([0, 1, 2, 3]))]
    if k < 0.68 and tuples:
        return tuple(rand_json(rng, d + 1, tuples, nonstr) for _ in range(rng.choice([1, 2])))
    keys = ["a", "b", "k", "", "é", "__m__", "f", "o"] + ([1, 2.5, True, None] if nonstr and rng.random() < 0.5 else [])
    return {rng.choice(keys): rand_json(rng, d + 1, tuples, nonstr) for _ in range(rng.choice([0, 1, 2, 3]))}


def has_tuple(o):
    if isinstance(o, tuple):
        return True
    if isinstance(o, list):
        return any(has_tuple(x) for x in o)
    if isinstance(o, dict):
        return any(has_tuple(x) for x in o.values())
    return False


def rand_steps(rng, getters, n_owned, editable0=True):
    """a history: reads, in-place edits of caller-owned objects (arguments and earlier results), looks at them"""
    steps, owned = [], n_owned
    for _ in range(rng.choice([3, 5, 8, 12])):
        k = rng.random()
        if k < 0.45 or owned == 0:
            g = rng.choice(getters)
            steps.append(["read", g[0], g[1](rng) if len(g) > 1 else None])
            owned += 1
        else:
            i = rng.randrange(0, owned + (1 if rng.random() < 0.05 else 0))
            if i < n_owned and not editable0:
                continue
            steps.append([rng.choice(["edit", "edit", "show"]), i])
    steps.append(["read", getters[0][0], None])
    steps.append(["read", getters[1][0], getters[1][1](rng) if len(getters[1]) > 1 else None])
    return steps


PARSE_TEXTS = ["", " ", "null", " true", "false ", "nul", "True", "0", "-0", "00", "01", "-", "1.", ".5", "1.5", "-2.50", "1e5", "1E-3", "1e", "1e+", "2e+07",
               "12345678901234567890123", "NaN", "Infinity", "-Infinity", "-Inf", "nan", '""', '"a', '"\\n"', '"\\x"', '"\\u00e9"', '"\\u00E9\\/"',
               '"\\ud83d\\ude00"', '"\\u12"', '"tab\there"', '"é\U0001f600"', "[]", "[ ]", "[1,2]", "[1 ,2 ]", "[1,]", "[,1]", "[1 2]", "[", "]", "{}", "{ }",
               '{"a":1}', '{"a" : 1 , "b":[ ]}', '{"a":1,}', '{a:1}', "{'a':1}", '{"a":1,"b":2,"a":3}', '{"a":{"a":{"a":[[[]]]}}}', '{"a"}', '{"a":}', '[1]x', "[1] [2]",
               "\n\t[\r1\n]\n", '{"k": ["a", "b"], "z": 0}', "[" * 30 + "]" * 30, '{"__m__": [1]}', '[{"o": 1, "f": "x"}]', "\ufeff[]", "[\u00a01]", "// c\n1", "1 /* */"]


def nontrivial(r):
    op = r[0]
    if op == "json.parse":
        return len(r[1].strip()) > 2
    if op == "iso":
        return len(r[1]) >= 19
    if op in ("jf.dectext", "tags.dectext", "mi.dectext", "pi.dectext", "ero.dectext", "gw.dectext"):
        return len(r[-1]) > 4
    if op == "hist":
        return any(st[0] in ("edit", "growX", "growY") for st in r[-1])
    if op == "jf.new":
        return len(r[2]) > 0
    if op == "jf.dec":
        return r[2] is not None and isinstance(r[2][0], dict) and len(r[2][0].get("o", [])) > 0
    if op == "jf.upd":
        return len(r[3]) > 0 or any(v not in (None, 0, False) for v in r[2])
    if op in ("tags.new", "tags.dec", "gw.new", "gw.dec", "pi.dec", "ero.dec"):
        return r[1] not in (None, [], [[]])
    if op in ("pi.enc", "ero.enc"):
        return r[1]["payload"] is not None
    if op == "mi.run":
        return any(o[0] == "add" for o in r[1])
    if op in ("tt.seq", "jf.seq", "pi.seq"):
        return len(r[3]) >= 1
    if op == "mi.dec":
        return r[1] not in (None, [{"o": []}])
    return True


def correspondence(ctx, res, n=None):
    M = mods()
    n = n or ctx.scale(1500, 30000)
    reqs = gen_requests(M, ctx.sub_rng("corr"), n)
    ctx.sub_rng("corr-order").shuffle(reqs)        # the model is a function of the request: any order must agree
    impl = [impl_eval(M, r) for r in reqs]
    model = LeanDriver("C03").run([json.dumps(r) for r in reqs])
    shown = set()
    for r, i, m in zip(reqs, impl, model):
        res.evaluations += 1
        res.count("op:" + r[0])
        if r[0].startswith("jf."):
            res.count("class:" + r[1])
        if i[0] == "err":
            res.count("err:" + i[1])
        if nontrivial(r):
            res.nontrivial.add(canon(r))
        mj = json.loads(m)
        if r[0] in ("json.parse", "hist"):
            res.count("op:hist:" + r[1] if r[0] == "hist" else "parse:" + i[0])
            mj, i = norm_floats(mj), norm_floats(i)
        if json.loads(canon(mj)) != json.loads(canon(i)):
            res.disagreements.append({"case": r, "impl": i, "model": mj})
        elif r[0] not in shown and nontrivial(r) and i[0] == "ok":
            shown.add(r[0])
            res.sample({"request": r, "impl": i, "model": mj}, limit=4)


# --------------------------------------------------------------------------
# the property itself, on the implementation

def vclass(v):
    if v is None:
        return "none"
    if isinstance(v, bool):
        return "false" if not v else "true"
    if isinstance(v, int):
        return "zero-int" if v == 0 else "int"
    if isinstance(v, float):
        return "zero-float" if v == 0 else "float"
    if isinstance(v, str):
        return "empty-str" if v == "" else "str"
    if isinstance(v, list):
        return "empty-list" if not v else "list"
    return type(v).__name__


def srepr(o):
    try:
        return repr(o)[:200]
    except Exception as e:
        return "<%s whose repr raises %s>" % (type(o).__name__, type(e).__name__)


def mutate_container(o, depth=0):
    """change a list / dict in place (and its first nested container); False for scalars"""
    if isinstance(o, dict):
        inner = [v for v in o.values() if isinstance(v, (list, dict))]
        o["__mutated__"] = depth
        if inner and depth < 3:
            mutate_container(inner[0], depth + 1)
        return True
    if isinstance(o, list):
        inner = [v for v in o if isinstance(v, (list, dict))]
        o.append("__mutated__")
        if o[:1] and not isinstance(o[0], (list, dict)):
            o[0] = "__changed__"
        if inner and depth < 3:
            mutate_container(inner[0], depth + 1)
        return True
    return False


class Watch:
    """deep snapshots of inputs and of previously returned values, compared after later API calls"""

    def __init__(self, oracle, case, cname):
        self.o, self.case, self.cname, self.items = oracle, case, cname, []

    def add(self, name, obj):
        self.items.append((name, obj, copy.deepcopy(obj)))

    def check(self, after):
        for name, obj, snap in self.items:
            if obj != snap:
                kindof = "input-changed" if "argument" in name or "given" in name else "returned-value-changed"
                self.o.bad("%s:history:api-call:%s" % (self.cname, kindof), "%s was changed by a later call (%s)" % (name, after), self.case,
                           expected=srepr(snap), observed=srepr(obj))


class Oracle(AliasOracle, FailOracle, StoredOracle):
    def __init__(self, M, res):
        self.M = M
        self.res = res

    def bad(self, sig, what, case, **kw):
        self.res.violation("C03:" + sig, what, case, **kw)

    # ---- JSONField
    def jsonfield(self, cname, kw, unknown=None):
        """kw: constructor arguments in the documented domain. unknown: [(key, value)] to inject into the encoding."""
        cl = self.M[0]
        C = getattr(cl, cname)
        case = {"kind": "jsonfield", "class": cname, "kw": to_wire(kw), "unknown": to_wire(unknown) if unknown else None}
        res = self.res
        try:
            x = C(**copy.deepcopy(kw))
        except Exception as e:
            self.bad("%s:construct-raises:%s" % (cname, kind(e)), "constructor rejects a value of the documented domain", case)
            return
        snap = copy.deepcopy(x.__dict__)
        fresh = C().__dict__
        nothing = snap == fresh and all(type(snap[k]) is type(fresh[k]) for k in snap)
        try:
            t = x.to_json()
        except Exception as e:
            self.bad("%s:encode-raises:%s" % (cname, kind(e)), "to_json raises", case)
            return
        # order-free expectation, stated independently of the implementation's to_json: a class that inherits
        # JSONField.to_json ("if there are no values in the object, returns empty string") writes exactly the fields
        # that are set (not None, not equal to the default of a fresh instance), sorted; '' when there is none.
        # It cannot depend on what this process encoded before.
        if "to_json" not in C.__dict__:
            setf = {k: v for k, v in snap.items() if v is not None and not (v == fresh[k] and type(v) is type(fresh[k]))}
            exp_t = json.dumps(setf, sort_keys=True) if setf else ""
            if t != exp_t:
                why = "nothing-set-not-empty-text" if not setf else ("default-valued-field-in-text" if len(t) > len(exp_t) else "set-field-missing-from-text")
                self.bad("%s:encoding-not-canonical:%s" % (cname, why),
                         "to_json is not the canonical text of the set fields (sorted keys, unset/default fields omitted, '' when nothing is set)",
                         case, expected=exp_t, observed=t)
            if exp_t:
                try:   # a canonical stored text re-encodes to itself
                    t3 = C.from_json(exp_t).to_json()
                    if t3 != exp_t:
                        self.bad("%s:stored-text-reencodes-differently" % cname, "decode + encode of a canonical text gives a different text",
                                 case, expected=exp_t, observed=t3)
                except Exception as e:
                    self.bad("%s:stored-text-raises:%s" % (cname, kind(e)), "decode + encode of a canonical text raises", case, observed=exp_t)
        if "to_dict" not in C.__dict__:
            setd = {k: v for k, v in snap.items() if v is not None and not (v == fresh[k])}
            try:
                dd = x.to_dict()
                if dd != (setd or None) or (dd is not None and list(dd) != [k for k in snap if k in setd]):
                    self.bad("%s:to_dict-not-set-fields" % cname, "to_dict is not the dict of the set fields (None when nothing is set)", case,
                             expected=to_wire(setd or None), observed=to_wire(dd))
            except Exception as e:
                pass    # reported below
        if x.__dict__ != snap:
            self.bad("%s:to_json-mutates" % cname, "to_json changed the value", case)
        try:
            y = C.from_json(t)
        except Exception as e:
            self.bad("%s:decode-own-encoding-raises:%s" % (cname, kind(e)), "from_json raises on the class's own encoding", case, observed=t)
            return
        ybase = y
        if y is None:
            if not (nothing and t == ""):
                lost = [k for k in snap if snap[k] != fresh[k] or type(snap[k]) is not type(fresh[k])]
                f = lost[0] if lost else "?"
                self.bad("%s.%s:lost:%s" % (cname, f, vclass(snap.get(f))), "a set field is encoded as empty text and read back as absent", case,
                         expected=to_wire(snap), observed=None)
        else:
            if t == "":
                self.bad("%s:empty-text-decodes-to-object" % cname, "empty text does not read back as absent", case)
            diff = [k for k in snap if k not in y.__dict__ or y.__dict__[k] != snap[k]]
            if diff or set(y.__dict__) != set(snap):
                f = diff[0] if diff else sorted(set(y.__dict__) ^ set(snap))[0]
                self.bad("%s.%s:lost:%s" % (cname, f, vclass(snap.get(f))), "field does not survive to_json/from_json", case,
                         expected=to_wire(snap.get(f)), observed=to_wire(y.__dict__.get(f)))
            else:
                for k in snap:
                    if type(y.__dict__[k]) is not type(snap[k]):
                        res.count("oracle:type-changed-but-equal")
            try:
                t2 = y.to_json()
                if t2 != t:
                    self.bad("%s:reencode-differs" % cname, "re-encoding the decoded value gives a different text", case, expected=t, observed=t2)
            except Exception as e:
                self.bad("%s:reencode-raises:%s" % (cname, kind(e)), "re-encoding the decoded value raises", case)
        if t != "":
            try:
                d = json.loads(t)
                if list(d.keys()) != sorted(d.keys()) or json.dumps(d, sort_keys=True) != t:
                    self.bad("%s:not-canonical" % cname, "encoding is not the canonical sorted-keys text", case, observed=t)
            except Exception as e:
                self.bad("%s:encoding-not-json" % cname, "encoding is not JSON", case, observed=t)
        # None / '' / 'None' read back as absent
        for empty in (None, "", "None"):
            try:
                if C.from_json(empty) is not None:
                    self.bad("%s:empty-not-absent" % cname, "empty text is not read back as absent", case)
            except Exception as e:
                self.bad("%s:empty-raises:%s" % (cname, kind(e)), "from_json raises on empty text", case)
        # to_dict -> constructor
        try:
            d = x.to_dict()
            if x.__dict__ != snap:
                self.bad("%s:to_dict-mutates" % cname, "to_dict changed the value", case)
            z = C(**copy.deepcopy(d)) if d is not None else C()
            diff = [k for k in snap if z.__dict__.get(k) != snap[k]]
            if diff:
                self.bad("%s.%s:to_dict-lost:%s" % (cname, diff[0], vclass(snap[diff[0]])), "field does not survive to_dict/constructor", case,
                         expected=to_wire(snap[diff[0]]), observed=to_wire(z.__dict__.get(diff[0])))
        except Exception as e:
            self.bad("%s:to_dict-raises:%s" % (cname, kind(e)), "to_dict / constructor from it raises", case)
        # copy-with-changes
        try:
            c0 = C.update(x)
            if c0 is x or c0.__dict__ != snap or x.__dict__ != snap:
                self.bad("%s:update-copy" % cname, "update(x) is not an equal new value leaving x untouched", case)
        except Exception as e:
            self.bad("%s:update-raises:%s" % (cname, kind(e)), "update(x) raises", case)
        # unknown keys
        if unknown:
            # tolerated = decodes exactly as the same text without the unknown keys does
            base = dict(fresh) if ybase is None else dict(ybase.__dict__)
            d = json.loads(t) if t else {}
            items = list(d.items())
            for i, (k, v) in enumerate(unknown):
                items.insert((i * 7) % (len(items) + 1), (k, v))
            text = json.dumps(dict(items))
            attr = [k for k, _ in unknown if k in dir(C())]
            badv = [v for _, v in unknown if not passes_guard(C, v)]
            try:
                y = C.from_json(text)
                ok = y is not None and all(y.__dict__.get(k) == base[k] for k in base) and set(y.__dict__) == set(base)
                if ok:
                    y.to_json()
                    C.update(y)
            except Exception as e:
                ok = False
                y = e
            if not ok:
                if attr:
                    self.bad("%s:unknown-key-shadows-attribute" % cname,
                             "an unknown JSON key that names a method/class attribute is set on the instance", case, observed=srepr(y))
                elif badv:
                    self.bad("%s:unknown-key-value-rejected-by-type-guard" % cname,
                             "an unknown JSON key whose value is not of the class's field type makes from_json raise", case, observed=srepr(y))
                else:
                    self.bad("%s:unknown-key:%s" % (cname, "raises:" + kind(y) if isinstance(y, Exception) else "changes-known-fields"),
                             "unknown keys are not tolerated", case, observed=srepr(y))

    def jf_update(self, cname, kw, kw2, bad_key=None):
        cl = self.M[0]
        C = getattr(cl, cname)
        case = {"kind": "update", "class": cname, "kw": to_wire(kw), "kw2": to_wire(kw2), "bad_key": bad_key}
        x = C(**copy.deepcopy(kw))
        snap = copy.deepcopy(x.__dict__)
        args = copy.deepcopy(kw2)
        if bad_key:
            args[bad_key] = list(kw2.values())[0] if kw2 else C().__dict__[list(snap)[0]]
        argsnap = copy.deepcopy(args)
        try:
            y = C.update(x, **args)
            if bad_key:
                self.bad("%s:update-accepts-unknown-field" % cname, "update with a non-existent field does not raise", case)
            exp = dict(snap)
            exp.update(kw2)
            if y is x or type(y) is not C:
                self.bad("%s:update-returns-same-object" % cname, "update did not return a new value", case)
            if y.__dict__ != exp:
                self.bad("%s:update-result" % cname, "update result is not the original with the given fields replaced", case,
                         expected=to_wire(exp), observed=to_wire(y.__dict__))
        except Exception as e:
            if not bad_key or passes_guard(C, args[bad_key]) and kind(e) in ("assertion", "type"):
                self.bad("%s:update-raises:%s" % (cname, kind(e)), "update with valid fields raises", case)
        if x.__dict__ != snap:
            self.bad("%s:update-mutates-original" % cname, "update changed the original", case, expected=to_wire(snap), observed=to_wire(x.__dict__))
        if args != argsnap:
            self.bad("%s:update-mutates-arguments" % cname, "update changed its arguments", case)

    # ---- Tags
    def tags(self, ts):
        tg = self.M[1]
        case = {"kind": "tags", "tags": ts}
        inp = list(ts)
        try:
            x = tg.Tags(inp)
            t = x.to_json()
            y = tg.Tags.from_json(t)
            if y is None or list(y.tags) != list(ts):
                self.bad("Tags:lost", "tags do not survive to_json/from_json", case, observed=None if y is None else list(y.tags))
            elif y.to_json() != t:
                self.bad("Tags:reencode-differs", "re-encoding differs", case)
            if inp != ts or list(x.tags) != list(ts):
                self.bad("Tags:mutates", "input list or value changed", case)
            if not ts:
                self.res.count("oracle:empty-value-encoded-as-empty-container:Tags")
        except Exception as e:
            self.bad("Tags:raises:%s" % kind(e), "Tags codec raises on valid tags", case)
        for empty in (None, "", "None"):
            if tg.Tags.from_json(empty) is not None:
                self.bad("Tags:empty-not-absent", "empty text not read back as absent", case)

    # ---- JSONData
    def jsondata(self, cname, obj=None, text=None):
        jd = self.M[2]
        C = getattr(jd, cname)
        case = {"kind": "jsondata", "class": cname, "py": repr(obj) if text is None else None, "text": text}
        try:
            if text is not None:
                x = C(text)
                if x.json != text:
                    self.bad("%s:text-changed" % cname, "JSON text is not stored verbatim", case)
                if x.data != json.loads(text):
                    self.bad("%s:data-differs" % cname, ".data is not the parsed text", case)
            else:
                snap = copy.deepcopy(obj)
                x = C(obj)
                if obj != snap:
                    self.bad("%s:mutates" % cname, "constructor changed its argument", case)
                if obj is None:
                    if x.json != "{}":
                        self.bad("%s:none" % cname, "None is not stored as {}", case)
                elif x.data != json.loads(json.dumps(obj)) or type(x.data) is not type(json.loads(json.dumps(obj))):
                    # the value is what its encoding decodes to (tuples read back as lists, non-str keys as str)
                    self.bad("%s:object-lost" % cname, ".data differs from decode(encode(object))", case, observed=srepr(x.data))
            if x.data != json.loads(x.json):
                self.bad("%s:data-differs-from-text" % cname, ".data is not what .json decodes to", case, observed=srepr(x.data))
            y = C(x.json)
            if y.json != x.json or y.data != x.data:
                self.bad("%s:reencode-differs" % cname, "re-reading .json gives a different value", case)
            if len(x.json) > C.MAX_SIZE:
                self.bad("%s:oversize-accepted" % cname, "stored text exceeds MAX_SIZE", case)
        except Exception as e:
            within = text is not None and len(text) <= C.MAX_SIZE or text is None and len(json.dumps(obj)) <= C.MAX_SIZE
            if within:
                self.bad("%s:raises:%s" % (cname, kind(e)), "valid JSON data within the size limit is rejected", case)

    # ---- Gateway
    def gateway(self, kw):
        cl, gw = self.M[0], self.M[3]
        case = {"kind": "gateway", "kw": kw}
        try:
            lab = cl.Labels(**kw) if kw is not None else None
            snap = copy.deepcopy(lab.__dict__) if lab is not None else None
            g = gw.Gateway(lab)
            t = g.to_json()
            g2 = gw.Gateway.from_json(t)
            if g.lab is None:
                if not (g2 is None or g2.lab is None):          # nothing set: read back as absent (or as an unset gateway)
                    self.bad("Gateway:unset-not-absent", "unset gateway is not read back as absent", case)
            elif g2 is None or g2.lab is None or g.lab.__dict__ != g2.lab.__dict__:
                self.bad("Gateway:lost", "gateway does not survive to_json/from_json", case)
            elif g2.to_json() != t:
                self.bad("Gateway:reencode-differs", "re-encoding differs", case)
            elif (g.gateway, g.subnet, g.mac) != (g2.gateway, g2.subnet, g2.mac):
                self.bad("Gateway:accessors", "gateway/subnet/mac differ after the round trip", case)
            if g.lab is None and t not in (None, ""):
                self.bad("Gateway:unset-not-empty", "unset gateway is not encoded as empty", case)
            if lab is not None and lab.__dict__ != snap:
                self.bad("Gateway:mutates", "Gateway changed the labels it was given", case)
            if t:
                d = json.loads(t)
                d["future_field"] = "x"
                g3 = gw.Gateway.from_json(json.dumps(d))
                if g3.lab.__dict__ != g.lab.__dict__:
                    self.bad("Gateway:unknown-key", "unknown key changes the decoded gateway", case)
        except Exception as e:
            self.bad("Gateway:raises:%s" % kind(e), "Gateway codec raises on a valid gateway", case)

    # ---- PathInfo / ERO
    def pathinfo(self, ero, ptype, payload, strict=False, unknown=False):
        pi = self.M[4]
        cname = "ERO" if ero else "PathInfo"
        case = {"kind": "pathinfo", "ero": ero, "type": ptype, "payload": to_wire(payload), "strict": strict, "unknown": unknown}
        T = pi.PathRepresentationType
        try:
            p = pi.ERO(T[ptype], strict) if ero else pi.PathInfo(T[ptype])
            if payload is not None:
                if ptype == "Path":
                    q = pi.Path()
                    q.set(a2z=copy.deepcopy(payload[0]), z2a=copy.deepcopy(payload[1]))
                    p.set(q)
                else:
                    p.set(payload)
        except Exception as e:
            self.bad("%s:construct-raises:%s" % (cname, kind(e)), "constructor/setter rejects a documented value", case)
            return
        what = "nothing-set" if payload is None else "value"
        try:
            t = p.to_json()
        except Exception as e:
            self.bad("%s:%s:encode-raises:%s" % (cname, what, kind(e)), "to_json raises", case)
            return
        try:
            if unknown:
                d = json.loads(t)
                d = dict([("future_field", {"x": [1]})] + list(d.items()) + [("zz", None)])
                if isinstance(d.get("payload"), dict):
                    d["payload"] = dict(list(d["payload"].items()) + [("hop_count", 3)])
                t_in = json.dumps(d)
            else:
                t_in = t
            y = (pi.ERO if ero else pi.PathInfo).from_json(t_in)
        except Exception as e:
            self.bad("%s:%s:decode-raises:%s" % (cname, "unknown-key" if unknown else what, kind(e)), "from_json raises", case, observed=t)
            return
        if t == "":
            if y is not None or payload is not None:
                self.bad("%s:empty-text" % cname, "empty text for a set value / not read back as absent", case)
            return
        same = y is not None and y.type == p.type and type(y.payload) is type(p.payload) and \
            (y.payload.__dict__ == p.payload.__dict__ if isinstance(p.payload, pi.Path) else y.payload == p.payload) and \
            (not ero or y.strict == p.strict)
        if not same:
            self.bad("%s:%s:lost" % (cname, "unknown-key" if unknown else what), "value does not survive to_json/from_json", case, observed=t)
        elif y.to_json() != t:
            self.bad("%s:reencode-differs" % cname, "re-encoding differs", case, expected=t, observed=y.to_json())

    # ---- MaintenanceInfo
    def maintenance(self, entries, unknown_entry_key=None):
        mm = self.M[5]
        case = {"kind": "maintenance", "entries": entries, "unknown_entry_key": unknown_entry_key}
        try:
            m = mm.MaintenanceInfo()
            for nm, w in entries:
                m.add(nm, entry_build(mm, w))
            try:
                m.to_json()
                self.bad("MaintenanceInfo:encode-before-finalize", "to_json works before finalize", case)
            except mm.MaintenanceModeException:
                pass
            m.finalize()
            snap = copy.deepcopy(m._nodes)
            t = m.to_json()
            if unknown_entry_key:
                d = json.loads(t)
                for v in d.values():
                    v[unknown_entry_key] = "x"
                try:
                    y = mm.MaintenanceInfo.from_json(json.dumps(d))
                    if y._nodes != snap:
                        self.bad("MaintenanceInfo:entry-unknown-key:changes-known-fields", "unknown key in an entry changes it", case)
                except Exception as e:
                    self.bad("MaintenanceInfo:entry-unknown-key:raises:%s" % kind(e), "unknown key inside an entry makes from_json raise", case, observed=t)
            y = mm.MaintenanceInfo.from_json(t)
            if y is None or y._nodes != snap or list(y._nodes) != list(snap) or y._lock is not True:
                # which entry/field was lost decides the signature: a UTC offset below one second is dropped by CPython's own
                # fromisoformat (isoformat writes it) - everything else is a loss of the codec
                sub = False
                for e in snap.values():
                    for dt in (e.deadline, e.expected_end):
                        off = dt.utcoffset() if dt is not None else None
                        sub |= off is not None and off != timedelta(0) and abs(off) < timedelta(seconds=1)
                lost_other = y is None or list(y._nodes) != list(snap) or y._lock is not True or any(
                    (a.state, a.deadline.replace(tzinfo=None) if a.deadline else None, a.expected_end.replace(tzinfo=None) if a.expected_end else None) !=
                    (b.state, b.deadline.replace(tzinfo=None) if b.deadline else None, b.expected_end.replace(tzinfo=None) if b.expected_end else None)
                    for a, b in zip(snap.values(), y._nodes.values()))
                self.bad("MaintenanceInfo:lost" + (":subsecond-utc-offset" if sub and not lost_other else ""),
                         "record does not survive to_json/from_json", case, observed=t)
            elif y.to_json() != t:
                self.bad("MaintenanceInfo:reencode-differs", "re-encoding differs", case)
            # finalized record cannot be altered
            for target in (m, y):
                if target is None:
                    continue
                before = copy.deepcopy(target._nodes)
                some = next(iter(before), "n")
                for f in (lambda: target.add("zz", entry_build(mm, ["Active", None, None])), lambda: target.add(some, entry_build(mm, ["Maint", None, None])),
                          lambda: target.rem(some), lambda: target.pop(some), lambda: target.rem("absent"), lambda: target.pop("absent")):
                    try:
                        f()
                        self.bad("MaintenanceInfo:finalized-altered", "a modifier succeeded on a finalized record", case)
                    except mm.MaintenanceModeException:
                        pass
                    except Exception as e:
                        self.bad("MaintenanceInfo:finalized-modifier-raises:%s" % kind(e), "modifier on a finalized record raises the wrong error", case)
                if target._nodes != before or target._lock is not True:
                    self.bad("MaintenanceInfo:finalized-altered", "a finalized record changed", case)
            c = m.copy()
            c.add("zz", entry_build(mm, ["Active", None, None]))
            if m._nodes != snap:
                self.bad("MaintenanceInfo:copy-aliases", "modifying a copy changed the finalized original", case)
        except Exception as e:
            self.bad("MaintenanceInfo:raises:%s" % kind(e), "maintenance codec raises on a valid record", case)

    # ---- typed tuples
    def ttuple(self, cname, t, v):
        tt = self.M[6]
        C = getattr(tt, cname)
        case = {"kind": "ttuple", "class": cname, "type": t, "val": v}
        try:
            x = C(atype=t, aval=v)
            s = x.get_as_string()
            for how in ("fromstring", "parse"):
                if how == "fromstring":
                    y = C(fromstring=s)
                else:
                    y = C(atype=t, aval="")
                    y.parse_from_string(s)
                if (y.type, y.val) != (x.type, x.val) or type(y.val) is not type(x.val):
                    if not isinstance(v, str):
                        why = "int-value-decodes-as-str"
                    elif v != v.rstrip():
                        why = "trailing-blank-stripped"
                    else:
                        why = "lost"
                    self.bad("typed_tuple:%s:%s" % (how, why), "typed tuple does not survive get_as_string/%s" % how, case,
                             expected=[x.type, to_wire(x.val)], observed=[y.type, to_wire(y.val)])
                elif y.get_as_string() != s:
                    self.bad("typed_tuple:%s:reencode-differs" % how, "re-encoding differs", case)
            if (x.type, x.val) != (t, v):
                self.bad("typed_tuple:mutates", "value changed", case)
        except Exception as e:
            self.bad("typed_tuple:raises:%s" % kind(e), "typed tuple codec raises on a valid tuple", case)

    def ttuple_name(self, cname, t, v, via):
        """A type NAME given as written (blanks in front / behind / inside, other case, empty) through an entry point that takes it
        literally: the keyword constructor, or the re-parse setter on "name:value".  Refusing it is fine (nothing is built; the
        tuple re-parsed keeps what it had).  If it is ACCEPTED the tuple is a value like any other: its own encoding decodes
        (fromstring= and parse_from_string) to the same type and value, and re-encodes to the same text."""
        tt = self.M[6]
        C = getattr(tt, cname)
        case = {"kind": "ttuple_name", "class": cname, "type": t, "val": v, "via": via}
        base = tuple_types(tt, cname)
        st = t.strip()
        shape = ("exact" if t in base else "empty" if t == "" else "blank-only" if st == "" else
                 "leading-blank" if st in base and t != t.lstrip() and t == t.rstrip() else
                 "trailing-blank" if st in base and t == t.lstrip() else "blanks-around" if st in base else
                 "inner-blank" if "".join(t.split()) in base else "case-variant" if t.lower() in [b.lower() for b in base] else
                 "separator-inside" if ":" in t else "other")
        first = base[1] if base[0] == t else base[0]
        try:
            if via == "new":
                try:
                    x = C(atype=t, aval=v)
                except Exception as e:        # refused (the unchanged constructor refuses with a TypeError out of its own error text)
                    self.res.count("ttuple-name:refused:new:" + kind(e))
                    return
            else:
                x = C(atype=first, aval="kept")
                try:
                    x.parse_from_string(t + ":" + v)
                except Exception as e:
                    self.res.count("ttuple-name:refused:parse:" + kind(e))
                    if (x.type, x.val) != (first, "kept"):
                        self.bad("typed_tuple:name:%s:parse:refused-but-changed" % shape, "a refused re-parse changed the tuple", case,
                                 observed=[x.type, to_wire(x.val)])
                    return
            self.res.count("ttuple-name:accepted:" + shape)
            s = x.get_as_string()
            for how in ("fromstring", "parse"):
                try:
                    if how == "fromstring":
                        y = C(fromstring=s)
                    else:
                        y = C(atype=first, aval="")
                        y.parse_from_string(s)
                except Exception as e:
                    self.bad("typed_tuple:name:%s:%s:own-encoding-refused" % (shape, how), "an accepted tuple's own encoding %r is refused (%s)" % (s, kind(e)), case)
                    continue
                if (y.type, y.val) != (x.type, x.val) or not y.check_type(x) or not x.check_type(y):
                    self.bad("typed_tuple:name:%s:%s:decodes-to-other-tuple" % (shape, how),
                             "a tuple accepted with type name %r does not decode from its own encoding %r to an equal tuple" % (t, s), case,
                             expected=[x.type, to_wire(x.val)], observed=[y.type, to_wire(y.val)])
                elif y.get_as_string() != s:
                    self.bad("typed_tuple:name:%s:%s:reencode-differs" % (shape, how), "re-encoding differs", case, expected=s, observed=y.get_as_string())
        except Exception as e:
            self.bad("typed_tuple:name:%s:raises:%s" % (shape, kind(e)), "typed tuple raises", case)

    def tt_cross(self, steps):
        """A history over SEVERAL tuple classes in one process (they share one validator helper object): type names of any
        category - its own or another one's - are offered to any class through the keyword constructor, fromstring= and the
        re-parse setter.  Whatever was looked up before, in whatever category: the verdict on (class, type name) is the one of the
        class's own type table and never changes during the history; an accepted tuple decodes from its own encoding; a refused
        re-parse keeps the tuple; and every tuple built earlier in the history (of every class) still decodes from its own encoding
        after every step."""
        tt = self.M[6]
        case = {"kind": "tt_cross", "steps": steps}
        kept = {}          # class name -> [tuple, (type, val)] : the tuple the class's re-parse steps work on
        made = []          # [class, tuple, (type, val)] of every tuple accepted so far
        seen = {}
        try:
            for i, (cname, via, t, v) in enumerate(steps):
                C = getattr(tt, cname)
                own = tuple_types(tt, cname)
                want = t in own
                text = t + ":" + v
                at = "step %d (%s %s %r)" % (i, cname, via, text)
                x = None
                try:
                    if via == "new":
                        x = C(atype=t, aval=v)
                    elif via == "from":
                        x = C(fromstring=text)
                    else:
                        if cname not in kept:
                            k = C(atype=own[0], aval="kept")
                            kept[cname] = [k, (own[0], "kept")]
                            made.append([cname, k, kept[cname]])
                        x = kept[cname][0]
                        x.parse_from_string(text)
                        kept[cname][1] = (t, v)
                    got = True
                except Exception as e:
                    got = False
                    self.res.count("tt-cross:refused:%s:%s" % (via, kind(e)))
                    if via == "parse" and cname in kept and (kept[cname][0].type, kept[cname][0].val) != kept[cname][1]:
                        self.bad("typed_tuple:cross:refused-but-changed", "a refused re-parse changed the tuple at " + at, case,
                                 expected=list(kept[cname][1]), observed=[kept[cname][0].type, to_wire(kept[cname][0].val)])
                        return
                self.res.count("tt-cross:%s:%s" % ("own" if want else "foreign", "accepted" if got else "refused"))
                if seen.setdefault((cname, t), got) != got:
                    self.bad("typed_tuple:cross:verdict-changed-with-history",
                             "the same type name %r was %s by %s earlier in the history and is %s at %s" %
                             (t, "accepted" if not got else "refused", cname, "accepted" if got else "refused", at), case)
                    return
                if got != want:
                    # the name was offered to ANOTHER class earlier in this very history (self-contained) / the verdict was
                    # already off at the name's first use here (it follows something that happened before, in this process)
                    hist = "after-other-class" if any(s[2] == t and s[0] != cname for s in steps[:i]) else "at-first-use"
                    self.bad("typed_tuple:cross:%s:%s" % ("own-type-refused" if want else "foreign-type-accepted", hist),
                             "%s: the type name %r is %s the class's own type table%s" % (at, t, "in" if want else "NOT in",
                             "; the same name was offered to another class earlier in the history" if hist == "after-other-class" else ""), case,
                             expected="accepted" if want else "refused", observed="accepted" if got else "refused")
                    return
                if got and via != "parse":
                    made.append([cname, x, [None, (t, v)]])
                for cn, y, exp in made:          # every tuple of the history, of every class, still decodes from its own encoding
                    D = getattr(tt, cn)
                    s = y.get_as_string()
                    for how in ("fromstring", "parse"):
                        try:
                            if how == "fromstring":
                                z = D(fromstring=s)
                            else:
                                z = D(atype=y.type, aval="")
                                z.parse_from_string(s)
                        except Exception as e:
                            self.bad("typed_tuple:cross:%s:own-encoding-refused" % how,
                                     "after %s the %s tuple %r no longer decodes from its own encoding (%s)" % (at, cn, s, kind(e)), case)
                            return
                        if (z.type, z.val) != exp[1] or z.get_as_string() != s:
                            self.bad("typed_tuple:cross:%s:decodes-to-other-tuple" % how,
                                     "after %s the %s tuple %r decodes to another tuple" % (at, cn, s), case,
                                     expected=list(exp[1]), observed=[z.type, to_wire(z.val)])
                            return
        except Exception as e:
            self.bad("typed_tuple:cross:raises:%s" % kind(e), "a typed tuple history over several classes raises", case)


    # ------------------------------------------------------------------
    # histories: aliasing and hidden state.  Rule: after ANY sequence of API calls and of in-place changes to objects
    # the caller owns (what it passed in, what it got back), every instance is still self-consistent (its value is
    # what its own encoding decodes to; ==/hash agree with that), no API call changes an input or a previously
    # returned value, values held as text (JSONData) or built by copying (Tags, Gateway, to_dict(), list_*()) do not
    # follow later changes of the caller's objects, and instances derived from one another (update / copy /
    # from_json(to_json())) do not share state that an assignment on one of them changes.

    def jd_history(self, cname, obj=None, text=None):
        jd = self.M[2]
        C = getattr(jd, cname)
        case = {"kind": "jd_history", "class": cname, "py": repr(obj) if text is None else None, "text": text}

        def bad(step, why, what, **kw):
            self.bad("%s:history:%s:%s" % (cname, step, why), what, case, **kw)
        try:
            src = copy.deepcopy(obj)
            x = C(src) if text is None else C(text)
            j0 = x.json
            exp = json.loads(j0)
            twin = C(j0)
            has_eq = type(x).__eq__ is not object.__eq__

            def consistent(step):
                if x.json != j0:
                    bad(step, "text-changed", "the stored JSON text changed although the value was not assigned", expected=j0, observed=x.json)
                d = x.data
                if d != exp or type(d) is not type(exp):
                    bad(step, "data-differs-from-text", ".data is no longer what .json decodes to", expected=srepr(exp), observed=srepr(d))
                if C(x.json).data != d:
                    bad(step, "roundtrip", "decode(encode(value)) differs from the value", observed=srepr(d))
                if has_eq:
                    if not (x == twin) or hash(x) != hash(twin):
                        bad(step, "eq-hash", "value no longer equal / same hash as a value with the same text")
                    elif twin.data != d:
                        bad(step, "eq-but-different-data", "compares equal to a value that shows different data")
            consistent("constructed")
            w = Watch(self, case, cname)
            w.add("argument", src)
            first = x.data
            w.add("returned .data", first)
            x.json, x.data, str(x), C(x.json)
            w.check("reading .json/.data/str")
            if mutate_container(src):
                consistent("after-source-mutated")
            got = x.data
            if mutate_container(got):
                consistent("after-returned-data-mutated")
            if got is not first and mutate_container(first):
                consistent("after-first-returned-data-mutated")
            # two instances built from one source object
            src2 = copy.deepcopy(obj) if text is None else None
            a, b = (C(src2), C(src2)) if text is None else (C(text), C(text))
            bj, bd = b.json, copy.deepcopy(b.data)
            if mutate_container(a.data) | (src2 is not None and mutate_container(src2)):
                if b.json != bj or b.data != bd or b.data != json.loads(b.json):
                    bad("two-instances", "shared-state", "changing what one instance returned (or the common source) changed another instance")
        except Exception as e:
            bad("raises", kind(e), "history on valid JSON data raises %s" % type(e).__name__)

    def jf_history(self, cname, kw):
        cl = self.M[0]
        C = getattr(cl, cname)
        case = {"kind": "jf_history", "class": cname, "kw": to_wire(kw)}

        def bad(step, why, what, **k2):
            self.bad("%s:history:%s:%s" % (cname, step, why), what, case, **k2)

        def observe(o):
            return [o.to_json(), copy.deepcopy(o.__dict__), copy.deepcopy(o.to_dict()), str(o)]

        def consistent(o, step):
            t = o.to_json()
            y = C.from_json(t)
            if (y is None and o.__dict__ != C().__dict__) or (y is not None and y.__dict__ != o.__dict__):
                bad(step, "roundtrip", "decode(encode(value)) differs from the value", observed=t)
        try:
            src = copy.deepcopy(kw)
            x = C(**src)
            w = Watch(self, case, cname)
            w.add("constructor arguments", src)
            o1 = observe(x)
            d = x.to_dict()
            w.add("returned to_dict()", d)
            t = x.to_json()
            y = C.update(x)
            z = C.from_json(t)
            w.check("to_dict/to_json/update/from_json")
            oy, oz = observe(y), (observe(z) if z is not None else None)
            # the dict handed out by to_dict() is the caller's
            if d is not None:
                d["__added__"] = 1
                d.pop(next(iter(d)))
                if observe(x) != o1:
                    bad("after-to_dict-result-mutated", "instance-changed", "changing the dict returned by to_dict() changed the instance")
            # assignment on a derived instance must not reach the others, and vice versa
            names = list(x.__dict__)
            rng = __import__("random").Random(canon(case))
            for f in names[:3]:
                v2 = None
                for _ in range(8):
                    v2 = domain_value(cl, C, f, rng)
                    if v2 is not None and v2 != x.__dict__[f]:
                        break
                if v2 is None or v2 == x.__dict__[f]:
                    continue
                setattr(y, f, v2)
                if observe(x) != o1:
                    bad("after-assignment-on-update-copy", "original-changed", "assigning a field of update(x) changed x")
                if z is not None:
                    if observe(z) != oz:
                        bad("after-assignment-on-update-copy", "decoded-twin-changed", "assigning a field of one instance changed an unrelated instance")
                    setattr(z, f, v2)
                    oz = observe(z)
                    if observe(x) != o1:
                        bad("after-assignment-on-decoded", "original-changed", "assigning a field of from_json(to_json(x)) changed x")
                oy = observe(y)
                setattr(x, f, v2)
                if observe(y) != oy:
                    bad("after-assignment-on-original", "copy-changed", "assigning a field of x changed update(x)")
                consistent(x, "after-assignment")
                o1 = observe(x)
            # the caller's own containers (lists passed as values) are stored by reference by design; whatever the caller
            # does to them the instance must stay self-consistent
            changed = False
            for f, v in src.items():
                if isinstance(v, list):
                    pool = label_values(cl, f) if cname == "Labels" else STRS
                    v.append(v[0] if v else pool[0])      # a value of the field's domain, so that decoding still accepts it
                    changed = True
            if changed:
                consistent(x, "after-source-mutated")
                if observe(x) != o1:
                    self.res.count("oracle:alias:%s-holds-callers-list" % cname)
        except Exception as e:
            bad("raises", kind(e), "history on a valid value raises %s" % type(e).__name__)

    def tags_history(self, ts):
        tg = self.M[1]
        case = {"kind": "tags_history", "tags": ts}

        def bad(step, why, what):
            self.bad("Tags:history:%s:%s" % (step, why), what, case)
        try:
            src = list(ts)
            x = tg.Tags(src)
            t0, v0 = x.to_json(), list(x.tags)
            w = Watch(self, case, "Tags")
            w.add("argument", src)
            it = list(iter(x))
            y = tg.Tags.from_json(t0)
            w.add("iterated tags", it)
            x.to_json(), str(x), list(iter(x))
            w.check("to_json/str/iter/from_json")
            src.append("added")
            it.append("added")
            if src[:1]:
                src[0] = "changed"
            if x.to_json() != t0 or list(x.tags) != v0:
                bad("after-source-mutated", "instance-changed", "changing the list given to the constructor (or the iterated copy) changed the Tags")
            y.tags.append("zz")
            if x.to_json() != t0:
                bad("two-instances", "shared-state", "changing a decoded twin changed the original")
        except Exception as e:
            bad("raises", kind(e), "history on valid tags raises %s" % type(e).__name__)

    def mi_history(self, entries):
        mm = self.M[5]
        case = {"kind": "mi_history", "entries": entries}

        def bad(step, why, what):
            self.bad("MaintenanceInfo:history:%s:%s" % (step, why), what, case)
        try:
            m = mm.MaintenanceInfo()
            built = [(nm, entry_build(mm, wv)) for nm, wv in entries]
            for nm, e in built:
                m.add(nm, e)
            m.finalize()
            t0 = m.to_json()
            snap = copy.deepcopy(m._nodes)
            w = Watch(self, case, "MaintenanceInfo")
            names, details = m.list_names(), m.list_details()
            w.add("list_names()", names)
            w.add("list_details()", details)
            its = list(m.iter())
            y = mm.MaintenanceInfo.from_json(t0)
            c = m.copy()
            m.to_json(), str(m), m.list_names(), m.list_details()
            w.check("list_names/list_details/iter/copy/to_json/from_json")
            names.append("zz")
            details.append(("zz", None))
            if details[:1]:
                details.pop(0)
            its.clear()
            if m._nodes != snap or m.to_json() != t0 or list(m._nodes) != list(snap):
                bad("after-returned-lists-mutated", "record-changed", "changing a list returned by list_names/list_details/iter changed the finalized record")
            c.add("zz", entry_build(mm, ["Active", None, None]))
            for nm in list(snap)[:1]:
                c.rem(nm)
            y2 = y.copy()
            y2.add("yy", entry_build(mm, ["Maint", None, None]))
            if m._nodes != snap or m.to_json() != t0:
                bad("two-instances", "shared-state", "changing a copy / a decoded twin's copy changed the finalized record")
            if y._nodes != snap or y.to_json() != t0:
                bad("two-instances", "decoded-twin-changed", "changing a copy of the decoded twin changed the twin")
        except Exception as e:
            bad("raises", kind(e), "history on a valid record raises %s" % type(e).__name__)

    def pi_history(self, ero, payload):
        pi = self.M[4]
        cname = "ERO" if ero else "PathInfo"
        case = {"kind": "pi_history", "ero": ero, "payload": to_wire(payload)}
        K = pi.ERO if ero else pi.PathInfo

        def bad(step, why, what):
            self.bad("%s:history:%s:%s" % (cname, step, why), what, case)

        def same(p, q):
            return q is not None and p.type == q.type and type(p.payload) is type(q.payload) and \
                (p.payload.__dict__ == q.payload.__dict__ if isinstance(p.payload, pi.Path) else p.payload == q.payload)
        try:
            a2z, z2a = copy.deepcopy(payload)
            q = pi.Path()
            q.set(a2z=a2z, z2a=z2a)
            x = K(pi.PathRepresentationType.Path)
            x.set(q)
            t0 = x.to_json()
            w = Watch(self, case, cname)
            w.add("lists given to Path.set", [a2z, z2a])
            y = K.from_json(t0)
            got = x.get()
            x.to_json(), str(x), q.get(), q.to_dict()
            w.check("to_json/str/get/to_dict/from_json")
            # a decoded twin is independent of the original
            for l in (y.payload.a2z, y.payload.z2a):
                if isinstance(l, list):
                    l.append("zz")
            if x.to_json() != t0:
                bad("two-instances", "shared-state", "changing the decoded twin's lists changed the original")
            # the caller's lists are held by reference by design; the value must stay self-consistent
            ch = False
            for l in (a2z, z2a):
                ch |= isinstance(l, list) and mutate_container(l)
            if ch and not same(x, K.from_json(x.to_json())):
                bad("after-source-mutated", "roundtrip", "decode(encode(value)) differs from the value")
        except Exception as e:
            bad("raises", kind(e), "history on a valid path raises %s" % type(e).__name__)

    def gw_history(self, kw):
        cl, gw = self.M[0], self.M[3]
        case = {"kind": "gw_history", "kw": kw}

        def bad(step, why, what):
            self.bad("Gateway:history:%s:%s" % (step, why), what, case)
        try:
            lab = cl.Labels(**kw)
            g = gw.Gateway(lab)
            t0 = g.to_json()
            d0 = copy.deepcopy(g.lab.__dict__)
            snap = copy.deepcopy(lab.__dict__)
            g2 = gw.Gateway.from_json(t0)
            g.to_json(), str(g), g.gateway, g.subnet, g.mac
            if lab.__dict__ != snap:
                bad("api-call", "input-changed", "Gateway changed the labels it was given")
            # the caller keeps using its Labels object
            lab.mac = "0a:0b:0c:0d:0e:0f"
            lab.ipv4, lab.ipv6 = None, None
            if g.to_json() != t0 or g.lab.__dict__ != d0:
                bad("after-source-mutated", "instance-changed", "changing the Labels given to the constructor changed the Gateway")
            g2.lab.mac = "0a:0b:0c:0d:0e:0f"
            if g.to_json() != t0:
                bad("two-instances", "shared-state", "changing the decoded twin changed the original")
        except Exception as e:
            bad("raises", kind(e), "history on a valid gateway raises %s" % type(e).__name__)

    def run_case(self, c):
        k = c["kind"]
        if k == "jsonfield":
            self.jsonfield(c["class"], from_wire(c["kw"]), [tuple(u) for u in from_wire(c["unknown"])] if c.get("unknown") else None)
        elif k == "update":
            self.jf_update(c["class"], from_wire(c["kw"]), from_wire(c["kw2"]), c.get("bad_key"))
        elif k == "tags":
            self.tags(c["tags"])
        elif k == "jsondata":
            self.jsondata(c["class"], obj=pyobj(c) if c.get("text") is None else None, text=c.get("text"))
        elif k == "jd_history":
            self.jd_history(c["class"], obj=pyobj(c) if c.get("text") is None else None, text=c.get("text"))
        elif k == "jf_history":
            self.jf_history(c["class"], from_wire(c["kw"]))
        elif k == "tags_history":
            self.tags_history(c["tags"])
        elif k == "mi_history":
            self.mi_history([tuple(e) for e in c["entries"]])
        elif k == "pi_history":
            self.pi_history(c["ero"], from_wire(c["payload"]))
        elif k == "gw_history":
            self.gw_history(c["kw"])
        elif k == "gateway":
            self.gateway(c["kw"])
        elif k == "pathinfo":
            self.pathinfo(c["ero"], c["type"], from_wire(c["payload"]), c["strict"], c.get("unknown", False))
        elif k == "maintenance":
            self.maintenance([tuple(e) for e in c["entries"]], c.get("unknown_entry_key"))
        elif k == "ttuple":
            self.ttuple(c["class"], c["type"], c["val"])
        elif k == "ttuple_name":
            self.ttuple_name(c["class"], c["type"], c["val"], c["via"])
        elif k == "tt_cross":
            self.tt_cross([list(x) for x in c["steps"]])
        elif not self.run_alias_case(c) and not self.run_fail_case(c) and not self.run_stored_case(c):
            raise ValueError("unknown case kind %s" % k)


def pyobj(c):
    """the python object of a jsondata case: `py` (a literal, for tuples / non-str keys) or the wire form `obj`"""
    if c.get("py") is not None:
        import ast
        return ast.literal_eval(c["py"])
    return from_wire(c.get("obj"))


def corpus_cases():
    out = []
    for p in sorted(glob.glob(os.path.join(CORPUS_DIR, "C03", "*.json"))):
        with open(p) as f:
            d = json.load(f)
        out.extend(d["cases"] if "cases" in d else [d["case"]])
    return out


GROUPS = ["Capacities", "CapacityHints", "Labels", "ReservationInfo", "StructuralInfo", "Location", "Flags", "Tags",
          "MeasurementData", "UserData", "LayoutData", "Gateway", "PathInfo", "ERO", "MaintenanceInfo", "TypedTuple"]


def battery(M):
    """deterministic cases per class (group): {group: [case, ...]}; the first case of a group is its representative
    ('encode one instance') in a prelude"""
    cl, tg, jd, gw, pi, mm, tt = M
    B = {g: [] for g in GROUPS}
    for C in jf_classes(cl):
        cn = C.__name__
        if cn not in B:
            B[cn] = []
            GROUPS.append(cn)
        good = [j for j in JUNK if passes_guard(C, j)]
        corners = corner_kwargs(cl, C)
        first = corners[1]
        B[cn].append({"kind": "jsonfield", "class": cn, "kw": to_wire(first), "unknown": None})
        for kw in corners:
            B[cn].append({"kind": "jsonfield", "class": cn, "kw": to_wire(kw), "unknown": None})
            B[cn].append({"kind": "jsonfield", "class": cn, "kw": to_wire(kw), "unknown": to_wire([("future_field", good[0])])})
            B[cn].append({"kind": "jf_history", "class": cn, "kw": to_wire(kw)})
        for j in JUNK:                                   # unknown key with every JSON value shape
            B[cn].append({"kind": "jsonfield", "class": cn, "kw": to_wire(first), "unknown": to_wire([("future_field", j)])})
        for a in sorted(a for a in dir(C()) if not a.startswith("__") and a not in C().__dict__):
            B[cn].append({"kind": "jsonfield", "class": cn, "kw": to_wire(first), "unknown": to_wire([(a, good[0])])})
        B[cn].append({"kind": "update", "class": cn, "kw": to_wire(first), "kw2": to_wire({}), "bad_key": "no_such_field"})
        names = list(C().__dict__)
        full = {}
        for f in names:
            v = corner_kwargs(cl, C)
            v = [k[f] for k in v if f in k]
            if v:
                full[f] = v[-1]
        B[cn].append({"kind": "jsonfield", "class": cn, "kw": to_wire(full), "unknown": None})
        B[cn].append({"kind": "jf_history", "class": cn, "kw": to_wire(full)})
        # aliasing / mutation family: every corner, the full value, and (list-capable classes) list-valued fields
        for kw in corners + [full]:
            B[cn].append({"kind": "alias_jf", "class": cn, "kw": to_wire(kw)})
        if guard_of(C) == "strlist":
            lf = [f for f in names if (label_values(cl, f) if cn == "Labels" else STRS)]
            pools = {f: list((label_values(cl, f) if cn == "Labels" else ["a", "b c", "é"]))[:3] for f in lf}
            B[cn].append({"kind": "alias_jf", "class": cn, "kw": to_wire({f: list(pools[f]) for f in lf})})
            B[cn].append({"kind": "alias_jf", "class": cn, "kw": to_wire({f: [] for f in lf[:2]})})
            for i, f in enumerate(lf):
                B[cn].append({"kind": "alias_jf", "class": cn, "kw": to_wire({f: list(pools[f]), lf[(i + 1) % len(lf)]: pools[lf[(i + 1) % len(lf)]][0]})})
                B[cn].append({"kind": "alias_jf_forms", "class": cn, "field": f, "vals": list(pools[f])})
    TAGS = ["a", "tag-1", "under_score", "A" * 255, "é", "0", "x" * 17]
    for ts in [["a"], [], ["a", "a"], TAGS]:
        B["Tags"].append({"kind": "tags", "tags": ts})
        B["Tags"].append({"kind": "tags_history", "tags": ts})
        for form in ("list", "tuple", "varargs", "mixed"):
            B["Tags"].append({"kind": "alias_tags", "tags": ts, "form": form})
    for cname in ("MeasurementData", "UserData", "LayoutData"):
        mx = getattr(jd, cname).MAX_SIZE
        objs = [{"a": 1}, None, {}, [], {"a": {"b": [1, 2.5, None, True, "é"]}}, ["x" * (mx - 6)], ["x" * (mx - 4)], 0, 0.0, False,
                [0.0, -0.0], {"k": ""}, {"k": ["a", "b"], "n": {"x": 0}}, [[1], [2]], (1, 2), {"t": (1, (2, 3))}, {1: "one", 2.5: "f", True: "b", None: "n"},
                [0, 0.0, None]]
        for o in objs:
            B[cname].append({"kind": "jsondata", "class": cname, "py": repr(o), "text": None})
            B[cname].append({"kind": "jd_history", "class": cname, "py": repr(o), "text": None})
        for t in ["{}", "[]", "null", "0", '""', ' { "a" : 1 } ', '{"b":2,"a":1}', '"' + "x" * (mx - 2) + '"', '{"a": 1e5}',
                  '{"k": ["a", "b"], "z": 0}', '[{"a": []}, [1]]']:
            B[cname].append({"kind": "jsondata", "class": cname, "py": None, "text": t})
            B[cname].append({"kind": "jd_history", "class": cname, "py": None, "text": t})
    v4 = dict(ipv4_subnet="192.168.1.0/24", ipv4="192.168.1.1")
    v6 = dict(ipv6_subnet="2001:db8::/48", ipv6="2001:db8::1")
    for kw in [v4, None, v6, dict(v4, mac="00:11:22:33:44:55"), dict(v6, mac="aA:bB:cC:dD:eE:fF"), dict(v4, vlan="5", ipv6="::1"), dict(v4, **v6)]:
        B["Gateway"].append({"kind": "gateway", "kw": kw})
        if kw is not None:
            B["Gateway"].append({"kind": "gw_history", "kw": kw})
            B["Gateway"].append({"kind": "alias_gw", "kw": kw})
    # list-valued labels the gateway does not keep (subnet/address/mac are documented as single strings)
    for kw in [dict(v4, vlan=["5", "7"], ipv6_subnet=["::/0"]), dict(v6, vlan_range=["100-200"], mac="00:11:22:33:44:55", local_name=["a", "b"])]:
        B["Gateway"].append({"kind": "gateway", "kw": kw})
        B["Gateway"].append({"kind": "alias_gw", "kw": kw})
    lists = [None, [], ["a"], ["n1", "n2", "n3"], ["é", "x y"]]
    for ero in (False, True):
        g = "ERO" if ero else "PathInfo"
        B[g].append({"kind": "pathinfo", "ero": ero, "type": "Path", "payload": to_wire([["a"], ["b"]]), "strict": False, "unknown": False})
        for strict in ((False, True) if ero else (False,)):
            for unknown in (False, True):
                for t in ("Path", "Graph"):
                    B[g].append({"kind": "pathinfo", "ero": ero, "type": t, "payload": None, "strict": strict, "unknown": unknown})
                for gid in ["graph-1", "", "é"]:
                    B[g].append({"kind": "pathinfo", "ero": ero, "type": "Graph", "payload": gid, "strict": strict, "unknown": unknown})
                for a in lists:
                    for z in lists:
                        B[g].append({"kind": "pathinfo", "ero": ero, "type": "Path", "payload": to_wire([a, z]), "strict": strict, "unknown": unknown})
        for a in lists:
            B[g].append({"kind": "pi_history", "ero": ero, "payload": to_wire([a, list(reversed(a)) if a else a])})
        for a in lists:
            for z in lists:
                B[g].append({"kind": "alias_pi", "ero": ero, "a2z": to_wire(a), "z2a": to_wire(z), "symmetric": False})
            if a is not None:
                B[g].append({"kind": "alias_pi", "ero": ero, "a2z": to_wire(a), "z2a": None, "symmetric": True})
                B[g].append({"kind": "alias_pi", "ero": ero, "a2z": to_wire(a), "z2a": to_wire(a), "symmetric": False, "tuples": True})
        for gid in ["graph-1", "", "é"]:
            B[g].append({"kind": "alias_pi_graph", "ero": ero, "gid": gid})
    e1 = ["Maint", DATES[3].isoformat(), None]
    e2 = [None, None, DATES[1].isoformat()]
    B["MaintenanceInfo"] += [{"kind": "maintenance", "entries": [["n1", e1]], "unknown_entry_key": None},
                             {"kind": "maintenance", "entries": [], "unknown_entry_key": None},
                             {"kind": "maintenance", "entries": [["n1", ["Active", None, None]]], "unknown_entry_key": "operator"},
                             {"kind": "maintenance", "entries": [["RENC", e1], ["é", e2], ["", ["Unknown", DATES[2].isoformat(), DATES[4].isoformat()]]], "unknown_entry_key": None},
                             {"kind": "mi_history", "entries": [["n1", e1]]}, {"kind": "mi_history", "entries": []},
                             {"kind": "mi_history", "entries": [["RENC", e1], ["é", e2]]}]
    e3 = ["Unknown", DATES[2].isoformat(), DATES[4].isoformat()]
    for es in [[["n1", e1]], [], [["RENC", e1], ["é", e2], ["", e3]], [["a", ["Active", None, None]], ["b", ["PreMaint", DATES[0].isoformat(), DATES[1].isoformat()]]]]:
        B["MaintenanceInfo"].append({"kind": "alias_mi", "entries": es})
    for st in STATES:
        for d1 in [None, DATES[0].isoformat(), DATES[3].isoformat()]:
            for d2 in [None, DATES[1].isoformat(), DATES[2].isoformat()]:
                B["MaintenanceInfo"].append({"kind": "alias_entry", "entry": [st, d1, d2]})
    TV = ["x", "", "a:b", ":", " lead", "é", "5", "a b"]
    for cname in TT:
        for t in tuple_types(tt, cname)[:3]:
            for v in ["x", "", "a:b", 7] if cname == "Capacity" else ["x", "", "a:b"]:
                B["TypedTuple"].append({"kind": "alias_tt", "class": cname, "type": t, "val": v})
        for t in tuple_types(tt, cname):
            for v in TV:
                B["TypedTuple"].append({"kind": "ttuple", "class": cname, "type": t, "val": v})
    for cname in TT:                                    # type NAMES as written: blanks around / inside, case variants, empty
        ts = tuple_types(tt, cname)
        for t in ts[:3] + ts[-1:]:
            for nm in name_variants(t):
                for via in ("new", "parse"):
                    for v in ("v", "a:b"):
                        B["TypedTuple"].append({"kind": "ttuple_name", "class": cname, "type": nm, "val": v, "via": via})
    B["TypedTuple"] += [{"kind": "ttuple", "class": "Label", "type": "mac", "val": "trail "}, {"kind": "ttuple", "class": "Label", "type": "vlan", "val": "  "},
                        {"kind": "ttuple", "class": "Capacity", "type": "ram", "val": 1000}, {"kind": "ttuple", "class": "Capacity", "type": "cpu", "val": 0}]
    # histories over SEVERAL tuple classes (one shared validator object): a name of either class's table, or of neither, is offered to
    # class A, then to class B, then to A again - every ordered pair of classes, every pair of entry points
    for a in TT:
        for b in TT:
            if a == b:
                continue
            ta, tb = tuple_types(tt, a), tuple_types(tt, b)
            names = [tb[0], ta[0], "nope"] + [t for t in ta if t in tb][:1]
            for t in names:
                for va in ("new", "from", "parse"):
                    for vb in ("new", "from", "parse"):
                        B["TypedTuple"].append({"kind": "tt_cross", "steps": [[a, va, t, "4"], [b, vb, t, "4"], [a, va, t, "a:b"], [b, "from", tb[-1], ""]]})
    fail_battery(M, B)          # every class: calls that are REJECTED must leave the value as it was (lib_c03fail)
    mi_phase_battery(M, B)      # handles taken while a maintenance record is built, used after every route into the finalized state
    stored_battery(M, B)        # histories of writes to the attribute of a model element where the text is stored (lib_c03stored)
    return B


def name_variants(t):
    """a type name as hand-written descriptions have it: blanks / tabs / newlines around and inside, other case, empty"""
    mid = max(len(t) // 2, 1)
    return [t, " " + t, "\t" + t, "\n" + t, "  " + t, t + " ", t + "\t", t + "\n", " " + t + " ", t[:mid] + " " + t[mid:], t.upper(), t.capitalize(),
            t.swapcase(), "", " ", "\u00a0" + t, t + "\u00a0", t + ":x", "\ufeff" + t]


def random_cases(M, rng, n):
    cl, tg, jd, gw, pi, mm, tt = M
    classes = jf_classes(cl)
    out = []
    for i in range(n):
        C = rng.choice(classes)
        cn = C.__name__
        kw = domain_kwargs(cl, C, rng)
        r = rng.random()
        if r < 0.45:
            out.append({"kind": "jsonfield", "class": cn, "kw": to_wire(kw), "unknown": None})
        elif r < 0.7:
            good = [j for j in JUNK if passes_guard(C, j)]
            out.append({"kind": "jsonfield", "class": cn, "kw": to_wire(kw),
                        "unknown": to_wire([(rng.choice(UNKNOWN_KEYS), rng.choice(good)) for _ in range(rng.choice([1, 2, 3]))])})
        elif r < 0.9:
            out.append({"kind": "update", "class": cn, "kw": to_wire(kw), "kw2": to_wire(domain_kwargs(cl, C, rng, density=rng.choice([0.0, 0.3, 0.6]))),
                        "bad_key": "no_such_field" if rng.random() < 0.2 else None})
        elif r < 0.95:
            out.append({"kind": "jf_history", "class": cn, "kw": to_wire(kw)})
        else:
            out.append({"kind": "alias_jf", "class": cn, "kw": to_wire(kw)})
    m = max(20, n // 25)
    for i in range(m):                                  # list-heavy values of the list-capable classes
        C = rng.choice([c for c in classes if guard_of(c) == "strlist"])
        kw = {}
        for f in list(C().__dict__):
            pool = label_values(cl, f) if C.__name__ == "Labels" else STRS
            if pool and rng.random() < 0.3:
                kw[f] = [rng.choice(pool) for _ in range(rng.choice([0, 1, 2, 4]))] if rng.random() < 0.7 else rng.choice(pool)
        out.append({"kind": "alias_jf", "class": C.__name__, "kw": to_wire(kw)})
    BL = ["", "", " ", "\t", "\n", "  ", "\r", "\u00a0"]
    for i in range(m):                                  # typed tuples: type names with blanks around / inside, other case
        cname = rng.choice(list(TT))
        t = rng.choice(tuple_types(tt, cname))
        k = rng.random()
        if k < 0.2:
            j = rng.randrange(len(t) + 1)
            t = t[:j] + rng.choice(BL[2:]) + t[j:]
        elif k < 0.3:
            t = rng.choice([t.upper(), t.capitalize(), t.swapcase()])
        nm = rng.choice(BL) + t + rng.choice(BL)
        out.append({"kind": "ttuple_name", "class": cname, "type": nm, "val": rng.choice(["v", "", "a:b", "1", "x y"]), "via": rng.choice(["new", "parse"])})
    every = sorted({t for c in TT for t in tuple_types(tt, c)}) + ["nope", ""]
    for i in range(m):                                  # typed tuples: histories over several classes, type names of every category
        pool = [rng.choice(every) for _ in range(rng.choice([1, 2, 3]))]
        out.append({"kind": "tt_cross", "steps": [[rng.choice(list(TT)), rng.choice(["new", "from", "parse"]), rng.choice(pool),
                                                   rng.choice(["4", "", "a:b", "x y", "é", "None"])] for _ in range(rng.choice([2, 3, 5, 8]))]})
    TAGS = ["a", "tag-1", "under_score", "A" * 255, "é", "0", "x" * 17]
    for i in range(m):
        ts = [rng.choice(TAGS) for _ in range(rng.choice([1, 2, 3, 8]))]
        out.append({"kind": rng.choice(["tags", "tags_history"]), "tags": ts})
        out.append({"kind": "alias_tags", "tags": ts, "form": rng.choice(["list", "tuple", "varargs", "mixed"])})

    def robj(d=0):
        k = rng.random()
        if d > 2 or k < 0.35:
            return rng.choice([None, True, False, 0, 1, -7, 0.0, 2.5] + (["", "s", "é"] if d else []))   # a top-level str is JSON text
        if k < 0.6:
            return [robj(d + 1) for _ in range(rng.choice([0, 1, 2, 3]))]
        if k < 0.7:
            return tuple(robj(d + 1) for _ in range(rng.choice([1, 2])))
        return {rng.choice(["a", "b", "k", "", "é", 1, 2.5] if rng.random() < 0.3 else ["a", "b", "k", "", "é"]): robj(d + 1)
                for _ in range(rng.choice([0, 1, 2, 3]))}
    for cname in ("MeasurementData", "UserData", "LayoutData"):
        for i in range(m // 2):
            o = robj()
            out.append({"kind": rng.choice(["jsondata", "jd_history"]), "class": cname, "py": repr(o), "text": None})
            out.append({"kind": "jd_history", "class": cname, "py": None, "text": json.dumps(json.loads(json.dumps(o)), sort_keys=rng.random() < 0.5)})

    def entry(r):
        d1 = r.choice(DATES + [None, None])
        d2 = r.choice(DATES + [None, None])
        return [r.choice(STATES), None if d1 is None else d1.isoformat(), None if d2 is None else d2.isoformat()]
    for i in range(m):
        es, seen = [], set()
        for _ in range(rng.choice([1, 2, 3, 5])):
            nm = rng.choice(NODE_NAMES)
            if nm not in seen:
                seen.add(nm)
                es.append([nm, entry(rng)])
        out.append({"kind": rng.choice(["maintenance", "maintenance", "mi_history"]), "entries": es, "unknown_entry_key": None})
        out.append({"kind": "alias_mi", "entries": es})
        hops = [[rng.choice(["n1", "n2", "é", "a b", ""]) for _ in range(rng.choice([0, 1, 3]))] if rng.random() < 0.8 else None for _ in range(2)]
        out.append({"kind": "alias_pi", "ero": rng.random() < 0.5, "a2z": to_wire(hops[0]), "z2a": to_wire(hops[1]),
                    "symmetric": hops[0] is not None and rng.random() < 0.3})
    out += fail_random(M, rng, n)
    out += stored_random(M, rng, n)
    return out


def is_nontrivial(c):
    k = c["kind"]
    if k.startswith("alias_"):
        return alias_nontrivial(c)
    if k in ("stored", "phase_mi"):
        return stored_nontrivial(c)
    if k in ("jsonfield", "update", "jf_history"):
        return bool(c["kw"].get("o")) if isinstance(c["kw"], dict) else bool(c["kw"])
    if k in ("tags", "tags_history"):
        return bool(c["tags"])
    if k in ("jsondata", "jd_history"):
        return c.get("text") not in (None, "{}", "[]", "null") or c.get("py") not in (None, "None", "{}", "[]")
    if k in ("maintenance", "mi_history"):
        return bool(c["entries"])
    if k in ("pathinfo",):
        return c["payload"] is not None
    if k == "gateway":
        return c["kw"] is not None
    return True


def class_state(M):
    """class-level data attributes of every codec class (hidden process state shows up here)"""
    cl, tg, jd, gw, pi, mm, tt = M
    out = {}
    klasses = [cl.JSONField] + jf_classes(cl) + [tg.Tags, jd.JSONData] + list(jd.JSONData.__subclasses__()) + \
        [gw.Gateway, pi.Path, pi.PathInfo, pi.ERO, mm.MaintenanceInfo, mm.MaintenanceEntry]
    for K in klasses:
        for a, v in vars(K).items():
            if a.startswith("__") or callable(v) or isinstance(v, (classmethod, staticmethod, property)) or a == "_abc_impl":
                continue
            try:
                out["%s.%s" % (K.__name__, a)] = copy.deepcopy(v)
            except Exception:
                out["%s.%s" % (K.__name__, a)] = repr(v)
    return out


def run_cases(O, cases, res, tag=None):
    for c in cases:
        O.run_case(c)
        res.evaluations += 1
        res.count("oracle:" + c["kind"])
        if is_nontrivial(c):
            res.nontrivial.add(canon(c))


def worker():
    """fresh-process part of the oracle: stdin {"prelude": [group...], "groups": [group...], "cases": [case...]?};
    stdout {"violations": [...], "evaluations": n, "state_changed": [...]}"""
    import sys
    from core import Result
    req = json.load(sys.stdin)
    M = mods()
    res = Result()
    O = Oracle(M, res)
    B = battery(M)
    scratch = Result()
    S0 = class_state(M)
    for g in req.get("prelude", []):                 # encode one instance of each of these classes first
        if B.get(g):
            Oracle(M, scratch).run_case(B[g][0])
    for g in req.get("groups", []):
        run_cases(O, B.get(g, []), res)
    run_cases(O, req.get("cases", []), res)
    S1 = class_state(M)
    for v in res.violations:
        v["case"] = dict(v["case"], fresh_process=True, prelude=req.get("prelude", []),
                         before=[g for g in req.get("groups", [])][:max(0, _group_index(req, v, B))])
    json.dump({"violations": res.violations, "evaluations": res.evaluations, "hist": res.hist,
               "state_changed": sorted(k for k in S1 if S0.get(k) != S1[k])}, sys.stdout, default=str)


def _group_index(req, v, B):
    c = {k: x for k, x in v["case"].items() if k not in ("fresh_process", "prelude", "before")}
    for i, g in enumerate(req.get("groups", [])):
        if any(c == b for b in B.get(g, [])):
            return i
    return 0


def spawn(reqs, par=8):
    """run worker requests in fresh interpreters, `par` at a time"""
    import subprocess
    import sys
    from core import Infra
    out = []
    for i in range(0, len(reqs), par):
        procs = []
        for r in reqs[i:i + par]:
            p = subprocess.Popen([sys.executable, "-c", "from props import c03; c03.worker()"], stdin=subprocess.PIPE, stdout=subprocess.PIPE,
                                 stderr=subprocess.PIPE, text=True, cwd=os.path.dirname(os.path.dirname(os.path.abspath(__file__))))
            p.stdin.write(json.dumps(r))
            p.stdin.close()
            procs.append((r, p))
        for r, p in procs:
            so = p.stdout.read()
            se = p.stderr.read()
            p.wait()
            try:
                out.append((r, json.loads(so)))
            except Exception:
                raise Infra("C03 oracle worker failed (rc=%s): %s" % (p.returncode, se[-1500:]))
    return out


def oracle(ctx, res, n=None):
    M = mods()
    O = Oracle(M, res)
    rng = ctx.sub_rng("oracle")
    n = n or ctx.scale(2500, 50000)
    S0 = class_state(M)
    # 0. corpus (past failures) first
    run_cases(O, corpus_cases(), res)
    # 1. deterministic battery, classes in a fresh order per seed (the expectations are order-free)
    B = battery(M)
    order = list(GROUPS)
    rng.shuffle(order)
    for g in order:
        run_cases(O, B[g], res)
    # 1b. the full stored-attribute battery (every element kind x attribute x write path x nothing-set / falsy / None history);
    #     the fresh processes below run its core.  Quick: a seeded half of it.
    SB = {}
    stored_battery(M, SB, full=True)
    full = [c for g in order for c in SB.get(g, [])]
    if not ctx.thorough and n <= 2500:
        full = [c for c in full if rng.random() < 0.5]
    run_cases(O, full, res)
    # 2. random cases of every class, interleaved
    cases = random_cases(M, rng, n)
    rng.shuffle(cases)
    run_cases(O, cases, res)
    changed = sorted(k for k, v in class_state(M).items() if S0.get(k) != v)
    for k in changed:
        res.count("oracle:class-level-state-changed:" + k)
        ctx.notes.append("class-level attribute %s changed while the oracle ran (hidden process state)" % k)
    # 3. fresh processes: every class is once the first one the process touches (followed by all the others), and once
    #    preceded by one encoded instance of every other class.  Same order-free expectations.
    reqs = []
    for i, g in enumerate(order):
        reqs.append({"prelude": [], "groups": order[i:] + order[:i]})
        reqs.append({"prelude": [h for h in order if h != g], "groups": [g]})
    if ctx.thorough:
        for k in range(8):
            o2 = list(order)
            rng.shuffle(o2)
            extra = random_cases(M, rng, 300)
            reqs.append({"prelude": [], "groups": o2, "cases": extra})
    for r, out in spawn(reqs):
        res.evaluations += out["evaluations"]
        res.count("oracle:fresh-process-runs")
        for k in out["state_changed"]:
            res.count("oracle:class-level-state-changed:" + k)
        for v in out["violations"]:
            v["signature"] = v["signature"]
            res.violation(v["signature"], v["what"] + " (in a fresh process, after: %s)" % (", ".join(v["case"]["prelude"] + v["case"].get("before", [])) or "nothing"),
                          v["case"], expected=v.get("expected"), observed=v.get("observed"))
    settle(res, order)
    res.sample({"case": {"class": "Capacities", "kw": {"cpu": 1, "ram": 2 ** 64 + 1}},
                "checks": "decode(encode x)==x field-wise, canonical order-free text, re-encode identical, no mutation of inputs / returned values, "
                          "to_dict/ctor, update, unknown keys, aliasing histories, class orders in-process and in fresh processes"})


def group_of(case):
    k = case["kind"]
    if k.startswith("alias_"):
        return alias_group(case)
    if k.startswith("fail_"):
        return fail_group(case)
    if k in ("stored", "phase_mi"):
        return stored_group(case)
    if k in ("jsonfield", "update", "jf_history", "jsondata", "jd_history"):
        return case["class"]
    return {"tags": "Tags", "tags_history": "Tags", "gateway": "Gateway", "gw_history": "Gateway", "maintenance": "MaintenanceInfo",
            "mi_history": "MaintenanceInfo", "ttuple": "TypedTuple", "ttuple_name": "TypedTuple", "tt_cross": "TypedTuple"}.get(k) or ("ERO" if case.get("ero") else "PathInfo")


def settle(res, order):
    """make every reported case reproducible by `--replay`: a violation seen in this (long-lived) process is re-run alone in a
    fresh process; if it only shows after other classes were used, the replay carries that prelude"""
    todo = [v for v in res.violations if not v["case"].get("fresh_process")]
    if not todo:
        return
    alone = spawn([{"prelude": [], "groups": [], "cases": [v["case"]]} for v in todo])
    again = []
    for v, (_, out) in zip(todo, alone):
        if not any(w["signature"] == v["signature"] for w in out["violations"]):
            again.append(v)
    if not again:
        return
    withp = spawn([{"prelude": [g for g in order if g != group_of(v["case"])], "groups": [], "cases": [v["case"]]} for v in again])
    for v, (r, out) in zip(again, withp):
        if any(w["signature"] == v["signature"] for w in out["violations"]):
            v["case"] = dict(v["case"], fresh_process=True, prelude=r["prelude"], before=[])
            v["what"] += " (order dependent: only after other classes were encoded in the same process)"
        else:
            v["what"] += " (seen in the oracle's process; not reproduced in a fresh process alone or after one instance of every other class)"


def search(ctx, res, broken):
    oracle(ctx, res, n=ctx.scale(25000, 250000))


def replay(ctx, payload):
    from core import Result
    case = dict(payload["case"])
    want = payload.get("signature")
    if case.pop("fresh_process", False):
        prelude = case.pop("prelude", [])
        before = case.pop("before", [])
        (_, out), = spawn([{"prelude": prelude, "groups": before, "cases": [case]}])
        viol = out["violations"]
    else:
        case.pop("prelude", None)
        case.pop("before", None)
        r = Result()
        Oracle(mods(), r).run_case(case)
        viol = r.violations
    for v in viol:
        print("  ", v["signature"], v["what"])
    return any(v["signature"] == want for v in viol) if want else bool(viol)
